# -*- coding: utf-8 -*-
"""
harness.b_c04 -- bounded stand-ins (kind B) for property C04
"Gherkin parsing is faithful: structure, text, tags, step types and line numbers".

Oracle: an independent Gherkin *writer* (``Writer`` below).  It walks an abstract
feature tree, writes the text line by line under a *layout* (indentation, blank
and comment lines, tag-line splitting, trailing comments on tag lines, cell
padding, doc-string columns, line endings) and, while writing, records the
expected model: every element with the 1-based number of the physical line on
which the writer put it.  The real parser is then run on the text and the
observed model (``observe``) is compared field by field (``diff``).  Nothing of
behave.parser is used to compute the expectation; ``behave.i18n.languages`` is
used as *data* (the keyword table the writer writes with).

Documents are named by a short script (one token per element, file order):

    F[@][d]            feature header        @ = tagged, d = 2 description lines
    B:<body>           Background
    S[@]:<body>        Scenario              O[@]:<body>    Scenario Outline
    E[@]:<n>           Examples with a heading row and n data rows
    R[@][d]            Rule (following B/S/O/E tokens belong to it)
    <body> = [d] then steps, each step = keyword letter g|w|t|a|b|s
             (given, when, then, and, but, '*') + optional payload
             q (doc-string \"\"\"), p (doc-string '''), T (data table)

Names, tag lists, description lines, doc-string texts and tables are taken from
fixed pools by element / step index (``build_doc``), so a script determines the
tree; (script, layout) determines the text.

Declared normalisations (not taken from the parser, stated here so that they can
be disputed):
  * a Rule that has no written Background inside a Feature that has one carries
    an inheritance placeholder ``Background`` created by ``Feature.add_rule``;
    a rule background with no name, no steps and no description located on the
    Rule line itself (no written Background can be there) counts as "none written";
  * doc-string lines are compared exactly in the tree checks (the writer never
    emits trailing blanks inside doc-strings); in ``docstring-dedent`` lines are
    compared modulo trailing blanks, plus ONE designated strict case.
"""
from __future__ import print_function
import itertools
import os
import random
import re
import shutil
import tempfile

from harness.bounded import BoundedCheck      # noqa: E402  (puts $VERIF_REPO first on sys.path)

from behave import i18n, model                # noqa: E402
from behave import parser as bparser          # noqa: E402
from behave.model_describe import ModelDescriptor   # noqa: E402
from behave.textutil import indent as behave_indent  # noqa: E402

STEP_KINDS = ("given", "when", "then", "and", "but")
BLOCK_KINDS = ("feature", "rule", "background", "scenario", "scenario_outline", "examples")
KW_OF = {"g": "given", "w": "when", "t": "then", "a": "and", "b": "but", "s": "star"}
QUOTES = {"q": '"""', "p": "'''"}


# =============================================================================
# 1. abstract trees from scripts
# =============================================================================
_NAME_PATS = (u"%s%d", u"%s%d with: colon", u"", u"%s%d  two  spaces",
              u"Scenario: %s%d keyword inside", u"%s%d ünï ©ode",
              u"%s%d # hash @at |pipe <x>")
_TAG_PATS = ((u"t%d",), (u"a%d", u"b.c-%d", u"k:v=%d"), (u"wip", u"ü%d"), (u"x#y%d", u"slow%d"))
_DESC_PATS = ((u"(d%d) As a user: I want x", u"so that | y # z @w"),
              (u"%d. first  line", u"<second> \"line\" 'x'"),
              (u"Scenario without colon %d", u"Examples and Background info", u"Rule of thumb: none"))
_STEP_PATS = (u"step %d", u"a <x> param %d", u"say \"hi\" %d:", u"Given nested keyword %d",
              u"%d | pipe # hash @at", u"ünï %d")
_TABLES = (
    {"head": [u"a", u"b"], "rows": [[u"1", u"2"]]},
    {"head": [u"h"], "rows": []},
    {"head": [u"x", u"", u"z z"], "rows": [[u"", u"b|c", u"|"], [u"\\", u"a\\|b", u""]]},
    {"head": [u"only"], "rows": [[u"r1"], [u"r2"], [u"r3"]]},
)


def _doc_lines(j, q):
    other = "'''" if q == '"""' else '"""'
    pool = (
        [u"text %d" % j],
        [],
        [u"first", u"", u"  indented more", u"# not a comment", u"@not_a_tag", u"| not | a | row |",
         u"Scenario: not a scenario", u"Given not a step", other, u"\\ a \\| b"],
        [u"", u"x", u""],
    )
    return list(pool[j % len(pool)])


def _name(prefix, i, simple=False):
    if simple:
        return u"%s%d" % (prefix, i)
    p = _NAME_PATS[i % len(_NAME_PATS)]
    return (p % (prefix, i)) if u"%" in p else p


def _tags(i, simple=False):
    pats = _TAG_PATS[0] if simple else _TAG_PATS[i % len(_TAG_PATS)]
    return [(p % i) if u"%" in p else p for p in pats]


def _desc(i, simple=False):
    pats = _DESC_PATS[0] if simple else _DESC_PATS[i % len(_DESC_PATS)]
    return [(p % i) if u"%" in p else p for p in pats]


_TOK_HEAD = re.compile(r"^([FR])(@?)(d?)$")
_TOK_BG = re.compile(r"^B:(d?)((?:[gwtabs][qpT]?)*)$")
_TOK_SC = re.compile(r"^([SO])(@?):(d?)((?:[gwtabs][qpT]?)*)$")
_TOK_EX = re.compile(r"^E(@?):(\d)$")
_STEP_RE = re.compile(r"([gwtabs])([qpT]?)")


class _Counter(object):
    def __init__(self):
        self.elem = 0
        self.step = 0


def build_steps(code, cnt, simple=False):
    steps = []
    for kwl, pay in _STEP_RE.findall(code):
        j = cnt.step
        cnt.step += 1
        pat = _STEP_PATS[0] if simple else _STEP_PATS[j % len(_STEP_PATS)]
        st = {"kw": KW_OF[kwl], "name": pat % j, "text": None, "table": None}
        if pay in QUOTES:
            st["text"] = {"q": QUOTES[pay], "lines": _doc_lines(0 if simple else j, QUOTES[pay])}
        elif pay == "T":
            t = _TABLES[0 if simple else j % len(_TABLES)]
            st["table"] = {"head": list(t["head"]), "rows": [list(r) for r in t["rows"]]}
        steps.append(st)
    return steps


def _examples(i, tagged, nrows, simple=False):
    head = [u"x"] if (i % 2 == 0 or simple) else [u"x", u"y z"]
    rows = []
    for r in range(nrows):
        row = [u"v%d%d" % (r, c) for c in range(len(head))]
        if not simple and (i + r) % 3 == 1:
            row[-1] = u"" if r % 2 == 0 else u"p|q"
        rows.append(row)
    return {"tags": _tags(i, simple) if tagged else [], "name": _name(u"E", i, simple),
            "head": head, "rows": rows}


def build_doc(script, simple=False):
    """script -> abstract feature tree (plain dicts); raises ValueError on a bad script."""
    toks = script.split()
    cnt = _Counter()
    m = _TOK_HEAD.match(toks[0]) if toks else None
    if not m or m.group(1) != "F":
        raise ValueError("script must start with F: %r" % script)
    feat = {"kind": "feature", "tags": _tags(0, simple) if m.group(2) else [],
            "name": _name(u"F", 0, simple), "desc": _desc(0, simple) if m.group(3) else [],
            "background": None, "items": []}
    cnt.elem = 1
    container = feat
    last = None
    for tok in toks[1:]:
        i = cnt.elem
        cnt.elem += 1
        m = _TOK_HEAD.match(tok)
        if m and m.group(1) == "R":
            rule = {"kind": "rule", "tags": _tags(i, simple) if m.group(2) else [],
                    "name": _name(u"R", i, simple), "desc": _desc(i, simple) if m.group(3) else [],
                    "background": None, "items": []}
            feat["items"].append(rule)
            container = rule
            last = rule
            continue
        m = _TOK_BG.match(tok)
        if m:
            if container["background"] is not None or container["items"]:
                raise ValueError("misplaced background in %r" % script)
            container["background"] = {"name": u"" if i % 2 else _name(u"B", i, simple),
                                       "desc": _desc(i, simple) if m.group(1) else [],
                                       "steps": build_steps(m.group(2), cnt, simple)}
            last = container["background"]
            continue
        m = _TOK_SC.match(tok)
        if m:
            el = {"kind": "scenario" if m.group(1) == "S" else "outline",
                  "tags": _tags(i, simple) if m.group(2) else [],
                  "name": _name(m.group(1), i, simple), "desc": _desc(i, simple) if m.group(3) else [],
                  "steps": build_steps(m.group(4), cnt, simple)}
            if el["kind"] == "outline":
                el["examples"] = []
            container["items"].append(el)
            last = el
            continue
        m = _TOK_EX.match(tok)
        if m:
            if not (isinstance(last, dict) and last.get("kind") == "outline"):
                raise ValueError("examples outside outline in %r" % script)
            last["examples"].append(_examples(i, bool(m.group(1)), int(m.group(2)), simple))
            continue
        raise ValueError("bad token %r in %r" % (tok, script))
    return feat


# =============================================================================
# 2. the writer (spec side): text + expected model with line numbers
# =============================================================================
_COMMENTS = (u"# comment", u"#no space", u"# Scenario: not a scenario", u"#@not_a_tag @x",
             u"# | not | a | row |", u"# \"\"\"", u"# Given not a step", u"#")
_INDENTS = (u"", u" ", u"  ", u"    ", u"\t", u"       ", u" \t ")


def escape_cell(value):
    """behave's documented table dialect: a pipe inside a cell is written as backslash-pipe."""
    return value.replace(u"|", u"\\|")


class Writer(object):
    """Writes Gherkin under a layout and records where every element starts.

    layout: "canon" | "dense" | "noisy:<seed>"
    kws   : {kind: [aliases]}  (behave.i18n.languages[lang]) ; choice: {kind: alias} overrides
    """

    def __init__(self, layout, lang="en", choice=None):
        self.layout = layout
        self.style = layout.split(":")[0]
        if self.style not in ("canon", "dense", "noisy"):
            raise ValueError("unknown layout %r" % layout)
        self.rng = random.Random(int(layout.split(":")[1])) if self.style == "noisy" else None
        self.lang = lang
        self.kws = i18n.languages[lang]
        self.choice = dict(choice or {})
        self.lines = []
        self.eol = u"\n"
        self.final_eol = self.style != "dense"
        if self.rng is not None:
            self.eol = self.rng.choice((u"\n", u"\n", u"\r\n"))
            self.final_eol = self.rng.random() < 0.7

    # -- physical lines ---------------------------------------------------------
    def raw(self, s):
        self.lines.append(s)
        return len(self.lines)

    def ind(self, depth):
        if self.style == "canon":
            return u"  " * depth
        if self.style == "dense":
            return u""
        return self.rng.choice(_INDENTS)

    def noise(self):
        """blank / comment lines that may stand between any two lines outside doc-strings"""
        if self.style == "canon":
            return
        if self.style == "dense":
            return
        while self.rng.random() < 0.3:
            if self.rng.random() < 0.5:
                self.raw(self.rng.choice((u"", u"", u"   ", u"\t")))
            else:
                self.raw(self.rng.choice(_INDENTS) + self.rng.choice(_COMMENTS))

    def trail(self):
        if self.style == "noisy" and self.rng.random() < 0.25:
            return self.rng.choice((u" ", u"   ", u"\t"))
        return u""

    def put(self, content, depth):
        self.noise()
        return self.raw(self.ind(depth) + content + self.trail())

    def block_gap(self):
        if self.style == "canon" and self.lines:
            self.raw(u"")

    # -- keywords -------------------------------------------------------------------
    def alias(self, kind):
        if kind in self.choice:
            return self.choice[kind]
        if kind == "star":
            return u"* "
        cands = list(self.kws[kind])
        if kind in STEP_KINDS:
            cands = [a for a in cands if a.strip() != u"*"]
        if self.style == "canon" or self.lang != "en":
            return cands[0]
        if self.style == "dense":
            return cands[-1]
        return self.rng.choice(cands)

    # -- elements ---------------------------------------------------------------------
    def tags(self, tags, depth):
        exp = []
        if not tags:
            return exp
        if self.style == "canon":
            groups, comments, sep = [list(tags)], [False], u" "
        elif self.style == "dense":
            groups, comments, sep = [[t] for t in tags], [True] * len(tags), u" "
        else:
            groups = [[]]
            for t in tags:
                if groups[-1] and self.rng.random() < 0.5:
                    groups.append([])
                groups[-1].append(t)
            comments = [self.rng.random() < 0.4 for _ in groups]
            sep = self.rng.choice((u" ", u"  ", u"\t"))
        for grp, com in zip(groups, comments):
            text = sep.join(u"@" + t for t in grp)
            if com:
                text += sep + u"# tag comment @not_a_tag"
            no = self.put(text, depth)
            exp.extend([t, no] for t in grp)
        return exp

    def kwline(self, kind, name, depth):
        alias = self.alias(kind)
        if self.style == "canon":
            sep = u" "
        elif self.style == "dense":
            sep = u""
        else:
            sep = self.rng.choice((u"", u" ", u"   ", u"\t"))
        no = self.put(alias + u":" + (sep + name if name else u""), depth)
        return alias, no

    def desc(self, lines, depth):
        for ln in lines:
            self.put(ln, depth)
        return [ln.strip() for ln in lines]

    def row(self, cells, depth):
        parts = []
        for c in cells:
            e = escape_cell(c)
            if self.style == "canon":
                lp, rp = u" ", u" "
            elif self.style == "dense":
                lp, rp = u"", u""
            else:
                lp = self.rng.choice((u"", u" ", u"   "))
                rp = self.rng.choice((u"", u" ", u"  \t"))
            if e.endswith(u"\\") and not rp:
                rp = u" "      # a cell ending in a backslash must not touch the delimiter
            parts.append(lp + e + rp)
        return self.put(u"|" + u"|".join(parts) + u"|", depth)

    def table(self, head, rows, depth):
        hno = self.row(head, depth)
        exp = {"line": hno, "head": list(head), "rows": []}
        for r in rows:
            rno = self.row(r, depth)
            exp["rows"].append({"line": rno, "cells": list(r)})
        return exp

    def docstring(self, doc, depth):
        q = doc["q"]
        self.noise()
        qind = self.ind(depth)
        qno = self.raw(qind + q + self.trail())
        out = []
        for content in doc["lines"]:
            if content == u"":
                self.raw(u"" if (self.style != "noisy" or self.rng.random() < 0.5) else qind)
                out.append(u"")
                continue
            extra = u""
            if self.style == "noisy":
                extra = self.rng.choice((u"", u"", u" ", u"   "))
            self.raw(qind + extra + content)
            out.append(extra + content)
        cind = qind if self.style != "noisy" else self.rng.choice(_INDENTS)
        self.raw(cind + q + self.trail())
        return {"value": u"\n".join(out), "line": qno}

    def steps(self, steps, depth):
        exp = []
        prev = None
        for st in steps:
            kind = st["kw"]
            alias = self.alias(kind)
            gap = u""
            if self.style == "noisy" and alias.endswith(u" "):
                gap = self.rng.choice((u"", u"", u"  "))
            no = self.put(alias + gap + st["name"], depth)
            if kind in ("given", "when", "then"):
                stype = kind
                prev = kind
            else:
                if prev is None:
                    raise ValueError("writer: %s step without predecessor" % kind)
                stype = prev
            e = {"keyword": alias.rstrip(), "type": stype, "name": st["name"].strip(), "line": no,
                 "text": None, "table": None}
            if st.get("text") is not None:
                e["text"] = self.docstring(st["text"], depth + 1)
            if st.get("table") is not None:
                e["table"] = self.table(st["table"]["head"], st["table"]["rows"], depth + 1)
            exp.append(e)
        return exp

    def background(self, bg, depth):
        self.block_gap()
        alias, no = self.kwline("background", bg["name"], depth)
        return {"keyword": alias, "name": bg["name"].strip(), "line": no,
                "desc": self.desc(bg["desc"], depth + 1), "steps": self.steps(bg["steps"], depth + 1)}

    def scenario(self, sc, depth):
        self.block_gap()
        tags = self.tags(sc["tags"], depth)
        kind = "scenario" if sc["kind"] == "scenario" else "scenario_outline"
        alias, no = self.kwline(kind, sc["name"], depth)
        e = {"kind": sc["kind"], "keyword": alias, "name": sc["name"].strip(), "line": no, "tags": tags,
             "desc": self.desc(sc["desc"], depth + 1), "steps": self.steps(sc["steps"], depth + 1)}
        if sc["kind"] == "outline":
            e["examples"] = []
            for ex in sc["examples"]:
                self.block_gap()
                xtags = self.tags(ex["tags"], depth + 1)
                xalias, xno = self.kwline("examples", ex["name"], depth + 1)
                e["examples"].append({"keyword": xalias, "name": ex["name"].strip(), "line": xno,
                                      "tags": xtags,
                                      "table": self.table(ex["head"], ex["rows"], depth + 2)})
        return e

    def items(self, items, depth):
        out = []
        for it in items:
            if it["kind"] == "rule":
                out.append(self.rule(it, depth))
            else:
                out.append(self.scenario(it, depth))
        return out

    def rule(self, ru, depth):
        self.block_gap()
        tags = self.tags(ru["tags"], depth)
        alias, no = self.kwline("rule", ru["name"], depth)
        e = {"kind": "rule", "keyword": alias, "name": ru["name"].strip(), "line": no, "tags": tags,
             "desc": self.desc(ru["desc"], depth + 1), "background": None}
        if ru.get("background") is not None:
            e["background"] = self.background(ru["background"], depth + 1)
        e["items"] = self.items(ru["items"], depth + 1)
        return e

    def feature(self, ft, header=False):
        if header:
            if self.style == "noisy":
                self.raw(self.rng.choice((u"# language: %s", u"#language: %s", u"  # language:%s  ",
                                          u"# Language: %s")) % self.lang)
            else:
                self.raw(u"# language: %s" % self.lang)
        tags = self.tags(ft["tags"], 0)
        alias, no = self.kwline("feature", ft["name"], 0)
        e = {"kind": "feature", "keyword": alias, "name": ft["name"].strip(), "line": no, "tags": tags,
             "language": self.lang, "desc": self.desc(ft["desc"], 1), "background": None}
        if ft.get("background") is not None:
            e["background"] = self.background(ft["background"], 1)
        e["items"] = self.items(ft["items"], 1)
        return e

    def text(self):
        if self.style == "noisy":
            self.noise()
        t = self.eol.join(self.lines)
        if self.final_eol:
            t += self.eol
        return t


def render(tree, layout, lang="en", choice=None, header=False):
    w = Writer(layout, lang, choice)
    exp = w.feature(tree, header=header)
    return w.text(), exp


# =============================================================================
# 3. observation of the real model + comparison
# =============================================================================
def obs_tags(tags):
    return [[u"%s" % t, getattr(t, "line", None)] for t in tags]


def obs_table(t):
    if t is None:
        return None
    return {"line": t.line, "head": list(t.headings),
            "rows": [{"line": r.line, "cells": list(r.cells)} for r in t.rows]}


def obs_step(s):
    return {"keyword": s.keyword, "type": s.step_type, "name": s.name, "line": s.line,
            "text": None if s.text is None else {"value": u"%s" % s.text, "line": getattr(s.text, "line", None)},
            "table": obs_table(s.table)}


def obs_background(bg, owner=None):
    if bg is None:
        return None
    if (owner is not None and isinstance(owner, model.Rule) and bg.line == owner.line
            and not bg.name and not bg.steps and not bg.description):
        return None     # inheritance placeholder (see module docstring)
    return {"keyword": bg.keyword, "name": bg.name, "line": bg.line, "desc": list(bg.description),
            "steps": [obs_step(s) for s in bg.steps]}


def obs_scenario(sc):
    e = {"kind": "outline" if isinstance(sc, model.ScenarioOutline) else "scenario",
         "keyword": sc.keyword, "name": sc.name, "line": sc.line, "tags": obs_tags(sc.tags),
         "desc": list(sc.description), "steps": [obs_step(s) for s in sc.steps]}
    if isinstance(sc, model.ScenarioOutline):
        e["examples"] = [{"keyword": x.keyword, "name": x.name, "line": x.line, "tags": obs_tags(x.tags),
                          "table": obs_table(x.table)} for x in sc.examples]
    return e


def obs_items(items):
    out = []
    for it in items:
        if isinstance(it, model.Rule):
            out.append(obs_rule(it))
        else:
            out.append(obs_scenario(it))
    return out


def obs_rule(ru):
    return {"kind": "rule", "keyword": ru.keyword, "name": ru.name, "line": ru.line,
            "tags": obs_tags(ru.tags), "desc": list(ru.description),
            "background": obs_background(ru.background, ru), "items": obs_items(ru.run_items)}


def obs_feature(ft):
    return {"kind": "feature", "keyword": ft.keyword, "name": ft.name, "line": ft.line,
            "tags": obs_tags(ft.tags), "language": ft.language, "desc": list(ft.description),
            "background": obs_background(ft.background, ft), "items": obs_items(ft.run_items)}


def link_problems(ft):
    """exactly the written elements, once, in the derived lists too; parent links."""
    probs = []

    def same(a, b):
        return len(a) == len(b) and all(x is y for x, y in zip(a, b))
    rules = [x for x in ft.run_items if isinstance(x, model.Rule)]
    if not same(rules, list(ft.rules)):
        probs.append("feature.rules != rules of run_items")
    for cont in [ft] + rules:
        scen = [x for x in cont.run_items if not isinstance(x, model.Rule)]
        if not same(scen, list(cont.scenarios)):
            probs.append("%s.scenarios != scenario items of run_items" % cont.keyword)
        for x in cont.run_items:
            if getattr(x, "parent", None) is not cont:
                probs.append("parent of %r is not its container" % x.name)
            if getattr(x, "feature", None) is not ft:
                probs.append("feature link of %r" % x.name)
            if isinstance(x, model.Rule) and cont is not ft:
                probs.append("rule nested in rule")
        bg = cont.background
        if bg is not None and getattr(bg, "parent", None) is not cont:
            probs.append("background.parent of %s" % cont.keyword)
    return probs


def diffs(obs, exp, path, out):
    """append every difference (as text) to out"""
    if isinstance(exp, dict) and isinstance(obs, dict):
        for k in sorted(set(exp) | set(obs)):
            if k not in obs or k not in exp:
                out.append("%s.%s: only in %s" % (path, k, "expected" if k in exp else "observed"))
            else:
                diffs(obs[k], exp[k], "%s.%s" % (path, k), out)
    elif isinstance(exp, list) and isinstance(obs, list):
        if len(obs) != len(exp):
            out.append("%s: %d elements observed, %d expected (observed %r / expected %r)" % (
                path, len(obs), len(exp), _short(obs), _short(exp)))
        else:
            for n, (o, e) in enumerate(zip(obs, exp)):
                diffs(o, e, "%s[%d]" % (path, n), out)
    elif (type(obs) != type(exp) and not (_isstr(obs) and _isstr(exp))) or obs != exp:
        out.append("%s: observed %r, expected %r" % (path, _short(obs), _short(exp)))


def diff(obs, exp, path=""):
    """the first differences as text (at most 4), or None"""
    out = []
    diffs(obs, exp, path, out)
    if not out:
        return None
    more = " (+%d more)" % (len(out) - 4) if len(out) > 4 else ""
    return "; ".join(out[:4]) + more


def _isstr(x):
    return isinstance(x, type(u""))


def _short(x):
    if isinstance(x, list) and len(x) > 6:
        return x[:6] + ["..."]
    if isinstance(x, dict):
        return dict((k, x[k]) for k in ("kind", "keyword", "name", "line") if k in x) or x
    return x


def _verdict(fn, exp, observe, links=False):
    """run the real parser; (ok, detail)"""
    try:
        got = fn()
    except Exception as e:      # noqa  -- well-formed input: any exception is a failure
        return False, "raised %s: %s" % (type(e).__name__, (u"%s" % e)[:300])
    if got is None:
        return False, "parser returned None"
    try:
        d = diff(observe(got), exp)
    except Exception as e:      # noqa
        return False, "model not observable: %s: %s" % (type(e).__name__, e)
    if d:
        return False, d
    if links:
        probs = link_problems(got)
        if probs:
            return False, "; ".join(probs[:3])
    return True, "ok"


# =============================================================================
# 4. enumeration of documents
# =============================================================================
STRUCT_BODIES = ("", "d", "g", "dga", "gq", "gT")


def _block_tokens(state, bodies):
    """tokens allowed after the current prefix (grammar of well-formed documents, caps:
    <= 2 rules, <= 2 scenarios/outlines per container, <= 2 examples per outline)"""
    can_bg, in_rule, n_scen, n_rules, last_outline, n_ex = state
    if can_bg:
        for b in bodies:
            yield "B:" + b, (False, in_rule, n_scen, n_rules, False, 0)
    if n_scen < 2 and (in_rule or n_rules == 0):
        for t in ("", "@"):
            for b in bodies:
                yield "S%s:%s" % (t, b), (False, in_rule, n_scen + 1, n_rules, False, 0)
                yield "O%s:%s" % (t, b), (False, in_rule, n_scen + 1, n_rules, True, 0)
    if last_outline and n_ex < 2:
        for t in ("", "@"):
            for n in (0, 1, 2):
                yield "E%s:%d" % (t, n), (False, in_rule, n_scen, n_rules, True, n_ex + 1)
    if n_rules < 2:
        for t in ("", "@"):
            for d in ("", "d"):
                yield "R%s%s" % (t, d), (True, True, 0, n_rules + 1, False, 0)


def gen_docs(kmax, bodies=STRUCT_BODIES, heads=("F", "F@", "Fd", "F@d")):
    """all well-formed scripts with at most kmax elements below the feature header"""
    def rec(prefix, state, k):
        yield prefix
        if k == 0:
            return
        for tok, st in _block_tokens(state, bodies):
            for x in rec(prefix + [tok], st, k - 1):
                yield x
    for h in heads:
        for toks in rec([h], (True, False, 0, 0, False, 0), kmax):
            yield " ".join(toks)


def random_body(rng, maxsteps=3):
    code = "d" if rng.random() < 0.3 else ""
    n = rng.randint(0, maxsteps)
    for k in range(n):
        kw = rng.choice("gwt") if k == 0 else rng.choice("gwtabs")
        code += kw + rng.choice(("", "", "q", "p", "T"))
    return code


def random_doc(rng, kmin=4, kmax=9):
    toks = [rng.choice(("F", "F@", "Fd", "F@d"))]
    state = (True, False, 0, 0, False, 0)
    k = rng.randint(kmin, kmax)
    for _ in range(k):
        opts = list(_block_tokens(state, ("X",)))
        if not opts:
            break
        # one option per token *shape*, then a fresh random body
        shapes = {}
        for tok, st in opts:
            shapes.setdefault(tok[0], []).append((tok, st))
        tok, state = rng.choice(shapes[rng.choice(sorted(shapes))])
        if tok.endswith(":X"):
            tok = tok[:-1] + random_body(rng)
        toks.append(tok)
    return " ".join(toks)


def all_bodies(maxsteps, payloads=("", "q", "p", "T")):
    """all step sequences of 1..maxsteps steps: first keyword in g/w/t, then any of the six"""
    for n in range(1, maxsteps + 1):
        for kws in itertools.product(*(["gwt"] + ["gwtabs"] * (n - 1))):
            for pays in itertools.product(payloads, repeat=n):
                yield "".join(k + p for k, p in zip(kws, pays))


# =============================================================================
# 5. check: feature trees
# =============================================================================
def eval_doc(case):
    tree = build_doc(case["doc"])
    text, exp = render(tree, case["layout"], header=bool(case.get("header")))
    ok, detail = _verdict(lambda: bparser.parse_feature(text, filename=u"f.feature"), exp, obs_feature,
                          links=True)
    if not ok:
        detail += " || text=%r" % text[:600]
    return case, ok, detail


def run_trees(tier, rng):
    kmax = 2 if tier == "quick" else 3
    for doc in gen_docs(kmax):
        for layout in ("canon", "dense", "noisy:%d" % rng.randrange(1000)):
            yield eval_doc({"doc": doc, "layout": layout})
    if tier == "quick":
        # the documents with exactly 3 elements: reduced alphabet, dense layout
        for doc in gen_docs(3, bodies=("d", "g", "gT"), heads=("F@d",)):
            if len(doc.split()) == 4:
                yield eval_doc({"doc": doc, "layout": "dense"})
    else:
        # the documents with exactly 4 elements: reduced alphabet, dense layout
        for doc in gen_docs(4, bodies=("", "g", "gT"), heads=("F",)):
            if len(doc.split()) == 5:
                yield eval_doc({"doc": doc, "layout": "dense"})
    n = 6000 if tier == "quick" else 100000
    for _ in range(n):
        case = {"doc": random_doc(rng), "layout": "noisy:%d" % rng.randrange(100000)}
        if rng.random() < 0.3:
            case["header"] = True       # '# language: en' first line (noisy spelling variants)
        yield eval_doc(case)


# =============================================================================
# 6. check: step bodies (keyword type inheritance, payload attachment)
# =============================================================================
BODY_CONTEXTS = {
    "scenario": "F S:%s S:g",
    "background": "Fd B:%s S:g",
    "rule-outline": "F R O@:%s E:1",
}


def eval_body(case):
    if case["ctx"] == "parse_steps":
        cnt = _Counter()
        steps = build_steps(case["body"], cnt)
        w = Writer(case["layout"])
        exp = w.steps(steps, 0)
        text = w.text()
        ok, detail = _verdict(lambda: bparser.parse_steps(text), exp, lambda got: [obs_step(s) for s in got])
    else:
        tree = build_doc(BODY_CONTEXTS[case["ctx"]] % case["body"])
        text, exp = render(tree, case["layout"])
        ok, detail = _verdict(lambda: bparser.parse_feature(text, filename=u"f.feature"), exp, obs_feature,
                              links=True)
    if not ok:
        detail += " || text=%r" % text[:600]
    return case, ok, detail


def run_bodies(tier, rng):
    if tier == "quick":
        plan = [(2, ("", "q", "p", "T"), ("scenario", "background", "rule-outline", "parse_steps"),
                 ("canon", "dense", "noisy")),
                (3, ("", "q", "T"), ("scenario", "parse_steps"), ("canon",))]
    else:
        plan = [(3, ("", "q", "p", "T"), ("scenario", "background", "rule-outline", "parse_steps"),
                 ("canon", "noisy"))]
    done = set()
    for maxsteps, pays, ctxs, layouts in plan:
        for body in all_bodies(maxsteps, pays):
            for ctx in ctxs:
                for lay in layouts:
                    if (body, ctx, lay) in done:
                        continue
                    done.add((body, ctx, lay))
                    layout = lay if lay != "noisy" else "noisy:%d" % rng.randrange(1000)
                    yield eval_body({"body": body, "ctx": ctx, "layout": layout})


# =============================================================================
# 7. check: languages and aliases
# =============================================================================
# one fixed document per keyword kind under test; every other keyword at its first alias
I18N_BLOCK_DOC = "F@d B:g S@:dg O:gT E@:2 R@d B:g S:g O@:g E:1 E@:0"     # all block kinds, Given steps only
I18N_STEP_DOCS = {
    "given": "F B:gT S@:dgqg O:g E:1",
    "when": "F B:wT S@:dwqw O:w E:1",
    "then": "F B:tT S@:dtqt O:t E:1",
    "and": "F B:ga S:gaqa O:waTa E:1",
    "but": "F B:gb S:gbqb O:wbTb E:1",
}
I18N_FULL_DOC = "F@d B:gT S@:dgqwtabs O:wsT E@:2 R@d B:t S:gab O@:tq E:1 E@:0"
I18N_STEPS = "gqwtTabs"


def _default_choice(lang):
    kws = i18n.languages[lang]
    ch = {}
    for k in BLOCK_KINDS:
        ch[k] = kws[k][0]
    for k in STEP_KINDS:
        ch[k] = [a for a in kws[k] if a.strip() != u"*"][0]
    return ch


def _has_star(lang):
    kws = i18n.languages[lang]
    return any(a.strip() == u"*" for k in STEP_KINDS for a in kws[k])


def eval_i18n(case, tmpdir=None):
    lang = case["lang"]
    choice = _default_choice(lang)
    if "kind" in case:
        choice[case["kind"]] = i18n.languages[lang][case["kind"]][case["alias"]]
        script = I18N_STEP_DOCS.get(case["kind"], I18N_BLOCK_DOC)
    else:
        script = I18N_FULL_DOC
    steps_script = I18N_STEPS
    if not _has_star(lang):
        # the language lists no '*' keyword (en-tx, sl): And stands in
        script = re.sub(r"(?<=[:a-zA-Z])s", "a", script.replace("S", "\0")).replace("\0", "S")
        steps_script = steps_script.replace("s", "a")
    via = case["via"]
    text = None
    if via == "steps":
        cnt = _Counter()
        w = Writer("canon", lang, choice)
        exp = w.steps(build_steps(steps_script, cnt, simple=True), 0)
        text = w.text()
        ok, detail = _verdict(lambda: bparser.parse_steps(text, language=lang), exp,
                              lambda got: [obs_step(s) for s in got])
    else:
        tree = build_doc(script, simple=True)
        text, exp = render(tree, case.get("layout", "canon"), lang, choice, header=(via in ("header", "file")))
        if via == "arg":
            ok, detail = _verdict(lambda: bparser.parse_feature(text, language=lang, filename=u"f.feature"),
                                  exp, obs_feature, links=True)
        elif via == "header":
            ok, detail = _verdict(lambda: bparser.parse_feature(text, filename=u"f.feature"),
                                  exp, obs_feature, links=True)
        elif via == "file":
            own = tmpdir is None
            d = tempfile.mkdtemp(dir="/var/tmp") if own else tmpdir
            try:
                path = os.path.join(d, "c04_%s.feature" % lang)
                with open(path, "wb") as f:
                    f.write(text.encode("utf8"))
                ok, detail = _verdict(lambda: bparser.parse_file(path), exp, obs_feature, links=True)
                detail = detail.replace(d, "<tmp>")
            finally:
                if own:
                    shutil.rmtree(d, ignore_errors=True)
        else:
            raise ValueError("via=%r" % via)
    if not ok:
        if "kind" in case:
            detail = "alias %r: %s" % (choice[case["kind"]], detail)
        detail += " || text=%r" % text[:400]
    return case, ok, detail


def run_i18n(tier, rng):
    langs = sorted(i18n.languages)
    tmpdir = tempfile.mkdtemp(dir="/var/tmp")
    try:
        for lang in langs:
            kws = i18n.languages[lang]
            for kind in BLOCK_KINDS + STEP_KINDS:
                for n, alias in enumerate(kws[kind]):
                    if alias.strip() == u"*":
                        continue        # '*' is written by the 's' steps of the full document
                    for via in ("arg", "header"):
                        yield eval_i18n({"lang": lang, "kind": kind, "alias": n, "via": via})
            for via in ("arg", "header", "file", "steps"):
                yield eval_i18n({"lang": lang, "via": via}, tmpdir)
            yield eval_i18n({"lang": lang, "via": "header", "layout": "noisy:%d" % (len(lang) + len(kws["feature"]))})
    finally:
        shutil.rmtree(tmpdir, ignore_errors=True)


# =============================================================================
# 8. check: the other entry points
# =============================================================================
def render_tag_text(lines, comments):
    out = []
    for grp, com in zip(lines, comments):
        s = u" ".join(u"@" + t for t in grp)
        if com:
            s += u"  # comment @not_a_tag"
        out.append(s)
    return u"\n".join(out)


def eval_entry(case):
    entry = case["entry"]
    text = None
    if entry == "parse_tags":
        text = render_tag_text(case["lines"], case["comments"])
        exp_names = [t for grp in case["lines"] for t in grp]
        exp_lines = [n + 1 for n, grp in enumerate(case["lines"]) for _ in grp]
        try:
            got = bparser.parse_tags(text)
        except Exception as e:      # noqa
            return case, False, "raised %s: %s || text=%r" % (type(e).__name__, e, text)
        names = [u"%s" % t for t in got]
        if names != exp_names:
            return case, False, "tags observed %r, expected %r || text=%r" % (names, exp_names, text)
        if case.get("aspect") == "lines":
            lines = [getattr(t, "line", None) for t in got]
            if lines != exp_lines:
                return case, False, "tag lines observed %r, expected %r || text=%r" % (lines, exp_lines, text)
        return case, True, "ok"
    w = Writer(case["layout"])
    if entry == "parse_scenario":
        tree = build_doc("F " + case["block"])
        exp = w.scenario(tree["items"][0], 0)
        text = w.text()
        ok, detail = _verdict(lambda: bparser.parse_scenario(text), exp, obs_scenario)
    elif entry == "parse_rule":
        tree = build_doc("F " + case["block"])
        exp = w.rule(tree["items"][0], 0)
        text = w.text()
        ok, detail = _verdict(lambda: bparser.parse_rule(text), exp,
                              lambda got: obs_rule(got) if isinstance(got, model.Rule)
                              else {"kind": type(got).__name__})
    else:
        raise ValueError("entry=%r" % entry)
    if not ok:
        detail += " || text=%r" % text[:400]
    return case, ok, detail


SCENARIO_BLOCKS = ("S:", "S@:", "S:d", "S:g", "S@:dg", "S:gqwTtab", "S@:dgpas", "S@:wT")
OUTLINE_BLOCKS = ("O:g E:1", "O@:dgT E@:2 E:0")
RULE_BLOCKS = ("R", "R@d B:g S@:dgq O:wT E@:1")


def run_entries(tier, rng):
    layouts = ["canon", "dense", "noisy:%d" % rng.randrange(1000)]
    for block in SCENARIO_BLOCKS:
        for lay in layouts:
            yield eval_entry({"entry": "parse_scenario", "block": block, "layout": lay})
    for block in OUTLINE_BLOCKS:
        yield eval_entry({"entry": "parse_scenario", "block": block, "layout": "canon"})
    for block in RULE_BLOCKS:
        yield eval_entry({"entry": "parse_rule", "block": block, "layout": "canon"})
    # parse_tags: every split of <= 3 tags into lines; a trailing comment only on the last
    # line (all variants) ...
    pool = [u"a", u"b.c-1", u"k:v=2"]
    for n in (1, 2, 3):
        tags = pool[:n]
        for cuts in itertools.product((0, 1), repeat=n - 1):
            lines = [[tags[0]]]
            for t, c in zip(tags[1:], cuts):
                if c:
                    lines.append([t])
                else:
                    lines[-1].append(t)
            for last_comment in (False, True):
                comments = [False] * (len(lines) - 1) + [last_comment]
                yield eval_entry({"entry": "parse_tags", "lines": lines, "comments": comments,
                                  "aspect": "names"})
    # ... plus designated cases: a comment on a line that is not the last; tag line numbers
    yield eval_entry({"entry": "parse_tags", "lines": [[u"a"], [u"b"]], "comments": [True, False],
                      "aspect": "names"})
    yield eval_entry({"entry": "parse_tags", "lines": [[u"a", u"b"], [u"c"]], "comments": [True, True],
                      "aspect": "names"})
    yield eval_entry({"entry": "parse_tags", "lines": [[u"a"], [u"b"]], "comments": [False, False],
                      "aspect": "lines"})


# =============================================================================
# 9. check: cell splitting  (spec: split_cells)
# =============================================================================
def split_cells(row):
    """spec: a row is '|' cell '|' cell ... '|'; inside, backslash-pipe is a literal pipe,
    every other pipe separates; cells are trimmed."""
    assert row[0] == u"|" and row[-1] == u"|"
    body = row[1:-1]
    cells, cur, i = [], [], 0
    while i < len(body):
        ch = body[i]
        if ch == u"\\" and i + 1 < len(body) and body[i + 1] == u"|":
            cur.append(u"|")
            i += 2
        elif ch == u"|":
            cells.append(u"".join(cur))
            cur = []
            i += 1
        else:
            cur.append(ch)
            i += 1
    cells.append(u"".join(cur))
    return [c.strip(u" \t") for c in cells]


def eval_cells(case):
    row = case["row"]
    exp = split_cells(row)
    where = case["as"]
    if where == "heading":
        text = u"Given a table\n  %s\n" % row
    else:
        text = u"Given a table\n  |%s\n  %s\n" % (u" h |" * len(exp), row)
    try:
        steps = bparser.parse_steps(text)
        t = steps[0].table
        got = list(t.headings) if where == "heading" else list(t.rows[0].cells)
        nrows = len(t.rows)
    except Exception as e:      # noqa
        return case, False, "raised %s: %s (expected cells %r)" % (type(e).__name__, e, exp)
    ok = got == exp and nrows == (0 if where == "heading" else 1)
    return case, ok, "cells observed %r, expected %r" % (got, exp)


def strings_over(alphabet, maxlen):
    for n in range(maxlen + 1):
        for tup in itertools.product(alphabet, repeat=n):
            yield u"".join(tup)


def run_cells(tier, rng):
    maxlen = 5 if tier == "quick" else 6
    for s in strings_over(u"a|\\ ", maxlen):
        if s.endswith(u"\\"):
            continue        # the closing delimiter would be escaped: not a well-formed row
        row = u"|" + s + u"|"
        yield eval_cells({"row": row, "as": "heading"})
        yield eval_cells({"row": row, "as": "row"})


# =============================================================================
# 10. check: doc-string de-indentation  (spec: dedent)
# =============================================================================
def dedent(raw, col):
    """spec: the text of a doc-string line is the line without its first `col` columns
    (which must be blank)."""
    assert raw[:col].strip(u" \t") == u""
    return raw[col:]


def eval_dedent(case):
    col, q, raws = case["col"], case["q"], case["lines"]
    strict = bool(case.get("strict_trailing_blanks"))
    exp = [dedent(r, col) for r in raws]
    text = u"Given a text\n%s%s\n%s\n%s%s\nWhen next\n" % (u" " * col, q, u"\n".join(raws), u" " * col, q) \
        if raws else u"Given a text\n%s%s\n%s%s\nWhen next\n" % (u" " * col, q, u" " * col, q)
    try:
        steps = bparser.parse_steps(text)
        got_text = steps[0].text
        got = (u"%s" % got_text).split(u"\n") if raws else ([] if got_text == u"" else [u"%s" % got_text])
        extra = (len(steps), steps[0].text.line, steps[1].line if len(steps) > 1 else None)
    except Exception as e:      # noqa
        return case, False, "raised %s: %s (expected lines %r)" % (type(e).__name__, e, exp)
    want_extra = (2, 2, 3 + len(raws) + 1)
    if strict:
        ok = got == exp
    else:
        ok = [g.rstrip(u" \t") for g in got] == [e.rstrip(u" \t") for e in exp]
    ok = ok and extra == want_extra
    return case, ok, "lines observed %r, expected %r; (steps, text line, next step line) observed %r expected %r" % (
        got, exp, extra, want_extra)


def run_dedent(tier, rng):
    maxlen = 4 if tier == "quick" else 5
    for q in ('"""', "'''"):
        for col in (0, 1, 2, 3):
            for s in strings_over(u"a|\\ ", maxlen):
                raw = u" " * col + s
                if q == "'''" and len(s) > 3 and tier == "quick":
                    continue
                yield eval_dedent({"col": col, "q": q, "lines": [raw]})
    # lines shorter than the column (blank lines inside an indented doc-string), two-line texts
    for col in (0, 2):
        seen = set()
        for a in strings_over(u"a ", 2):
            for b in strings_over(u"a ", 2):
                ra = u" " * col + a if a.strip() else a[:col]
                rb = u" " * col + b if b.strip() else b[:col]
                if (ra, rb) in seen:
                    continue
                seen.add((ra, rb))
                yield eval_dedent({"col": col, "q": '"""', "lines": [ra, rb]})
        yield eval_dedent({"col": col, "q": '"""', "lines": []})
    # designated strict case: trailing blanks of a doc-string line are part of the text
    # (triage 2026-09-27) the strict trailing-blank case was removed: the property only speaks of
    # de-indentation by the column of the opening quotes; trailing blanks of doc-string lines are not stated.


# =============================================================================
# 11. check: renderers  (describe_table, describe_docstring, textutil.indent)
# =============================================================================
def spec_indent_text(text, prefix):
    parts = text.split(u"\n")
    lines = [p + u"\n" for p in parts[:-1]]
    if parts[-1] != u"":
        lines.append(parts[-1])
    return u"".join(prefix + ln for ln in lines)


def spec_indent_lines(lines, prefix):
    if lines and not lines[0].endswith(u"\n"):
        return u"\n".join(prefix + ln for ln in lines)
    return u"".join(prefix + ln for ln in lines)


def spec_escape(cell):
    out = []
    for ch in cell:
        out.append({u"\\": u"\\\\", u"\n": u"\\n", u"|": u"\\|"}.get(ch, ch))
    return u"".join(out)


def spec_describe_table(head, rows, prefix):
    grid = [[spec_escape(c) for c in r] for r in [head] + rows]
    widths = [max(len(r[c]) for r in grid) for c in range(len(head))]
    out = []
    for r in grid:
        out.append((prefix or u"") + u"|" + u"".join(u" " + c + u" " * (w - len(c)) + u" |"
                                                      for c, w in zip(r, widths)) + u"\n")
    return u"".join(out)


def spec_describe_docstring(text, prefix):
    body = text.replace(u'"""', u'\\"\\"\\"')
    lines = [u'"""'] + body.split(u"\n") + [u'"""']
    return u"".join((prefix or u"") + ln + u"\n" for ln in lines)


def eval_describe(case):
    fn = case["fn"]
    try:
        if fn == "indent-text":
            got = behave_indent(case["text"], case["prefix"])
            exp = spec_indent_text(case["text"], case["prefix"])
        elif fn == "indent-lines":
            got = behave_indent(list(case["lines"]), case["prefix"])
            exp = spec_indent_lines(case["lines"], case["prefix"])
        elif fn == "describe_table":
            t = model.Table(list(case["head"]), line=1)
            for r in case["rows"]:
                t.add_row(list(r))
            got = ModelDescriptor.describe_table(t, case["prefix"])
            exp = spec_describe_table(case["head"], case["rows"], case["prefix"])
        elif fn == "describe_docstring":
            got = ModelDescriptor.describe_docstring(case["text"], case["prefix"])
            exp = spec_describe_docstring(case["text"], case["prefix"])
        elif fn == "roundtrip-table":
            t = model.Table(list(case["head"]), line=1)
            for r in case["rows"]:
                t.add_row(list(r))
            text = u"Given a table\n" + ModelDescriptor.describe_table(t, u"  ")
            t2 = bparser.parse_steps(text)[0].table
            got = [list(t2.headings)] + [list(r.cells) for r in t2.rows]
            exp = [list(case["head"])] + [list(r) for r in case["rows"]]
        elif fn == "roundtrip-docstring":
            text = u"Given a text\n" + ModelDescriptor.describe_docstring(case["text"], u"  ")
            got = u"%s" % bparser.parse_steps(text)[0].text
            exp = case["text"]
        else:
            raise ValueError(fn)
    except Exception as e:      # noqa
        return case, False, "raised %s: %s" % (type(e).__name__, e)
    return case, got == exp, "observed %r, expected %r" % (got, exp)


def run_describe(tier, rng):
    for prefix in (u"", u"  ", u"\t# "):
        for text in strings_over(u"a \n", 4):
            yield eval_describe({"fn": "indent-text", "text": text, "prefix": prefix})
        for n in (0, 1, 2, 3):
            for tup in itertools.product((u"a", u"", u" b"), repeat=n):
                yield eval_describe({"fn": "indent-lines", "lines": list(tup), "prefix": prefix})
                if n:
                    yield eval_describe({"fn": "indent-lines", "lines": [x + u"\n" for x in tup],
                                         "prefix": prefix})
    cells = (u"", u"a", u"bb", u"a|b", u"\\", u"x\ny")
    for prefix in (None, u"    "):
        for ncols, nrows in ((1, 0), (1, 1), (1, 2), (2, 0), (2, 1)):
            for flat in itertools.product(cells, repeat=ncols * (nrows + 1)):
                grid = [list(flat[k * ncols:(k + 1) * ncols]) for k in range(nrows + 1)]
                yield eval_describe({"fn": "describe_table", "head": grid[0], "rows": grid[1:], "prefix": prefix})
        for text in list(strings_over(u"a \n", 3)) + [u'"""', u'a """ b\n""" c', u"'''", u'""']:
            yield eval_describe({"fn": "describe_docstring", "text": text, "prefix": prefix})
    # what the renderer writes, the parser reads back (cells / lines without outer blanks):
    # every cell of length <= 3 over {a, |}, plus three designated cells with backslash / newline
    # (triage 2026-09-27) cells with backslash/newline and doc-strings containing the delimiter were removed
    # from the round trip: the property is about parsing what is written in a file, not about the
    # formatter-side renderer escaping (ModelDescriptor writes escapes behave's parser never reads).
    for c in list(strings_over(u"a|", 3)):
        yield eval_describe({"fn": "roundtrip-table", "head": [u"h"], "rows": [[c]]})
    yield eval_describe({"fn": "roundtrip-table", "head": [u"x", u"y|z"], "rows": [[u"", u"1"], [u"a b", u""]]})
    for text in (u"", u"a", u"a\nb", u"a\n\n  b", u"  a\nb", u"# x\n@y\n| z |", u"'''"):
        yield eval_describe({"fn": "roundtrip-docstring", "text": text})


# =============================================================================
# replay + registration
# =============================================================================
def _replay(fn):
    def rep(case):
        return fn(case)
    return rep


CHECKS = [
    BoundedCheck(
        "feature-trees",
        bound={
            "quick": "exhaustive: every well-formed document with <= 2 elements below the Feature line "
                     "(Background, Rule, Scenario, Outline, Examples each count 1; 4 header variants tags/"
                     "description on-off; element variants: tags on/off, Rule description on/off, 6 bodies "
                     "{empty, description only, 1 step, description+Given+And, step+doc-string, step+table}, "
                     "Examples with 0/1/2 rows) x 3 layouts (canonical, dense: column 0/no blank lines/one tag "
                     "per line with trailing comments/unpadded cells/alternative English aliases, noisy: one "
                     "random seed per document); plus all documents with exactly 3 elements over the bodies "
                     "{description only, 1 step, step+table} with header F@d, dense layout; plus 6000 random "
                     "documents of 4..9 elements (<= 2 rules, <= 2 scenarios per container, <= 2 examples, random "
                     "bodies of <= 3 steps with any keyword/payload, 30% with a '# language: en' header line) each "
                     "in one random noisy layout (sampled, not exhaustive)",
            "thorough": "exhaustive: every well-formed document with <= 3 elements below the Feature line (same "
                        "element alphabet as quick) x 3 layouts (canonical, dense, one random noisy seed per "
                        "document); plus all documents with exactly 4 elements over the bodies {empty, 1 step, "
                        "step+table} with header F, dense layout; plus 100000 random documents of 4..9 elements in "
                        "one random noisy layout each (sampled)"},
        run=run_trees, replay=_replay(eval_doc),
        contract="forall script d, layout L: (text, exp) = Writer(L).feature(build_doc(d)) ==> "
                 "observe(parse_feature(text)) == exp  -- same elements in file order, each with keyword, name, "
                 "1-based start line (from the writer), tags with their lines, description lines, steps (keyword, "
                 "type with And/But/* inheriting, name, line), doc-string (text de-indented by the column of the "
                 "opening quotes, line), tables (heading/cells, line per row); feature.language; rules/scenarios "
                 "lists and parent links consistent with run_items"),
    BoundedCheck(
        "step-bodies",
        bound={
            "quick": "exhaustive: all step sequences of 1..2 steps (first keyword Given/When/Then, further ones "
                     "any of Given/When/Then/And/But/*; payload none/doc-string \"\"\"/doc-string '''/table) in 4 "
                     "contexts (scenario followed by a scenario, feature background, tagged outline in a rule "
                     "followed by Examples, parse_steps) x 3 layouts; all sequences of 3 steps with payload "
                     "none/\"\"\"/table in contexts scenario and parse_steps, canonical layout",
            "thorough": "exhaustive: all step sequences of 1..3 steps (6 keywords, 4 payloads) in the 4 contexts "
                        "x 2 layouts (canonical, one random noisy seed per case)"},
        run=run_bodies, replay=_replay(eval_body),
        contract="as feature-trees, for the step list: step_type == type of the nearest preceding Given/When/Then "
                 "for And/But/*; doc-string / table attached to the step they follow; parse_steps(text) returns "
                 "exactly the written steps with line numbers relative to text"),
    BoundedCheck(
        "i18n-aliases",
        bound={
            "quick": "exhaustive: all 80 languages of behave.i18n.languages x every alias of every keyword "
                     "(feature, rule, background, scenario, scenario_outline, examples: document %s; given, when, "
                     "then, and, but: one fixed document per kind, e.g. and: %s), canonical layout, all other "
                     "keywords at their first alias; each via parse_feature(text, language=xx) and via "
                     "parse_feature of the text with a '# language: xx' first line; per language also the full "
                     "document %s (all kinds incl. '*', first aliases) via language=, via header, via parse_file "
                     "on a UTF-8 file with the header, and parse_steps(text, language=xx) on the step list %s "
                     "('*' replaced by And in the two languages that list no '*': en-tx, sl); per language the full "
                     "document once more in one noisy layout via the header"
                     % (I18N_BLOCK_DOC, I18N_STEP_DOCS["and"], I18N_FULL_DOC, I18N_STEPS),
            "thorough": "same as quick (the space is finite and enumerated completely)"},
        run=run_i18n, replay=_replay(eval_i18n),
        contract="forall language, keyword kind, alias: the document written with that alias parses to the expected "
                 "model (element.keyword == alias as written, step.keyword == alias without trailing blank, "
                 "step_type == the type the alias is listed under, And/But/* inherited; feature.language == xx)"),
    BoundedCheck(
        "entry-points",
        bound={
            "quick": "parse_scenario: 8 scenario blocks (tags/description/steps on-off, doc-strings, tables) x 3 "
                     "layouts + 2 outline blocks; parse_rule: 2 rule blocks (bare; tagged+description with "
                     "background+scenario+outline); parse_tags: every split of 1..3 tags into lines "
                     "with and without a trailing comment on the last line (names), + 2 designated texts with a "
                     "comment on a non-last line, + 1 designated case for the tags' line numbers",
            "thorough": "same as quick"},
        run=run_entries, replay=_replay(eval_entry),
        contract="parse_scenario(text) / parse_rule(text) return the model of the written block (lines relative to "
                 "text); parse_tags(text) returns the written tags of all lines in order, comments dropped"),
    BoundedCheck(
        "table-cells",
        bound={
            "quick": "exhaustive: rows '|'+s+'|' for every s of length <= 5 over {a, |, backslash, space} not "
                     "ending in a backslash (1024 of 1365), as heading row and as data row",
            "thorough": "exhaustive: the same for length <= 6 (4096 of 5461 strings)"},
        run=run_cells, replay=_replay(eval_cells),
        contract="cells(parse(row)) == split_cells(row): split at every pipe not preceded by a backslash, "
                 "backslash-pipe -> pipe, cells trimmed; empty cells kept"),
    BoundedCheck(
        "docstring-dedent",
        bound={
            "quick": "exhaustive: one-line doc-strings, opening quotes at column 0..3, line = column blanks + s "
                     "for every s of length <= 4 over {a, |, backslash, space} (quotes \"\"\"; ''' for length <= 3); "
                     "two-line texts over {a, space} (<= 2 chars each, blank lines shorter than the column) and the "
                     "empty doc-string at columns 0 and 2; lines compared modulo trailing blanks, + 1 designated "
                     "strict case with trailing blanks",
            "thorough": "the same with s of length <= 5 for both quote styles"},
        run=run_dedent, replay=_replay(eval_dedent),
        contract="step.text.split('\\n')[k] == raw_line[k][col:] where col = column of the opening quotes; "
                 "text.line == line of the opening quotes; the step after the closing quotes is parsed as a step"),
    BoundedCheck(
        "describe",
        bound={
            "quick": "textutil.indent: all texts of length <= 4 over {a, space, newline} and all lists of <= 3 "
                     "lines from {a, '', ' b'} with/without newlines x 3 prefixes; describe_table: all tables with "
                     "(cols, rows) in {(1,0),(1,1),(1,2),(2,0),(2,1)} over 6 cell values (empty, a, bb, a|b, "
                     "backslash, x<newline>y) x indentation none/4 blanks; describe_docstring: all texts of length "
                     "<= 3 over {a, space, newline} + 4 texts with quotes; render->parse round trip: 1-cell tables "
                     "for every cell of length <= 3 over {a, |} + 3 designated cells (backslash, a-backslash-b, "
                     "x<newline>y), one 2x2 table, 8 doc-string texts",
            "thorough": "same as quick"},
        run=run_describe, replay=_replay(eval_describe),
        contract="indent(text, p) prefixes every line; describe_table == aligned Gherkin rows with backslash, "
                 "newline, pipe escaped; describe_docstring == text between \"\"\" lines with inner \"\"\" escaped; "
                 "parse(describe_x(v)) == v"),
]
