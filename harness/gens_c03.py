# -*- coding: utf-8 -*-
import itertools
from harness.rtcheck import gen, Case
from behave.model_core import Status, ScenarioStatus, OuterStatus, TagAndStatusStatement
from behave import model

ALL = list(Status)
DOC = [Status.untested, Status.untested_pending, Status.untested_undefined, Status.skipped,
       Status.passed, Status.failed, Status.error, Status.hook_error, Status.pending,
       Status.pending_warn, Status.undefined]
COMMON = [Status.untested, Status.skipped, Status.passed, Status.failed, Status.error,
          Status.hook_error]


def _enum_pred(name):
    fid = "behave.model_core:Status." + name

    @gen(fid)
    def g(tier, rng):
        for s in ALL:
            yield Case({"self": s.name}, {"self": s}, lambda s=s: getattr(s, name)())
    g.bound = {"quick": "all 16 members of Status (complete)", "thorough": "all 16 members (complete)"}
    g.rebuild = lambda d: Case(d, {"self": Status[d["self"]]}, lambda: getattr(Status[d["self"]], name)())


for _n in ("is_error", "is_failure", "is_untested", "is_pending", "is_undefined", "has_failed",
           "is_passed", "is_final"):
    _enum_pred(_n)


@gen("behave.model_core:ScenarioStatus.from_step_status")
def g_from_step(tier, rng):
    for s in ALL:
        for dry in (False, True):
            yield Case({"step_status": s.name, "dry_run": dry}, {"step_status": s, "dry_run": dry},
                       lambda s=s, dry=dry: ScenarioStatus.from_step_status(s, dry))
g_from_step.bound = {"quick": "16 members x dry_run (complete)", "thorough": "same"}
g_from_step.rebuild = lambda d: Case(d, {"step_status": Status[d["step_status"]], "dry_run": d["dry_run"]},
                                     lambda: ScenarioStatus.from_step_status(Status[d["step_status"]], d["dry_run"]))


@gen("behave.model_core:OuterStatus.from_inner_status")
def g_from_inner(tier, rng):
    for s in ALL:
        yield Case({"status": s.name}, {"status": s}, lambda s=s: OuterStatus.from_inner_status(s))
g_from_inner.bound = {"quick": "16 members (complete)", "thorough": "same"}
g_from_inner.rebuild = lambda d: Case(d, {"status": Status[d["status"]]},
                                      lambda: OuterStatus.from_inner_status(Status[d["status"]]))


# -- real model objects with given child statuses --------------------------------
def mk_step(status):
    st = model.Step(u"f.feature", 1, u"Given", u"given", u"a step")
    st.status = status
    return st


def mk_scenario(step_statuses, hook_failed=False, cached=None):
    sc = model.Scenario(u"f.feature", 2, u"Scenario", u"S", steps=[mk_step(s) for s in step_statuses])
    sc.hook_failed = hook_failed
    if cached is not None:
        sc._cached_status = cached
    return sc


def mk_child(status):
    """A real Scenario whose .status getter yields `status` (final statuses via the
    cache the run methods use; untested via a fresh scenario without steps run)."""
    sc = model.Scenario(u"f.feature", 2, u"Scenario", u"S", steps=[mk_step(Status.untested)])
    if status is not Status.untested:
        sc.set_status(status)
    assert sc.status == status
    return sc


def seqs(alphabet, maxlen):
    for n in range(0, maxlen + 1):
        for t in itertools.product(alphabet, repeat=n):
            yield t


def _scenario_case(d):
    def build():
        return mk_scenario([Status[s] for s in d["steps"]], d["hook_failed"])
    sc = build()
    return Case(d, {"self": sc}, lambda: sc.compute_status(), nontrivial=len(d["steps"]) > 0)


@gen("behave.model:Scenario.compute_status")
def g_scn(tier, rng):
    n = 3 if tier == "quick" else 4
    for t in seqs(DOC, n):
        for hf in (False, True):
            if hf and len(t) > 1:
                continue
            yield _scenario_case({"steps": [s.name for s in t], "hook_failed": hf})
    if tier != "quick":
        for _ in range(20000):
            k = rng.randint(5, 9)
            yield _scenario_case({"steps": [rng.choice(DOC).name for _ in range(k)], "hook_failed": False})
g_scn.bound = {"quick": "all step-status tuples over the 11 documented statuses, length <= 3 (1464 tuples) x hook_failed",
               "thorough": "length <= 4 (16105 tuples) + 20000 random tuples of length 5..9"}
g_scn.rebuild = _scenario_case


def _container_case(d):
    cls = {"Feature": model.Feature, "Rule": model.Rule}[d.get("cls", "Feature")]
    f = cls(u"f.feature", 1, d.get("cls", "Feature"), u"F")
    for s in d["children"]:
        f.add_scenario(mk_child(Status[s]))
    f.hook_failed = d["hook_failed"]
    return Case(d, {"self": f}, lambda: f.compute_status(), nontrivial=len(d["children"]) > 0)


@gen("behave.model:ScenarioContainer.compute_status")
def g_cont(tier, rng):
    n = 4 if tier == "quick" else 6
    for t in seqs(COMMON, n):
        for hf in (False, True):
            if hf and len(t) > 1:
                continue
            yield _container_case({"children": [s.name for s in t], "hook_failed": hf, "cls": "Feature"})
    for t in seqs(COMMON, 2):
        yield _container_case({"children": [s.name for s in t], "hook_failed": False, "cls": "Rule"})
g_cont.bound = {"quick": "all child-status tuples over the 6 common statuses, length <= 4 (1555) x hook_failed; Feature and Rule",
                "thorough": "length <= 6 (55987)"}
g_cont.rebuild = _container_case


def _outline_case(d):
    so = model.ScenarioOutline(u"f.feature", 1, u"Scenario Outline", u"SO")
    so._scenarios = [mk_child(Status[s]) for s in d["children"]]
    return Case(d, {"self": so}, lambda: so.compute_status(), nontrivial=len(d["children"]) > 0)


@gen("behave.model:ScenarioOutline.compute_status")
def g_outline(tier, rng):
    n = 4 if tier == "quick" else 6
    for t in seqs(COMMON, n):
        yield _outline_case({"children": [s.name for s in t]})
g_outline.bound = {"quick": "all row-status tuples over the 6 common statuses, length <= 4 (1555)",
                   "thorough": "length <= 6 (55987)"}
g_outline.rebuild = _outline_case


def _getter_case(d):
    sc = mk_scenario([Status[s] for s in d["steps"]], cached=Status[d["cached"]])
    return Case(d, {"self": sc}, lambda: sc.status)


@gen("behave.model_core:TagAndStatusStatement.status")
def g_getter(tier, rng):
    for cached in ALL:
        for t in seqs([Status.untested, Status.passed, Status.failed, Status.skipped], 2):
            yield _getter_case({"cached": cached.name, "steps": [s.name for s in t]})
g_getter.bound = {"quick": "16 cached values x step tuples of length <= 2 over 4 statuses", "thorough": "same"}
g_getter.rebuild = _getter_case
