# -*- coding: utf-8 -*-
"""
harness.b_c15 -- bounded stand-ins (kind B) for C15:
"Formatter event protocol well formed; JSON/plain/progress reports mirror the model".

Every case is one *real run* (ModelRunner, real parser, real built-in formatters made by
``behave.formatter._registry.make_formatters(config, config.outputs)`` writing into a
scratch directory, plus runlib's RecordingFormatter appended last).  The oracle is an
independent *plan* computed from the abstract feature tree and the options (which
containers/scenarios are shown, which steps are announced, which steps are processed),
together with the model after the run for the final statuses (the property says the
reports mirror the model after the run).

Case format (canonical, self-contained)::

    {"trees":   [<compact feature spec>, ...],      # see expand()
     "formats": ["json", "plain", ...],             # -f list, in this order
     "args":    ["--dry-run", "--no-skipped", ...], # extra options
     "stdout_last": false}                          # true: last -f has no -o (-> stdout)

Fixed part of every command line: ``--no-color --no-summary --tags "not @skip"``
(a scenario is tag-deselected iff ``skip`` is among its effective tags).

Compact feature spec::

    {"n": name, "t": [tags], "bg": [tok, ...] | null, "items": [item, ...]}
    item = {"s": name, "t": [tags], "steps": [tok, ...]}                         scenario
         | {"o": name, "t": [tags], "steps": [tok, ...],
            "ex": [{"n": name, "t": [tags], "h": [headings], "rows": [[..], ..]}]} outline
         | {"r": name, "t": [tags], "bg": [tok, ...] | null, "items": [item, ...]} rule
    tok  = "<outcome>[/<mods>]"; outcome in pass fail error pending undefined skip or
           "<col>" (outline placeholder, needs a column "n" for the id);
           mods: t=table  d=multi-line doc-string  s=one-line doc-string
                 u=unicode step id  n=numeric step id (typed argument {sid:d})

Step ids are assigned by a counter over the whole case, keywords cycle
Given/When/Then/And/But inside a scenario and Given/And inside a background.
"""
from __future__ import print_function
import contextlib
import copy
import io
import itertools
import json
import os
import re
import shutil
import tempfile
import traceback

from harness.bounded import BoundedCheck
from harness import runlib as R

from behave.configuration import Configuration
from behave.formatter._registry import make_formatters
from behave.matchers import ParseMatcher
from behave.parser import parse_feature
from behave.runner import ModelRunner

FIXED_ARGS = ["--no-color", "--no-summary", "--tags", "not @skip"]
BUILTIN_WITH_ORACLE = ("json", "plain", "progress2", "progress3")

# -- spec tables written from the documentation, not imported from behave -----------
DOT = {"passed": ".", "failed": "F", "error": "E", "hook_error": "H", "skipped": "S",
       "untested": "_", "undefined": "U", "pending": "P", "pending_warn": "p",
       "untested_pending": "p", "untested_undefined": "u"}
OUTCOME_STATUS = {"pass": "passed", "fail": "failed", "error": "error", "pending": "pending",
                  "undefined": "undefined", "skip": "skipped"}
TABLE = [["h1", u"hü"], ["a", "b"], ["1", u"€ x"]]
DOC_MULTI = u"first line\n\nthird lïne"
DOC_SINGLE = u"one line téxt"
SC_KWS = ("Given", "When", "Then", "And", "But")
SC_TYPES = ("given", "when", "then", "then", "then")


# =====================================================================================
# compact spec -> runlib tree
# =====================================================================================
def _tok(tok, i, counter, in_bg, placeholder_ok):
    outcome, _, mods = tok.partition("/")
    n = next(counter)
    if outcome.startswith("<"):
        assert placeholder_ok, "placeholder outside outline: %r" % tok
        sid = "o%d_<n>" % n
    elif "n" in mods:
        sid = str(1000 + n)
    elif "u" in mods:
        sid = u"ü%d" % n
    else:
        sid = "s%d" % n
    if in_bg:
        kw, st = ("Given", "given") if i == 0 else ("And", "given")
    else:
        kw, st = SC_KWS[i % 5], SC_TYPES[i % 5]
    text = None
    if "d" in mods:
        text = DOC_MULTI
    elif "s" in mods:
        text = DOC_SINGLE
    s = R.step(sid, outcome, kw=kw, table=TABLE if "t" in mods else None, text=text)
    s["step_type"] = st
    return s


def _steps(toks, counter, in_bg=False, placeholder_ok=False):
    return [_tok(t, i, counter, in_bg, placeholder_ok) for i, t in enumerate(toks)]


def _items(items, counter):
    out = []
    for it in items:
        if "s" in it:
            out.append(R.scenario(it["s"], _steps(it["steps"], counter), tags=it.get("t", [])))
        elif "o" in it:
            ex = [{"name": e.get("n", ""), "tags": list(e.get("t", [])), "headings": list(e["h"]),
                   "rows": [list(r) for r in e["rows"]]} for e in it["ex"]]
            out.append(R.outline(it["o"], _steps(it["steps"], counter, placeholder_ok=True), ex,
                                 tags=it.get("t", [])))
        else:
            bg = it.get("bg")
            out.append(R.rule(it["r"], _items(it["items"], counter), tags=it.get("t", []),
                              background=None if bg is None else _steps(bg, counter, in_bg=True)))
    return out


def expand(specs):
    counter = itertools.count(1)
    trees = []
    for k, sp in enumerate(specs):
        bg = sp.get("bg")
        bgs = None if bg is None else _steps(bg, counter, in_bg=True)
        trees.append(R.feature(sp["n"], _items(sp["items"], counter), tags=sp.get("t", []),
                               background=bgs, filename="f%d.feature" % (k + 1)))
    return trees


# =====================================================================================
# the plan: what the property says must be shown / announced / processed
# =====================================================================================
def _subst(s, headings, row):
    for h, v in zip(headings, row):
        s = s.replace("<%s>" % h, v)
    return s


def _sinfo(st, headings=(), row=()):
    outcome = _subst(st["outcome"], headings, row)
    sid = _subst(st["id"], headings, row)
    name = R.step_text({"id": sid, "outcome": outcome})
    table = st.get("table")
    args = None
    if outcome != "undefined":
        a0 = {"value": sid, "name": "sid"}
        if sid.isdigit():
            a0 = {"value": int(sid), "name": "sid", "original": sid}
        args = [a0, {"value": outcome, "name": "outcome"}]
    return {"kw": st["kw"], "step_type": st["step_type"], "name": name, "outcome": outcome,
            "table": table, "text": st.get("text"), "args": args}


def _mk_scenario(name, tags, inherited_tags, steps, show_skipped, dry_run, in_rule, kind):
    selected = "skip" not in (set(tags) | inherited_tags)
    n_proc = 0
    if selected:
        if dry_run:
            n_proc = len(steps)
        else:
            for s in steps:
                n_proc += 1
                if s["outcome"] != "pass":
                    break
    return {"k": "scenario", "name": name, "kind": kind, "selected": selected,
            "shown": selected or show_skipped, "steps": steps, "n_proc": n_proc,
            "in_rule": in_rule, "tags": list(tags)}


def _plan_items(items, inherited_tags, bg_steps, show_skipped, dry_run, in_rule, out, has_fbg=False):
    for it in items:
        if it["kind"] == "scenario":
            steps = [dict(s) for s in bg_steps] + [_sinfo(s) for s in it["steps"]]
            out.append(_mk_scenario(it["name"], it["tags"], inherited_tags, steps,
                                    show_skipped, dry_run, in_rule, "scenario"))
        elif it["kind"] == "outline":
            for ex in it["examples"]:
                for row in ex["rows"]:
                    steps = [dict(s) for s in bg_steps] + \
                            [_sinfo(s, ex["headings"], row) for s in it["steps"]]
                    tags = list(it["tags"]) + list(ex.get("tags", []))
                    out.append(_mk_scenario(None, tags, inherited_tags, steps,
                                            show_skipped, dry_run, in_rule, "row"))
        else:
            rtags = inherited_tags | set(it["tags"])
            shown = show_skipped or "skip" not in rtags
            out.append({"k": "rule", "name": it["name"], "shown": shown})
            own = [] if it.get("background") is None else [_sinfo(s) for s in it["background"]]
            if it.get("background") is not None or has_fbg:
                # a rule without Background under a feature with Background: the model gives the
                # rule an empty default background (carrier of the inheritance); it is part of the
                # model after the run, so it is announced/reported like a written one (no steps)
                out.append({"k": "background", "steps": own, "shown": shown, "in_rule": True})
            _plan_items(it["items"], rtags, bg_steps + own, show_skipped, dry_run, True, out)


def build_plan(tree, show_skipped, dry_run):
    ftags = set(tree["tags"])
    shown = show_skipped or "skip" not in ftags
    entries = []
    own = [] if tree.get("background") is None else [_sinfo(s) for s in tree["background"]]
    if tree.get("background") is not None:
        entries.append({"k": "background", "steps": own, "shown": shown, "in_rule": False})
    _plan_items(tree["items"], ftags, own, show_skipped, dry_run, False, entries,
                has_fbg=tree.get("background") is not None)
    return {"filename": tree["filename"], "name": tree["name"], "tags": list(tree["tags"]),
            "shown": shown, "entries": entries}


# =====================================================================================
# the real run
# =====================================================================================
class Obs(object):
    pass


def _opt(args, on, off, default):
    val = default
    for a in args:
        if a in on:
            val = True
        elif a in off:
            val = False
    return val


def observe(case):
    trees = expand(case["trees"])
    texts = [R.render(t) for t in trees]
    formats = list(case["formats"])
    tmp = tempfile.mkdtemp(prefix="c15_", dir="/var/tmp")
    obs = Obs()
    obs.trees, obs.texts = trees, texts
    try:
        args, paths = [], []
        for i, fmt in enumerate(formats):
            args += ["-f", fmt]
            if case.get("stdout_last") and i == len(formats) - 1:
                paths.append(None)
            else:
                p = os.path.join(tmp, "out%d.txt" % i)
                paths.append(p)
                args += ["-o", p]
        args += FIXED_ARGS + list(case["args"])
        out = io.StringIO()
        rec = R.Recorder()
        obs.exception = None
        config, feats = None, []
        with contextlib.redirect_stdout(out), contextlib.redirect_stderr(io.StringIO()):
            try:
                config = Configuration(args, load_config=False)
                feats = [parse_feature(tx, filename=t["filename"]) for t, tx in zip(trees, texts)]
                reg = R.make_registry(rec)
                generic = reg.steps["step"][0].func
                # typed variant first: numeric ids are converted ({sid:d}) -> typed argument
                reg.steps["step"].insert(0, ParseMatcher(generic, "step {sid:d} {outcome}"))
                runner = ModelRunner(config, feats, step_registry=reg)
                runner.formatters = make_formatters(config, config.outputs) + \
                    [R.RecordingFormatter(rec)]
                obs.failed = runner.run()
            except BaseException as e:      # noqa
                obs.exception = "".join(traceback.format_exception_only(type(e), e)).strip() + \
                    " @ " + " <- ".join("%s:%d" % (os.path.basename(f.filename), f.lineno)
                                        for f in reversed(traceback.extract_tb(e.__traceback__)[-3:]))
        obs.stdout = out.getvalue()
        obs.outputs = []
        for p in paths:
            if p is None:
                obs.outputs.append(obs.stdout)
            elif os.path.exists(p):
                with open(p, "rb") as fh:
                    obs.outputs.append(fh.read().decode("utf-8", "replace"))
            else:
                obs.outputs.append(None)
        obs.config, obs.features, obs.events = config, feats, rec.events
        return obs
    finally:
        shutil.rmtree(tmp, ignore_errors=True)


# =====================================================================================
# pairing plan <-> model
# =====================================================================================
def _loc(x):
    return "%s:%d" % (x.location.filename, x.location.line)


def pair(plan, feature, viol):
    """attach model objects to plan entries (order of definition)"""
    scen = [s for k, s in R.walk_model(feature) if k == "scenario"]
    bgs = []
    if feature.background is not None:
        bgs.append(feature.background)
    for k, r in R.walk_model(feature):
        if k == "rule" and r.background is not None:
            bgs.append(r.background)
    pe_s = [e for e in plan["entries"] if e["k"] == "scenario"]
    pe_b = [e for e in plan["entries"] if e["k"] == "background"]
    if len(scen) != len(pe_s) or len(bgs) != len(pe_b):
        viol.append("harness: tree/model mismatch (%d/%d scenarios, %d/%d backgrounds)"
                    % (len(pe_s), len(scen), len(pe_b), len(bgs)))
        return False
    for e, m in zip(pe_s, scen):
        e["m"] = m
        e["msteps"] = list(m.all_steps)
        if e["name"] is None:
            e["name"] = m.name
        if [s.name for s in e["msteps"]] != [s["name"] for s in e["steps"]] or m.name != e["name"]:
            viol.append("harness: steps of %r differ between tree and model" % m.name)
            return False
    for e, m in zip(pe_b, bgs):
        e["m"] = m
        e["msteps"] = list(m.steps)
    plan["m"] = feature
    return True


# =====================================================================================
# contract 1: event grammar
# =====================================================================================
def expected_events(plans, dry_run):
    ev = []
    for p in plans:
        ev.append(("uri", p["filename"]))
        if p["shown"]:
            ev.append(("feature", p["name"]))
        for e in p["entries"]:
            if not e["shown"]:
                continue
            if e["k"] == "rule":
                ev.append(("rule", e["name"]))
            elif e["k"] == "background":
                ev.append(("background", ""))
            else:
                ev.append(("scenario", e["name"]))
                for s in e["steps"]:
                    ev.append(("step", s["name"]))
                for i in range(e["n_proc"]):
                    s = e["steps"][i]
                    ev.append(("match", s["outcome"] != "undefined"))
                    ev.append(("result", s["name"], e["msteps"][i].status.name))
        if p["shown"]:
            ev.append(("eof",))
    ev.append(("close",))
    return ev


def check_events(obs, plans, dry_run):
    viol = []
    exp = expected_events(plans, dry_run)
    got = [tuple(e) for e in obs.events]
    if got != exp:
        i = 0
        while i < min(len(got), len(exp)) and got[i] == exp[i]:
            i += 1
        viol.append("event #%d: got %r expected %r (got %d events, expected %d); context got=%r expected=%r"
                    % (i, got[i] if i < len(got) else None, exp[i] if i < len(exp) else None,
                       len(got), len(exp), got[max(0, i - 2):i + 3], exp[max(0, i - 2):i + 3]))
    # final statuses of processed steps against the outcome encoded in the step text
    for p in plans:
        for e in p["entries"]:
            if e["k"] != "scenario":
                continue
            for i in range(e["n_proc"]):
                s, m = e["steps"][i], e["msteps"][i]
                want = OUTCOME_STATUS[s["outcome"]]
                if dry_run:
                    want = "undefined" if s["outcome"] == "undefined" else "untested"
                if m.status.name != want:
                    viol.append("model: step %r of %r has final status %s, program says %s"
                                % (s["name"], e["name"], m.status.name, want))
    return viol


# =====================================================================================
# contract 2: JSON mirrors the model
# =====================================================================================
def _diff(exp, act, path, out):
    if isinstance(exp, dict) and isinstance(act, dict):
        for k in sorted(set(exp) | set(act)):
            if k not in act:
                out.append("%s/%s missing (expected %r)" % (path, k, exp[k]))
            elif k not in exp:
                out.append("%s/%s unexpected %r" % (path, k, act[k]))
            else:
                _diff(exp[k], act[k], "%s/%s" % (path, k), out)
    elif isinstance(exp, list) and isinstance(act, list):
        if len(exp) != len(act):
            out.append("%s: %d items, expected %d" % (path, len(act), len(exp)))
        for i, (a, b) in enumerate(zip(exp, act)):
            _diff(a, b, "%s[%d]" % (path, i), out)
    elif exp != act or type(exp) is not type(act):
        out.append("%s: %r, expected %r" % (path, act, exp))


def _exp_step(s, m):
    d = {"keyword": s["kw"], "step_type": s["step_type"], "name": s["name"], "location": _loc(m)}
    if s["text"]:
        d["text"] = s["text"]
    if s["table"]:
        d["table"] = {"headings": list(s["table"][0]), "rows": [list(r) for r in s["table"][1:]]}
    return d


def _norm_text(step):
    if isinstance(step.get("text"), list):
        step["text"] = "\n".join(step["text"])


def expected_json(plans):
    feats = []
    for p in plans:
        if not p["shown"]:
            continue
        f = p["m"]
        fd = {"keyword": "Feature", "name": p["name"], "tags": list(p["tags"]),
              "location": _loc(f), "status": f.status.name}
        els = []
        for e in p["entries"]:
            if not e["shown"] or e["k"] == "rule":
                continue
            if e["k"] == "background":
                els.append({"type": "background", "keyword": "Background", "name": "",
                            "location": _loc(e["m"]),
                            "steps": [_exp_step(s, m) for s, m in zip(e["steps"], e["msteps"])]})
            else:
                m = e["m"]
                els.append({"type": "scenario",
                            "keyword": "Scenario" if e["kind"] == "scenario" else "Scenario Outline",
                            "name": e["name"], "tags": [str(t) for t in m.tags], "location": _loc(m),
                            "status": m.status.name,
                            "steps": [_exp_step(s, ms) for s, ms in zip(e["steps"], e["msteps"])]})
        if els:
            fd["elements"] = els
        feats.append(fd)
    return feats


def load_json(text, viol):
    if text is None:
        viol.append("json output file was not written")
        return None
    try:
        data = json.loads(text)
    except ValueError as e:
        viol.append("json.loads failed: %s; output starts %r" % (e, text[:120]))
        return None
    if not isinstance(data, list):
        viol.append("json top level is %s, expected a list of features" % type(data).__name__)
        return None
    return data


def check_json(obs, plans, dry_run, text):
    viol = []
    data = load_json(text, viol)
    if data is None:
        return viol
    exp = expected_json(plans)
    act = copy.deepcopy(data)
    # strip match/result (checked below), normalise multi-line text
    for f in act:
        for el in f.get("elements", []) if isinstance(f, dict) else []:
            for st in el.get("steps", []):
                st.pop("match", None)
                st.pop("result", None)
                _norm_text(st)
    _diff(exp, act, "", viol)
    # scenario tags against the tree for plain scenarios (rows: outline + examples tags)
    shown = [p for p in plans if p["shown"]]
    if len(shown) != len(data):
        return viol
    for fi, (p, fd) in enumerate(zip(shown, data)):
        els = [e for e in p["entries"] if e["shown"] and e["k"] != "rule"]
        jels = fd.get("elements", [])
        if len(els) != len(jels):
            continue
        for ei, (e, el) in enumerate(zip(els, jels)):
            where = "[%d]/elements[%d]" % (fi, ei)
            jsteps = el.get("steps", [])
            if e["k"] == "background":
                for si, st in enumerate(jsteps):
                    if "result" in st or "match" in st:
                        viol.append("%s/steps[%d]: background step carries match/result" % (where, si))
                continue
            if list(el.get("tags", [])) != e["tags"]:
                viol.append("%s/tags: %r, the feature file says %r" % (where, el.get("tags"), e["tags"]))
            if len(jsteps) != len(e["steps"]):
                continue
            for si, (s, m, st) in enumerate(zip(e["steps"], e["msteps"], jsteps)):
                w = "%s(%s)/steps[%d](%s)" % (where, e["name"], si, s["name"])
                processed = si < e["n_proc"]
                res = st.get("result")
                if processed:
                    if res is None:
                        viol.append("%s: processed step (final status %s) has no result"
                                    % (w, m.status.name))
                    else:
                        if res.get("status") != m.status.name:
                            viol.append("%s: result.status %r, final status of this step is %s"
                                        % (w, res.get("status"), m.status.name))
                        if res.get("duration") != m.duration:
                            viol.append("%s: result.duration %r, model %r" % (w, res.get("duration"), m.duration))
                        em = res.get("error_message")
                        if isinstance(em, list):
                            em = "\n".join(em)
                        if m.status.name == "failed":
                            if em != "\n".join((m.error_message or "").splitlines()):
                                viol.append("%s: error_message %r, model %r" % (w, em, m.error_message))
                        elif em is not None and em != m.error_message:
                            viol.append("%s: error_message %r, model %r" % (w, em, m.error_message))
                elif res is not None:
                    viol.append("%s: step was not processed (final status %s) but carries result %r"
                                % (w, m.status.name, res.get("status")))
                mt = st.get("match")
                if processed and s["args"] is not None:
                    if mt is None:
                        viol.append("%s: processed, defined step has no match" % w)
                    else:
                        if mt.get("arguments") != s["args"]:
                            viol.append("%s: match.arguments %r, expected %r" % (w, mt.get("arguments"), s["args"]))
                        if not re.search(r"\.py:\d+$", mt.get("location") or ""):
                            viol.append("%s: match.location %r" % (w, mt.get("location")))
                elif mt is not None:
                    viol.append("%s: %s step carries match %r" %
                                (w, "undefined" if s["args"] is None else "unprocessed", mt))
    return viol


# =====================================================================================
# contract 2b: read-back with behave.json_parser
# =====================================================================================
def _strip_tables(data):
    data = copy.deepcopy(data)
    for f in data:
        for el in f.get("elements", []):
            for st in el.get("steps", []):
                st.pop("table", None)
    return data


def _readback(data, viol):
    from behave.json_parser import JsonParser
    try:
        return JsonParser().parse_features(data)
    except Exception as e:      # noqa
        tb = traceback.extract_tb(e.__traceback__)
        viol.append("JsonParser().parse_features raised %s: %s (at %s)"
                    % (type(e).__name__, e, " <- ".join("%s:%s" % (os.path.basename(f.filename), f.name)
                                                       for f in reversed(tb[-2:]))))
        return None


def _shown_scenarios(p):
    return [e for e in p["entries"] if e["k"] == "scenario" and e["shown"]]


def check_readback_structure(obs, plans, text):
    viol = []
    data = load_json(text, viol)
    if data is None:
        return viol
    feats = _readback(data, viol)
    if feats is None:
        return viol
    shown = [p for p in plans if p["shown"]]
    if len(feats) != len(shown):
        viol.append("read-back has %d features, %d were reported" % (len(feats), len(shown)))
        return viol
    for p, f in zip(shown, feats):
        w = "feature %r" % p["name"]
        if f.name != p["name"] or f.keyword != "Feature" or list(f.tags) != p["tags"]:
            viol.append("%s: read back as %r %r tags %r" % (w, f.keyword, f.name, list(f.tags)))
        # the feature's own background
        fbg = [e for e in p["entries"] if e["k"] == "background" and not e["in_rule"]]
        want_bg = [s["name"] for s in fbg[0]["steps"]] if fbg else None
        got_bg = None if f.background is None else [s.name for s in f.background.steps]
        if got_bg != want_bg:
            viol.append("%s: read-back feature.background steps %r, the feature's background is %r"
                        % (w, got_bg, want_bg))
        scs = _shown_scenarios(p)
        got = list(f.scenarios)
        if [s.name for s in got] != [e["name"] for e in scs]:
            viol.append("%s: read-back scenarios %r, reported %r"
                        % (w, [s.name for s in got], [e["name"] for e in scs]))
            continue
        for e, sc in zip(scs, got):
            ws = "%s / %r" % (w, e["name"])
            kw = "Scenario" if e["kind"] == "scenario" else "Scenario Outline"
            if sc.keyword != kw or [str(t) for t in sc.tags] != [str(t) for t in e["m"].tags]:
                viol.append("%s: keyword/tags read back as %r %r" % (ws, sc.keyword, list(sc.tags)))
            rsteps = list(sc.steps)
            if len(rsteps) != len(e["steps"]):
                viol.append("%s: %d steps read back, %d reported" % (ws, len(rsteps), len(e["steps"])))
                continue
            it_names = [x.name for x in sc]
            if it_names != [s["name"] for s in e["steps"]]:
                viol.append("%s: iterating the read-back scenario (all_steps) gives %r, the scenario's steps are %r"
                            % (ws, it_names, [s["name"] for s in e["steps"]]))
            for s, rs in zip(e["steps"], rsteps):
                if (rs.keyword, rs.step_type, rs.name) != (s["kw"], s["step_type"], s["name"]):
                    viol.append("%s: step read back as %r, is %r" %
                                (ws, (rs.keyword, rs.step_type, rs.name), (s["kw"], s["step_type"], s["name"])))
                if (rs.text or None) != (s["text"] or None):
                    viol.append("%s: step %r text read back as %r, is %r" % (ws, s["name"], rs.text, s["text"]))
                want_t = None if not s["table"] else (list(s["table"][0]), [list(r) for r in s["table"][1:]])
                got_t = None if rs.table is None else (list(rs.table.headings),
                                                       [list(r.cells) for r in rs.table.rows])
                if got_t != want_t:
                    viol.append("%s: step %r table read back as %r, is %r" % (ws, s["name"], got_t, want_t))
    return viol


def _status_name(x):
    try:
        return x.status.name
    except Exception as e:      # noqa
        return "<%s: %s>" % (type(e).__name__, e)


def check_readback_status(obs, plans, text):
    viol = []
    data = load_json(text, viol)
    if data is None:
        return viol
    feats = _readback(_strip_tables(data), viol)
    if feats is None:
        return viol
    shown = [p for p in plans if p["shown"]]
    if len(feats) != len(shown):
        viol.append("read-back has %d features, %d were reported" % (len(feats), len(shown)))
        return viol
    for p, f, fd in zip(shown, feats, data):
        w = "feature %r" % p["name"]
        scs = _shown_scenarios(p)
        got = list(f.scenarios)
        if len(got) != len(scs):
            viol.append("%s: %d scenarios read back, %d reported" % (w, len(got), len(scs)))
            continue
        for e, sc in zip(scs, got):
            ws = "%s / %r" % (w, e["name"])
            rsteps = list(sc.steps)
            for i, (s, m, rs) in enumerate(zip(e["steps"], e["msteps"], rsteps)):
                if i < e["n_proc"]:
                    if rs.status.name != m.status.name:
                        viol.append("%s: step %r status read back %s, final status %s"
                                    % (ws, s["name"], rs.status.name, m.status.name))
                elif rs.status.name not in ("untested", m.status.name):
                    viol.append("%s: unprocessed step %r read back as %s (final status %s)"
                                % (ws, s["name"], rs.status.name, m.status.name))
            st = _status_name(sc)
            if st != e["m"].status.name:
                viol.append("%s: scenario status read back %s, reported/model status %s"
                            % (ws, st, e["m"].status.name))
        st = _status_name(f)
        if st != p["m"].status.name:
            viol.append("%s: feature status read back %s, reported/model status %s"
                        % (w, st, p["m"].status.name))
    return viol


def check_readback_location(obs, plans, text):
    viol = []
    data = load_json(text, viol)
    if data is None:
        return viol
    feats = _readback(_strip_tables(data), viol)
    if feats is None:
        return viol
    shown = [p for p in plans if p["shown"]]

    def cmp(what, rb, m):
        got = (rb.location.filename, rb.location.line)
        want = (m.location.filename, m.location.line)
        if got != want or type(got[1]) is not type(want[1]):
            viol.append("%s: location read back %r, is %r" % (what, got, want))
        try:
            if str(rb.location) != _loc(m):
                viol.append("%s: str(location) read back %r, is %r" % (what, str(rb.location), _loc(m)))
        except Exception as e:      # noqa
            viol.append("%s: str(location) of the read-back element raises %s: %s"
                        % (what, type(e).__name__, e))
    for p, f in zip(shown, feats):
        cmp("feature %r" % p["name"], f, p["m"])
        for e, sc in zip(_shown_scenarios(p), list(f.scenarios)):
            cmp("scenario %r" % e["name"], sc, e["m"])
            for m, rs in zip(e["msteps"], list(sc.steps)):
                cmp("step %r" % m.name, rs, m)
    return viol


def check_parse_file(case):
    """module-level behave.json_parser.parse(filename) on the file the formatter wrote"""
    from behave import json_parser
    viol = []
    trees = expand(case["trees"])
    tmp = tempfile.mkdtemp(prefix="c15_", dir="/var/tmp")
    try:
        p = os.path.join(tmp, "report.json")
        args = ["-f", "json", "-o", p] + FIXED_ARGS + list(case["args"])
        rec = R.Recorder()
        with contextlib.redirect_stdout(io.StringIO()):
            config = Configuration(args, load_config=False)
            feats = [parse_feature(R.render(t), filename=t["filename"]) for t in trees]
            runner = ModelRunner(config, feats, step_registry=R.make_registry(rec))
            runner.formatters = make_formatters(config, config.outputs)
            runner.run()
        with open(p, "rb") as fh:
            data = json.loads(fh.read().decode("utf-8"))
        want = [f["name"] for f in data]
        try:
            got = json_parser.parse(p)
        except Exception as e:      # noqa
            viol.append("behave.json_parser.parse(<report file>) raised %s: %s" % (type(e).__name__, e))
            return viol
        if [f.name for f in got] != want:
            viol.append("parse() returned features %r, the file has %r" % ([f.name for f in got], want))
        return viol
    finally:
        shutil.rmtree(tmp, ignore_errors=True)


# =====================================================================================
# contract 3: plain / progress text
# =====================================================================================
PLAIN_STEP = re.compile(r"^\s+(Given|When|Then|And|But) (.*) \.\.\. ([a-z_]+)( in (\d+\.\d{3})s)?$")
PLAIN_SCEN = re.compile(r"^\s+(Scenario Outline|Scenario): (.*)$")
PLAIN_FEAT = re.compile(r"^Feature: (.*)$")
TABLE_LINE = re.compile(r"^\s+\|.*\|$")


def check_plain(obs, plans, text, multiline, timings):
    viol = []
    if text is None:
        return ["plain output was not written"]
    blocks, feats, cur = [], [], None
    n_doc = n_tab = 0
    for line in text.split("\n"):
        m = PLAIN_FEAT.match(line)
        if m:
            feats.append(m.group(1))
            cur = None
            continue
        m = PLAIN_SCEN.match(line)
        if m:
            cur = (m.group(2), [])
            blocks.append(cur)
            continue
        m = PLAIN_STEP.match(line)
        if m:
            entry = (m.group(1), m.group(2), m.group(3), m.group(5))
            if cur is None:
                viol.append("step line outside any scenario block: %r" % line)
            else:
                cur[1].append(entry)
            continue
        if line.strip() == '"""':
            n_doc += 1
        elif TABLE_LINE.match(line):
            n_tab += 1
    exp_feats = [p["name"] for p in plans if p["shown"]]
    if feats != exp_feats:
        viol.append("feature lines %r, expected %r" % (feats, exp_feats))
    exp_blocks = []
    e_doc = e_tab = 0
    for p in plans:
        for e in _shown_scenarios(p):
            lines = []
            for i in range(e["n_proc"]):
                s, m = e["steps"][i], e["msteps"][i]
                lines.append((s["kw"], s["name"], m.status.name,
                              ("%0.3f" % m.duration) if timings else None))
                if s["text"]:
                    e_doc += 2
                if s["table"]:
                    e_tab += len(s["table"])
            exp_blocks.append((e["name"], lines))
    if [b[0] for b in blocks] != [b[0] for b in exp_blocks]:
        viol.append("scenario blocks %r, expected %r" % ([b[0] for b in blocks], [b[0] for b in exp_blocks]))
    else:
        for (name, got), (_, want) in zip(blocks, exp_blocks):
            if got != want:
                viol.append("scenario %r: step lines (keyword, name, status, timing) %r, expected %r"
                            % (name, got, want))
    if not multiline:
        e_doc = e_tab = 0
    if not viol and (n_doc, n_tab) != (e_doc, e_tab):
        viol.append("multi-line: %d doc-string delimiter lines and %d table lines, expected %d and %d"
                    % (n_doc, n_tab, e_doc, e_tab))
    return viol


def _dots(e):
    return "".join(DOT.get(e["msteps"][i].status.name, "?") for i in range(e["n_proc"]))


DOTS_ONLY = re.compile(r"^[.FEHS_UPpu]*$")


def check_progress2(obs, plans, text):
    viol = []
    if text is None:
        return ["progress2 output was not written"]
    lines = text.split("\n")
    names = [p["filename"] for p in plans]
    got = []
    for line in lines:
        for fn in names:
            if line.startswith(fn + "  "):
                rest = re.sub(r"  # \d+\.\d+s$", "", line[len(fn) + 2:])
                got.append((fn, rest))
    exp = [(p["filename"], "".join(_dots(e) for e in _shown_scenarios(p))) for p in plans if p["shown"]]
    if got != exp:
        viol.append("progress2 lines (file, one char per processed step) %r, expected %r" % (got, exp))
    return viol


def check_progress3(obs, plans, text):
    viol = []
    if text is None:
        return ["progress3 output was not written"]
    lines = text.split("\n")
    exp = []
    for p in plans:
        for e in _shown_scenarios(p):
            exp.append((e["name"], ("    " if e["in_rule"] else "  "), _dots(e)))
    names = set(x[0] for x in exp)
    got = []
    for line in lines:
        for nm in names:
            for prefix in ("  ", "    "):
                head = prefix + nm + "  "
                if line.startswith(head) and DOTS_ONLY.match(line[len(head):]):
                    got.append((nm, prefix, line[len(head):]))
    if got != exp:
        viol.append("progress3 scenario lines (name, indent, one char per processed step) %r, expected %r"
                    % (got, exp))
    heads = [ln for ln in lines if re.match(r"^\S.*    # f\d+\.feature$", ln)]
    exp_heads = ["%s    # %s" % (p["name"], p["filename"]) for p in plans if p["shown"]]
    # the feature head line follows the last line of the previous feature without newline
    # only when that feature had no scenario; be tolerant: look for the substring in order
    pos = 0
    for h in exp_heads:
        k = text.find(h, pos)
        if k < 0:
            viol.append("progress3: feature head %r not found (in order)" % h)
            break
        pos = k + len(h)
    return viol


# =====================================================================================
# evaluation of one case (all contracts, one run), cached per process
# =====================================================================================
CONTRACTS = ("events", "json", "rb_structure", "rb_status", "rb_location", "plain", "progress")
_CACHE = {}
MAX_SHOWN = 5


def _key(case):
    return json.dumps(case, sort_keys=True)


def evaluate(case):
    key = _key(case)
    if key in _CACHE:
        return _CACHE[key]
    res = dict((c, []) for c in CONTRACTS)
    args = list(case["args"])
    dry_run = _opt(args, ("--dry-run", "-d"), (), False)
    show_skipped = _opt(args, ("--show-skipped",), ("--no-skipped",), True)
    multiline = _opt(args, ("--show-multiline",), ("--no-multiline",), True)
    timings = _opt(args, ("--show-timings",), ("--no-timings", "-T"), True)
    obs = observe(case)
    plans = [build_plan(t, show_skipped, dry_run) for t in obs.trees]
    formats = list(case["formats"])
    if obs.exception is not None:
        for c in CONTRACTS:
            res[c].append("run raised " + obs.exception)
    else:
        pre = []
        ok = all([pair(p, f, pre) for p, f in zip(plans, obs.features)])
        cfg = obs.config
        if (bool(cfg.dry_run), bool(cfg.show_skipped), bool(cfg.show_multiline), bool(cfg.show_timings)) != \
                (dry_run, show_skipped, multiline, timings):
            pre.append("harness: option reading differs from Configuration")
            ok = False
        if not ok:
            for c in CONTRACTS:
                res[c].extend(pre)
        else:
            res["events"] = check_events(obs, plans, dry_run)
            for i, fmt in enumerate(formats):
                text = obs.outputs[i]
                tag = "" if formats.count(fmt) == 1 else "[#%d %s] " % (i, fmt)
                if fmt in ("json", "json.pretty"):
                    res["json"] += [tag + v for v in check_json(obs, plans, dry_run, text)]
                    res["rb_structure"] += [tag + v for v in check_readback_structure(obs, plans, text)]
                    res["rb_status"] += [tag + v for v in check_readback_status(obs, plans, text)]
                    res["rb_location"] += [tag + v for v in check_readback_location(obs, plans, text)]
                elif fmt == "plain":
                    res["plain"] += [tag + v for v in check_plain(obs, plans, text, multiline, timings)]
                elif fmt == "progress2":
                    res["progress"] += [tag + v for v in check_progress2(obs, plans, text)]
                elif fmt == "progress3":
                    res["progress"] += [tag + v for v in check_progress3(obs, plans, text)]
    out = {}
    for c in CONTRACTS:
        v = res[c]
        out[c] = (not v, "" if not v else "%d violation(s): " % len(v) + " || ".join(v[:MAX_SHOWN]))
    if len(_CACHE) > 200000:
        _CACHE.clear()
    _CACHE[key] = out
    return out


# =====================================================================================
# case space
# =====================================================================================
def S(name, steps, t=()):
    return {"s": name, "t": list(t), "steps": list(steps)}


def O(name, steps, ex, t=()):
    return {"o": name, "t": list(t), "steps": list(steps), "ex": ex}


def EX(name, rows, t=()):
    return {"n": name, "t": list(t), "h": ["n", "o"], "rows": [[str(i + 1), o] for i, o in enumerate(rows)]}


def RU(name, items, bg=None, t=()):
    return {"r": name, "t": list(t), "bg": bg, "items": list(items)}


def F(name, items, bg=None, t=()):
    return {"n": name, "t": list(t), "bg": bg, "items": list(items)}


CATALOG = [
    ("one-pass", F("F0", [S("S1", ["pass"])])),
    ("pass-fail-pass", F("F1", [S("S1", ["pass", "fail", "pass"])])),
    ("fbg-two", F("F2", [S("S1", ["pass"]), S("S2", ["fail", "pass"])], bg=["pass", "pass"])),
    ("scenario-then-rule-bg", F("F3", [S("S1", ["pass"]), RU("R1", [S("S2", ["pass"])], bg=["pass"])])),
    ("fbg-rbg-outline-skip", F(u"F4 ünicøde", [
        S("S1", ["pass/t", "fail/d", "pass"]),
        RU("R1", [S("S2 skipped", ["undefined", "pass"], t=["skip"]),
                  O("O1", ["<o>"], [EX("E1", ["pass", "skip"])])], bg=["pass"])],
        bg=["pass"], t=["ft"])),
    ("multiline-unicode-typed", F(u"F5 täbles", [
        S(u"S1 ä€", ["pass/tu", "pass/dn", "pass/s", "pass/tdu", "fail/td"]),
        S("S2", ["pass/n", "error/t", "pass/d"])], bg=["pass/t"])),
    ("outline-two-examples", F("F6", [
        O("O1", ["pass", "<o>", "pass/t"], [EX("E1", ["pass", "fail"]), EX("E2", ["pass", "error"], t=["skip"])],
          t=["ot"])])),
    ("undefined-positions", F("F7", [S("S1", ["undefined", "pass"]), S("S2", ["pass", "undefined"]),
                                     S("S3", ["pass", "undefined", "pass", "undefined"])])),
    ("skip-pending-error", F("F8", [S("S1", ["pass", "skip", "pass"]), S("S2", ["pending", "pass"]),
                                    S("S3", ["pass", "error", "undefined"])])),
    ("feature-skipped", F("F9", [S("S1", ["pass"]), RU("R1", [S("S2", ["pass"])], bg=["pass"])],
                          bg=["pass"], t=["skip"])),
    ("rule-skipped", F("F10", [S("S1", ["pass"]), RU("R1", [S("S2", ["pass"])], bg=["pass"], t=["skip"]),
                               RU("R2", [S("S3", ["fail"])])])),
    ("two-rules-bg", F("F11", [RU("R1", [S("S1", ["pass"]), S("S2", ["fail"])], bg=["pass"]),
                               RU("R2", [S("S3", ["pass"])], bg=["pass", "pass"])], bg=["pass"])),
    ("empty-scenario", F("F12", [S("S1", []), S("S2", ["pass"])])),
    ("failing-background", F("F13", [S("S1", ["pass"]), S("S2", ["pass"])], bg=["pass", "fail"])),
    ("outline-in-rule-undefined", F("F14", [RU("R1", [O("O1", ["undefined", "<o>"], [EX("E1", ["pass", "pass"])])],
                                               bg=["pass"])])),
    ("all-skipped-scenarios", F("F15", [S("S1", ["pass"], t=["skip"]), S("S2", ["fail"], t=["skip"])])),
]
CAT = dict(CATALOG)

ALL4 = ["json", "plain", "progress2", "progress3"]


def arrangements(pool=ALL4):
    out = []
    for k in range(1, len(pool) + 1):
        out.extend(list(p) for p in itertools.permutations(pool, k))
    return out


OPT_AXES = [("", "--dry-run"), ("", "--no-skipped"), ("", "--no-multiline"), ("", "--no-timings")]


def option_sets():
    out = []
    for combo in itertools.product(*OPT_AXES):
        out.append([c for c in combo if c])
    return out


POSITIVE_OPTS = [["--show-skipped", "--show-timings"], ["--no-skipped", "--show-skipped"],
                 ["--show-skipped", "--no-skipped", "--dry-run"], ["--no-timings", "--show-timings"]]


def mk(trees, formats, args, stdout_last=False):
    return {"trees": list(trees), "formats": list(formats), "args": list(args), "stdout_last": bool(stdout_last)}


def seqs(alphabet, maxlen):
    out = []
    for n in range(1, maxlen + 1):
        out.extend(list(p) for p in itertools.product(alphabet, repeat=n))
    return out


SHAPES = ("flat", "fbg", "rule", "rbg", "fbg+rbg", "fbg+rule", "s+rbg", "outline")


def shape_tree(shape, combo, skip_at=None):
    """combo: list of outcome sequences, one per scenario; skip_at: index of a @skip scenario"""
    scs = [S("S%d" % (i + 1), sq, t=(["skip"] if skip_at == i else [])) for i, sq in enumerate(combo)]
    if shape == "flat":
        return F("F", scs)
    if shape == "fbg":
        return F("F", scs, bg=["pass"])
    if shape == "rule":
        return F("F", [RU("R", scs)])
    if shape == "rbg":
        return F("F", [RU("R", scs, bg=["pass"])])
    if shape == "fbg+rbg":
        return F("F", [RU("R", scs, bg=["pass"])], bg=["pass"])
    if shape == "fbg+rule":
        return F("F", [RU("R", scs)], bg=["pass"])
    if shape == "s+rbg":
        return F("F", [S("S0", ["pass"]), RU("R", scs, bg=["pass"])])
    if shape == "outline":
        # one outline per sequence: the sequence gives the rows of a one-step outline
        if any("undefined" in sq for sq in combo):
            return None
        return F("F", [O("O%d" % (i + 1), ["<o>"], [EX("E", sq, t=(["skip"] if skip_at == i else []))])
                       for i, sq in enumerate(combo)])
    raise ValueError(shape)


def witnesses():
    one = lambda steps, **kw: F("F", [S("S1", steps, **kw)])     # noqa
    tiny = [
        one(["pass"]), one(["fail", "pass"]), one(["undefined"]), one(["undefined", "pass"]),
        one(["pass", "undefined"]), one(["pass/t"]), one(["pass/d"]), one(["pass/n"]), one(["skip", "pass"]),
        F("F", [S("S1", ["pass"])], bg=["pass"]),
        F("F", [RU("R", [S("S1", ["pass"])], bg=["pass"])]),
        F("F", [RU("R", [S("S1", ["pass"])], bg=["pass"])], bg=["pass"]),
        F("F", [RU("R", [S("S1", ["pass"])])], bg=["pass"]),
        F("F", [S("S0", ["pass"]), RU("R", [S("S1", ["pass"])], bg=["pass"])]),
        F("F", [S("S1", ["pass"], t=["skip"]), S("S2", ["pass"])]),
        F("F", [O("O1", ["<o>"], [EX("E", ["pass", "fail"])])]),
    ]
    for t in tiny:
        for fmt in ALL4:
            for o in ([], ["--dry-run"]):
                yield mk([t], [fmt], o)


def _rot(lst, i):
    return lst[i % len(lst)]


def cases(tier, rng):
    thorough = tier == "thorough"
    arr = arrangements()
    opts = option_sets()
    # W. fixed tiny cases, one formatter each, identical in both tiers (smallest witnesses first)
    for c in witnesses():
        yield c
    # D1. systematic small trees, one scenario (smallest cases first)
    if thorough:
        alpha = ["pass", "fail", "undefined", "skip", "error", "pending"]
        one = seqs(alpha, 3)
        two = seqs(alpha, 2)
        shapes2 = ("flat", "s+rbg", "fbg+rbg", "outline")
    else:
        alpha = ["pass", "fail", "undefined"]
        one = seqs(alpha, 2)
        two = seqs(alpha, 2)
        shapes2 = ("flat", "s+rbg")
    i = 0
    for shape in SHAPES:
        for sq in one:
            t = shape_tree(shape, [sq])
            if t is None:
                continue
            for dry in ([], ["--dry-run"]):
                i += 1
                yield mk([t], _rot(arr, i * 7), dry + [x for x in _rot(opts, i) if x != "--dry-run"])
    # A. catalogue x all 16 option sets, all four formats
    for name, spec in CATALOG:
        for o in opts:
            yield mk([spec], ALL4, o)
    for o in POSITIVE_OPTS:
        yield mk([CAT["fbg-rbg-outline-skip"]], ALL4, o)
    # B. every non-empty subset of the four formatters in every order
    btrees = ["fbg-rbg-outline-skip", "multiline-unicode-typed"] if thorough else ["fbg-rbg-outline-skip"]
    for tname in btrees:
        for a in arr:
            for o in ([], ["--dry-run"]):
                yield mk([CAT[tname]], a, o)
    # B2. other built-in formatters alongside (no text oracle for them), duplicates, stdout
    extra = [["pretty", "json", "plain"], ["json", "pretty", "progress2", "progress3"],
             ["plain", "json", "json", "plain"], ["json.pretty", "progress", "plain"],
             ["progress3", "null", "json"], ["tags", "json", "plain"]]
    for a in extra:
        for o in ([], ["--dry-run"], ["--no-skipped", "--no-multiline"]):
            yield mk([CAT["fbg-rbg-outline-skip"]], a, o)
            if thorough:
                yield mk([CAT["multiline-unicode-typed"], CAT["two-rules-bg"]], a, o)
    for a in (["json"], ["plain"], ["progress2"], ["progress3"], ["plain", "json"], ["json", "progress3", "plain"],
              ["progress3", "progress2", "plain", "json"]):
        for o in ([], ["--dry-run"]):
            yield mk([CAT["fbg-rbg-outline-skip"]], a, o, stdout_last=True)
            yield mk([CAT["one-pass"], CAT["pass-fail-pass"]], a, o, stdout_last=True)
    # C. several features in one run (JSON framing, per-feature reset of the formatters)
    names = [n for n, _ in CATALOG]
    pairs = list(itertools.permutations(names, 2)) if thorough else \
        [(names[i], names[(i * 5 + 3) % len(names)]) for i in range(len(names))]
    for j, (a, b) in enumerate(pairs):
        yield mk([CAT[a], CAT[b]], ALL4, _rot(opts, j))
    yield mk([s for _, s in CATALOG], ALL4, [])
    yield mk([s for _, s in CATALOG], ALL4, ["--dry-run", "--no-skipped"])
    yield mk([CAT["feature-skipped"]], ALL4, ["--no-skipped"])
    yield mk([CAT["feature-skipped"], CAT["feature-skipped"]], ALL4, ["--no-skipped"])
    yield mk([CAT["feature-skipped"], CAT["one-pass"], CAT["feature-skipped"]], ALL4, ["--no-skipped"])
    # D2. systematic small trees, two scenarios
    for shape in shapes2:
        for c in itertools.product(two, repeat=2):
            for skip_at in ((None, 0, 1) if thorough else (None,)):
                t = shape_tree(shape, list(c), skip_at)
                if t is None:
                    continue
                for dry in ([], ["--dry-run"]):
                    if skip_at is not None and dry and not thorough:
                        continue
                    i += 1
                    yield mk([t], _rot(arr, i * 7), dry + [x for x in _rot(opts, i) if x != "--dry-run"])
    if not thorough:
        # a few @skip variants in quick as well
        for shape in ("flat", "s+rbg", "fbg+rbg"):
            for c in (["pass"], ["fail", "pass"]), (["undefined"], ["pass", "fail"]):
                for skip_at in (0, 1):
                    for o in ([], ["--no-skipped"], ["--dry-run"]):
                        yield mk([shape_tree(shape, list(c), skip_at)], ALL4, o)
    # E. random trees (thorough only)
    if thorough:
        for _ in range(4000):
            yield random_case(rng, arr, opts)


MODS = ["", "", "", "/t", "/d", "/s", "/u", "/n", "/td", "/tu"]


def _rand_steps(rng, maxn=4):
    n = rng.choice([0, 1, 1, 2, 2, 3, 4][:maxn + 3])
    out = []
    for _ in range(n):
        o = rng.choice(["pass"] * 5 + ["fail", "undefined", "skip", "error", "pending"])
        out.append(o + rng.choice(MODS))
    return out


def _rand_items(rng, prefix, allow_outline=True):
    items = []
    for k in range(rng.choice([0, 1, 1, 2, 3])):
        tags = ["skip"] if rng.random() < 0.2 else (["t%d" % k] if rng.random() < 0.3 else [])
        if allow_outline and rng.random() < 0.3:
            exs = []
            for j in range(rng.choice([1, 1, 2])):
                rows = [rng.choice(["pass", "pass", "fail", "skip", "error"]) for _ in range(rng.choice([1, 2, 3]))]
                exs.append(EX("E%d" % (j + 1), rows, t=(["skip"] if rng.random() < 0.2 else [])))
            steps = [rng.choice(["pass", "pass/t", "undefined", "pass/d"]) for _ in range(rng.choice([0, 1]))]
            steps.insert(rng.randrange(len(steps) + 1), "<o>")
            items.append(O("%sO%d" % (prefix, k + 1), steps, exs, t=tags))
        else:
            items.append(S("%sS%d" % (prefix, k + 1), _rand_steps(rng), t=tags))
    return items


def random_tree(rng, k):
    items = _rand_items(rng, "f%d" % k)
    for r in range(rng.choice([0, 0, 1, 2])):
        bg = None if rng.random() < 0.4 else [rng.choice(["pass", "pass", "pass/t", "fail", "undefined"])
                                              for _ in range(rng.choice([1, 2]))]
        items.append(RU("f%dR%d" % (k, r + 1), _rand_items(rng, "f%dr%d" % (k, r + 1)), bg=bg,
                        t=(["skip"] if rng.random() < 0.15 else [])))
    bg = None if rng.random() < 0.5 else [rng.choice(["pass", "pass", "pass/d", "fail", "undefined"])
                                          for _ in range(rng.choice([1, 2]))]
    return F(u"F%d ü" % k if rng.random() < 0.3 else "F%d" % k, items, bg=bg,
             t=(["skip"] if rng.random() < 0.1 else []))


def random_case(rng, arr, opts):
    trees = [random_tree(rng, k + 1) for k in range(rng.choice([1, 1, 1, 2, 3]))]
    return mk(trees, rng.choice(arr), rng.choice(opts), stdout_last=rng.random() < 0.1)


# =====================================================================================
# checks
# =====================================================================================
def _has(case, names):
    return any(f in names for f in case["formats"])


def _runner(contract, formats=None, limit=None):
    def run(tier, rng):
        n = 0
        seen = set()
        for case in cases(tier, rng):
            if formats is not None and not _has(case, formats):
                continue
            k = _key(case)
            if k in seen:
                continue
            seen.add(k)
            if limit is not None and n >= limit[tier]:
                return
            n += 1
            ok, detail = evaluate(case)[contract]
            yield case, ok, detail

    def replay(case):
        ok, detail = evaluate(case)[contract]
        return case, ok, detail
    return run, replay


SPACE_Q = ("real runs: 16 tiny trees x each of the four formatters alone x {normal, dry-run}; 16 catalogue trees (backgrounds at feature and rule level, outlines with two Examples, "
           "tag-deselected scenarios/rules/features, failing/erroring/pending/undefined/self-skipping steps, "
           "tables, doc-strings, unicode names, typed argument) x all 16 combinations of "
           "{--dry-run, --no-skipped, --no-multiline, --no-timings} with json+plain+progress2+progress3; "
           "all 64 ordered non-empty subsets of the four formatters x {normal, dry-run} on one tree; "
           "pretty/json.pretty/progress/null/tags alongside and duplicated json/plain; last formatter on stdout; 16 two-feature runs "
           "and two all-catalogue runs; exhaustive small trees: 8 shapes x all step-outcome sequences over "
           "{pass, fail, undefined} of length <= 2 (1 scenario), 2 shapes x all pairs of such sequences, "
           "x {normal, dry-run}, formatter arrangement and the other options rotating; 36 @skip variants")
SPACE_T = ("the families of quick (tiny trees, catalogue x 16 option sets, arrangements, other formatters alongside, "
           "stdout, all-catalogue runs) with: formatter arrangements on two trees; all 240 ordered pairs of catalogue trees; "
           "exhaustive small trees over {pass, fail, undefined, skip, error, pending}: 8 shapes x sequences of "
           "length <= 3 (1 scenario), 4 shapes x all pairs of sequences of length <= 2 x {no @skip, first, "
           "second scenario @skip}, x {normal, dry-run}; 4000 random cases (seeded rng: 1-3 random features with "
           "rules, backgrounds, outlines, tables/doc-strings, random arrangement and options)")


def _bound(extra_q="", extra_t=""):
    return {"quick": SPACE_Q + extra_q, "thorough": SPACE_T + extra_t}


run_events, replay_events = _runner("events")
run_json, replay_json = _runner("json", ("json", "json.pretty"))
run_rbs, replay_rbs = _runner("rb_structure", ("json", "json.pretty"))
run_rbst, replay_rbst = _runner("rb_status", ("json", "json.pretty"))
run_rbl, replay_rbl = _runner("rb_location", ("json", "json.pretty"), limit={"quick": 40, "thorough": 300})
run_plain, replay_plain = _runner("plain", ("plain",))
run_progress, replay_progress = _runner("progress", ("progress2", "progress3"))


def run_parse_file(tier, rng):
    names = ["one-pass", "fbg-two", "multiline-unicode-typed"]
    if tier == "thorough":
        names = [n for n, _ in CATALOG]
    for n in names:
        for o in ([], ["--dry-run"]):
            yield replay_parse_file({"trees": [CAT[n]], "formats": ["json"], "args": o, "stdout_last": False})


def replay_parse_file(case):
    v = check_parse_file(case)
    return case, not v, " || ".join(v)


# -- ModelDescriptor.describe_table / describe_docstring / textutil.indent ---------------
CELLS = ["", "a", u"ü€", "x|y", "b\\c", "long cell"]
INDENTS = [None, "", "  ", "      "]
DOCS = ["", "one", "two\nlines", "blank\n\nmiddle", u"ünï\n  indented", 'has """ quotes']


def _split_row(line):
    """Gherkin reading of one table line: cells between unescaped pipes, unescaped"""
    cells, cur, i = [], "", 0
    body = line
    while i < len(body):
        ch = body[i]
        if ch == "\\" and i + 1 < len(body):
            nxt = body[i + 1]
            cur += {"n": "\n", "|": "|", "\\": "\\"}.get(nxt, "\\" + nxt)
            i += 2
            continue
        if ch == "|":
            cells.append(cur)
            cur = ""
        else:
            cur += ch
        i += 1
    return cells, cur


def _describe_case(case):
    from behave.model import Table
    from behave.model_describe import ModelDescriptor
    from behave.textutil import indent
    viol = []
    ind = case["indent"]
    pre = ind or ""
    if case["kind"] == "table":
        rows = case["rows"]
        t = Table(rows[0], line=1, rows=rows[1:])
        out = ModelDescriptor.describe_table(t, ind)
        lines = out.split("\n")
        if lines[-1] != "":
            viol.append("no trailing newline: %r" % out)
        lines = lines[:-1]
        if len(lines) != len(rows):
            viol.append("%d lines for %d rows: %r" % (len(lines), len(rows), out))
        else:
            if len(set(len(x) for x in lines)) != 1:
                viol.append("lines differ in length (columns not aligned): %r" % lines)
            for ln, row in zip(lines, rows):
                if not ln.startswith(pre + "|"):
                    viol.append("line %r does not start with indentation + '|'" % ln)
                    continue
                cells, rest = _split_row(ln[len(pre):])
                if rest != "" or cells[0] != "" or [c.strip(" ") for c in cells[1:]] != [c.strip(" ") for c in row] \
                        or not all(c.startswith(" ") and c.endswith(" ") for c in cells[1:]):
                    viol.append("line %r reads back as %r, row is %r" % (ln, cells[1:], row))
    elif case["kind"] == "docstring":
        text = case["text"]
        out = ModelDescriptor.describe_docstring(text, ind)
        body = text.replace('"""', '\\"\\"\\"')
        want = "".join(pre + ln + "\n" for ln in ['"""'] + body.split("\n") + ['"""'])
        if out != want:
            viol.append("describe_docstring -> %r, expected %r" % (out, want))
    else:
        text = case["text"]
        out = indent(text, pre)
        want = "".join(pre + ln for ln in text.splitlines(True))
        if out != want:
            viol.append("indent(text) -> %r, expected %r" % (out, want))
        lines = text.splitlines(True)
        out2 = indent(lines, pre)
        if out2 != want:
            viol.append("indent(lines) -> %r, expected %r" % (out2, want))
        bare = text.split("\n")
        out3 = indent(bare, pre)
        want3 = "\n".join(pre + ln for ln in bare)
        if bare and out3 != want3:
            viol.append("indent(lines without newline) -> %r, expected %r" % (out3, want3))
    return viol


def run_describe(tier, rng):
    cells = CELLS if tier == "thorough" else CELLS[:5]
    for ind in INDENTS:
        for ncol in (1, 2):
            for nrow in (0, 1, 2):
                total = ncol * (nrow + 1)
                if tier != "thorough" and total > 4:
                    combos = [tuple(rng.choice(cells) for _ in range(total)) for _ in range(40)]
                elif total > 4:
                    combos = [tuple(rng.choice(cells) for _ in range(total)) for _ in range(400)]
                else:
                    combos = itertools.product(cells, repeat=total)
                for flat in combos:
                    if "" in flat[:ncol] and ncol > 1 and len(set(flat[:ncol])) < ncol:
                        continue
                    rows = [list(flat[r * ncol:(r + 1) * ncol]) for r in range(nrow + 1)]
                    yield replay_describe({"kind": "table", "indent": ind, "rows": rows})
        for d in DOCS:
            yield replay_describe({"kind": "docstring", "indent": ind, "text": d})
            yield replay_describe({"kind": "indent", "indent": ind, "text": d + "\n"})
            yield replay_describe({"kind": "indent", "indent": ind, "text": d})


def replay_describe(case):
    try:
        v = _describe_case(case)
    except Exception as e:      # noqa
        v = ["raised %s: %s" % (type(e).__name__, e)]
    return case, not v, " || ".join(v[:4])


CHECKS = [
    BoundedCheck(
        "event-grammar", bound=_bound(), run=run_events, replay=replay_events,
        contract="the event list seen by a recording formatter registered after the built-in ones == the list "
                 "computed from the feature tree and the options: per feature `uri`, then (if the feature is shown: "
                 "selected or show_skipped) `feature`, [`background`], per shown rule `rule` [`background`], per shown "
                 "scenario `scenario`, `step` for every step (inherited background copies first) in order, then "
                 "`match`,`result` for exactly the processed steps in step order (normal run: the prefix up to and "
                 "including the first step that does not pass; dry-run: every step of a selected scenario; "
                 "deselected: none), each `result` naming the step announced at that position with its final "
                 "status; `eof`; one `close` at the very end; no exception escapes the run"),
    BoundedCheck(
        "json-mirrors-model", bound=_bound(" (cases with a json/json.pretty formatter)", " (cases with json)"),
        run=run_json, replay=replay_json,
        contract="json.loads(output) succeeds and equals, feature by feature: keyword/name/tags/location/status of "
                 "each shown feature of the model after the run; elements = the shown backgrounds and scenarios in "
                 "file order with type/keyword/name/tags/location, scenario `status` == that scenario's status "
                 "(backgrounds carry none); steps by position: keyword/step_type/name/location/text/table of the "
                 "feature file; `result` present exactly on processed steps with status == that step's final "
                 "status, duration == step.duration, error_message for failed; `match` exactly on processed defined "
                 "steps with the converted arguments. Output goes to the stream of the same index (-o i / stdout)"),
    BoundedCheck(
        "json-readback-structure", bound=_bound(" (cases with json)", " (cases with json)"),
        run=run_rbs, replay=replay_rbs,
        contract="JsonParser().parse_features(json.loads(report)) returns without exception one Feature per reported "
                 "feature with the same name/keyword/tags, feature.background == the feature's own background steps, "
                 "scenarios == the reported scenarios in order with keyword/tags and steps "
                 "(keyword, step_type, name, text, table headings+rows)"),
    BoundedCheck(
        "json-readback-status", bound=_bound(" (cases with json)", " (cases with json)"),
        run=run_rbst, replay=replay_rbst,
        contract="(report read back after removing step tables, so that the table reader defect does not mask this) "
                 "every processed step reads back with its final status, unprocessed steps as untested or their "
                 "status, every reported scenario.status and feature.status read back == the status in the "
                 "report/model"),
    BoundedCheck(
        "json-readback-location",
        bound={"quick": "first 40 json cases of the quick space", "thorough": "first 300 json cases of the thorough space"},
        run=run_rbl, replay=replay_rbl,
        contract="(tables removed as above) feature/scenario/step read back have location (filename, line:int) == "
                 "the model's and str(location) == 'file:line'"),
    BoundedCheck(
        "json-parse-file",
        bound={"quick": "3 catalogue trees x {normal, dry-run}", "thorough": "16 catalogue trees x {normal, dry-run}"},
        run=run_parse_file, replay=replay_parse_file,
        contract="behave.json_parser.parse(<file written by -f json -o file>) returns the reported features"),
    BoundedCheck(
        "plain-steps", bound=_bound(" (cases with a plain formatter)", " (cases with plain)"),
        run=run_plain, replay=replay_plain,
        contract="plain output parsed into `Feature:` lines, `Scenario[ Outline]:` blocks and step lines "
                 "`<kw> <name> ... <status>[ in N.NNNs]`: features == shown features; blocks == shown scenarios in "
                 "order; the step lines of a block == its processed steps in order, each exactly once, with keyword, "
                 "name, final status, timing suffix iff show_timings; doc-string delimiter lines and table lines "
                 "counted == those of the processed steps iff show_multiline"),
    BoundedCheck(
        "progress-dots", bound=_bound(" (cases with progress2/progress3)", " (cases with progress2/progress3)"),
        run=run_progress, replay=replay_progress,
        contract="progress2: one line `<file>  <chars>` per shown feature, chars == one status character "
                 "(. F E H S _ U P p u per documented table) per processed step of the feature in order; progress3: "
                 "one line `<indent><scenario name>  <chars>` per shown scenario in order with that scenario's "
                 "processed steps, feature head lines in order"),
    BoundedCheck(
        "describe-table-docstring-indent",
        bound={"quick": "tables 1-2 columns x 0-2 rows over 5 cell values (unicode, pipe, backslash, empty): exhaustive "
                        "up to 4 cells, 40 sampled per larger shape; 6 doc-strings; 4 indentations",
               "thorough": "same over 6 cell values, 400 sampled per larger shape"},
        run=run_describe, replay=replay_describe,
        contract="describe_table: one line per row, equal length, indentation + '|', and reading the line back "
                 "(split at unescaped pipes, unescape, strip padding) gives the row's cells; describe_docstring == "
                 "indented '\"\"\"' / lines with triple quotes escaped / '\"\"\"'; indent(text|lines, prefix) prefixes "
                 "every line and changes nothing else"),
]
