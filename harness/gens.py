# -*- coding: utf-8 -*-
"""Input generators for the bounded stand-ins / replay (run under /venv/bin/python).
Each generator yields harness.rtcheck.Case objects built from *real* behave
objects; `bound` documents what is enumerated per tier."""
import importlib

for _m in ("gens_c03",):
    importlib.import_module("harness." + _m)
