# -*- coding: utf-8 -*-
"""
harness.b_c10 -- bounded stand-ins (kind B) for C10: file-location and name selection
pick exactly the addressed scenarios.

Everything expected comes from the *writer* in this module: ``build(shape, ...)`` renders a
feature document from an abstract shape and records, while it writes, the line at which
every entity (feature, rule, scenario outline, examples row, scenario) starts and which
scenarios that entity owns.  Scenarios are identified by the id in the text of their first
step (``step <key> <outcome>``), not by line number and not by name, so the identity does
not share anything with the line database under test.

Reading of the property text used by the oracle (stated, not derived from the code):

* "the entity starts at that line" = the line of its keyword (``Feature:``, ``Rule:``,
  ``Scenario:``, ``Scenario Outline:``) or, for an examples row, the table row; a tag line
  above a keyword is an "other line" and belongs to the nearest entity starting above it;
* a line above the first entity (feature tags, ``# language``, comments) has no entity above
  it: the whole feature is selected (same as line 0);
* ``Examples:`` keyword lines and table heading lines are not entities;
* "several locations of one file select the union" is read per *consecutive* run of equal
  file names in the location list (DESIGN 5.10); one Feature object per run.
"""
from __future__ import print_function
import atexit
import contextlib
import io
import itertools
import json
import os
import re
import shutil
import tempfile

from harness.bounded import BoundedCheck
from harness import runlib

from behave.configuration import Configuration
from behave.model_core import FileLocation
from behave.runner_util import (FileLocationParser, FeatureListParser, collect_feature_locations,
                                parse_features)

BAD_OUTCOMES = ("fail", "error", "undefined", "pending")


# -- scratch directories ---------------------------------------------------------------
_SCRATCH = []


def _cleanup_all():
    for d in list(_SCRATCH):
        shutil.rmtree(d, ignore_errors=True)
        _SCRATCH.remove(d)


atexit.register(_cleanup_all)


@contextlib.contextmanager
def scratch_dir():
    """Fresh directory under /var/tmp; removed on exit, on error, on generator close and
    (last resort, when the consumer abandons the generator) at interpreter exit."""
    d = tempfile.mkdtemp(prefix="verif_c10_", dir="/var/tmp")
    d = os.path.realpath(d)
    _SCRATCH.append(d)
    try:
        yield d
    finally:
        shutil.rmtree(d, ignore_errors=True)
        if d in _SCRATCH:
            _SCRATCH.remove(d)


@contextlib.contextmanager
def chdir(path):
    old = os.getcwd()
    os.chdir(path)
    try:
        yield
    finally:
        os.chdir(old)


# -- abstract shapes and the writer (the oracle) -------------------------------------------
#   feature : {"tags": [..], "bg": 0|1, "items": [S|O ...], "rules": [R ...]}
#   S       : {"k": "S", "tags": [..], "o": [outcome, ...], "name": optional}
#   O       : {"k": "O", "tags": [..], "ex": [{"tags": [..], "rows": [outcome, ...]}, ...], "name": optional}
#   R       : {"k": "R", "tags": [..], "bg": 0|1, "items": [S|O ...], "name": optional}
# (Gherkin: everything after a ``Rule:`` belongs to it, so rules come after the free items.)
# layout    : {"lang","fdesc","cmt","blank","tagsplit","ml","sdesc","tail"} small ints, default 0
def S(o=("pass",), tags=(), name=None):
    d = {"k": "S", "tags": list(tags), "o": list(o)}
    if name is not None:
        d["name"] = name
    return d


def O(ex, tags=(), name=None):
    d = {"k": "O", "tags": list(tags),
         "ex": [{"tags": list(t), "rows": list(r)} for (t, r) in ex]}
    if name is not None:
        d["name"] = name
    return d


def R(items, tags=(), bg=0, name=None):
    d = {"k": "R", "tags": list(tags), "bg": bg, "items": list(items)}
    if name is not None:
        d["name"] = name
    return d


def F(items, rules=(), tags=(), bg=0):
    return {"tags": list(tags), "bg": bg, "items": list(items), "rules": list(rules)}


class Doc(object):
    """text: rendered document; n_lines; entities: [(line, kind, [keys])] sorted by line;
    scenarios: [dict(key, name, line, tags, outcomes, rule)] in document (= run) order."""

    def select(self, line):
        """Spec: keys selected by file:line."""
        if not line:
            return set(s["key"] for s in self.scenarios)
        best = None
        for (eline, _kind, keys) in self.entities:
            if eline <= line:
                best = keys
        if best is None:
            return set(s["key"] for s in self.scenarios)
        return set(best)

    def protected(self):
        return set(s["key"] for s in self.scenarios
                   if "setup" in s["tags"] or "teardown" in s["tags"])

    def expected_unskipped(self, lines):
        if any(not ln for ln in lines):
            return set(s["key"] for s in self.scenarios)
        sel = set()
        for ln in lines:
            sel |= self.select(ln)
        return sel | self.protected()


def step_text(sid, outcome):
    if outcome == "undefined":
        return "an undefined thing %s" % sid
    return "step %s %s" % (sid, outcome)


def key_of_step_name(name):
    parts = name.split()
    if name.startswith("an undefined thing"):
        return parts[-1]
    return parts[1]


def key_of(scenario):
    """Identity of a model scenario: the id in the text of its first step."""
    return key_of_step_name(scenario.steps[0].name)


def build(shape, prefix="", layout=None):
    lay = dict(layout or {})
    g = lambda k: int(lay.get(k, 0) or 0)       # noqa: E731
    out = []
    doc = Doc()
    doc.entities = []
    doc.scenarios = []
    P = prefix.upper()
    p = prefix.lower()
    counter = itertools.count(1)
    rule_counter = itertools.count(1)

    def emit(text):
        out.append(text)
        return len(out)

    def emit_tags(tags, indent):
        if not tags:
            return
        if g("tagsplit") and len(tags) >= 2:
            emit(indent + "@" + tags[0])
            emit(indent + " ".join("@" + t for t in tags[1:]))
        else:
            emit(indent + " ".join("@" + t for t in tags))

    def emit_gap():
        for _ in range(g("blank")):
            emit("")

    def emit_steps(steps, indent):
        for j, (sid, outcome) in enumerate(steps):
            emit("%s%s %s" % (indent, "Given" if j == 0 else "And", step_text(sid, outcome)))
            if g("ml") and j == 0:
                emit('%s  """' % indent)
                emit("%s  some text" % indent)
                emit("%s  Scenario: not a scenario" % indent)
                emit("%s  @notatag" % indent)
                emit('%s  """' % indent)
            elif g("ml") and j == 1:
                emit("%s  | a | b |" % indent)
                emit("%s  | 1 | 2 |" % indent)

    def emit_items(items, indent, rule_name, collect):
        for it in items:
            emit_gap()
            if g("cmt"):
                emit("%s# comment before %s" % (indent, it["k"]))
            k = next(counter)
            emit_tags(it["tags"], indent)
            if it["k"] == "S":
                name = it.get("name", "%sS%d" % (P, k))
                line = emit("%sScenario: %s" % (indent, name))
                if g("sdesc"):
                    emit("%s  this text describes it" % indent)
                key = "%ss%d" % (p, k)
                steps = [(key if j == 0 else "%sx%d" % (key, j + 1), o) for j, o in enumerate(it["o"])]
                emit_steps(steps, indent + "  ")
                doc.entities.append((line, "scenario", [key]))
                doc.scenarios.append({"key": key, "name": name, "line": line, "tags": list(it["tags"]),
                                      "outcomes": list(it["o"]), "rule": rule_name, "kind": "scenario"})
                collect.append(key)
            else:
                name = it.get("name", "%sO%d" % (P, k))
                line = emit("%sScenario Outline: %s" % (indent, name))
                if g("sdesc"):
                    emit("%s  this text describes it" % indent)
                okey = "%so%d" % (p, k)
                emit_steps([(okey + "<n>", "<o>")], indent + "  ")
                mine = []
                doc.entities.append((line, "outline", mine))
                for e, ex in enumerate(it["ex"], 1):
                    if g("blank") >= 2:
                        emit("")
                    if g("cmt") >= 2:
                        emit("%s  # comment before examples" % indent)
                    emit_tags(ex["tags"], indent + "  ")
                    exname = "%sE%d" % (P, e)
                    emit("%s  Examples: %s" % (indent, exname))
                    emit("%s    | n | o |" % indent)
                    for r, outcome in enumerate(ex["rows"], 1):
                        nval = "e%dr%d" % (e, r)
                        rline = emit("%s    | %s | %s |" % (indent, nval, outcome))
                        key = okey + nval
                        rname = "%s -- @%d.%d %s" % (name.replace("<n>", nval).replace("<o>", outcome),
                                                     e, r, exname)
                        doc.entities.append((rline, "row", [key]))
                        doc.scenarios.append({"key": key, "name": rname, "line": rline,
                                              "tags": list(it["tags"]) + list(ex["tags"]),
                                              "outcomes": [outcome], "rule": rule_name, "kind": "row"})
                        mine.append(key)
                        collect.append(key)

    if g("lang"):
        emit("# language: en")
    if g("cmt"):
        emit("# comment at the top")
    emit_tags(shape["tags"], "")
    fname = shape.get("name", "%sFeature" % P)
    fline = emit("Feature: %s" % fname)
    all_keys = []
    doc.entities.append((fline, "feature", all_keys))
    if g("fdesc"):
        emit("  As a reader")
        emit("  I want a description")
    if shape.get("bg"):
        emit_gap()
        emit("  Background:")
        emit_steps([("%sbg" % p, "pass")], "    ")
    emit_items(shape["items"], "  ", None, all_keys)
    for rl in shape.get("rules", ()):
        emit_gap()
        if g("cmt"):
            emit("  # comment before R")
        emit_tags(rl["tags"], "  ")
        rname = rl.get("name", "%sR%d" % (P, next(rule_counter)))
        rline = emit("  Rule: %s" % rname)
        rkeys = []
        doc.entities.append((rline, "rule", rkeys))
        if g("sdesc"):
            emit("    this text describes the rule")
        if rl.get("bg"):
            emit("    Background:")
            emit_steps([("%srbg" % p, "pass")], "      ")
        emit_items(rl["items"], "    ", rname, rkeys)
        all_keys.extend(rkeys)
    for _ in range(g("tail")):
        emit("")
        emit("# trailing comment")
    doc.entities.sort(key=lambda e: e[0])
    doc.n_lines = len(out)
    doc.text = "\n".join(out) + "\n"
    doc.feature_name = fname
    return doc


def write_doc(base, relname, doc):
    path = os.path.join(base, relname)
    d = os.path.dirname(path)
    if not os.path.isdir(d):
        os.makedirs(d)
    with io.open(path, "w", encoding="utf-8") as f:
        f.write(doc.text)
    return path


# -- families of documents -----------------------------------------------------------------
LAYOUT_PLAIN = {}
LAYOUT_FULL = {"lang": 1, "fdesc": 1, "cmt": 2, "blank": 2, "tagsplit": 1, "ml": 1, "sdesc": 1, "tail": 2}
LAYOUTS = [
    LAYOUT_PLAIN,
    LAYOUT_FULL,
    {"blank": 1},
    {"blank": 1, "tagsplit": 1, "cmt": 1},
    {"ml": 1, "sdesc": 1},
    {"lang": 1, "fdesc": 1, "blank": 1, "tail": 1},
]

BASE_SHAPES = [
    F([S()]),
    F([S(), S(["pass", "pass"])]),
    F([S(), O([([], ["pass", "pass"])])]),
    F([O([([], ["pass", "pass"]), ([], ["pass"])]), S()]),
    F([S(tags=["a"])], rules=[R([S(), S()]), R([S()], tags=["r"], bg=1)], tags=["f"]),
    F([S(tags=["setup"]), S(), S(tags=["x", "teardown"]), S()]),
    F([S(), O([([], ["pass", "pass"])], tags=["setup"]), O([(["teardown"], ["pass"]), ([], ["pass", "pass"])]), S()]),
    F([S(tags=["t1"]), S(tags=["setup"])],
      rules=[R([S(), O([(["x"], ["pass", "pass"]), ([], ["pass"])], tags=["ot"])], tags=["rt", "r2"], bg=1),
             R([O([([], ["pass"])]), S(["pass", "pass"]), S(tags=["teardown"])])],
      tags=["ft", "f2"], bg=1),
    F([], rules=[R([]), R([S()]), R([])]),
    F([O([]), O([([], [])]), S(), O([([], []), ([], ["pass"])])]),
    F([]),
    # scenarios that share keyword and name are different scenarios (identity, not equality, decides what is selected)
    F([S(name="Login works"), S()], rules=[R([S(name="Login works"), S()]), R([S(name="Login works")])]),
    F([S(name="Twin"), S(name="Twin"), O([([], ["pass", "pass"])], name="Twin")]),
]


def random_shape(rng):
    tagpool = ["a", "b", "setup", "teardown", "wip"]

    def tags(pr=0.3):
        return [t for t in tagpool if rng.random() < pr * (0.4 if t in ("setup", "teardown") else 1.0)]

    def items(n):
        res = []
        for _ in range(n):
            if rng.random() < 0.6:
                res.append(S(["pass"] * rng.randint(1, 3), tags=tags()))
            else:
                ex = [(tags(0.15), ["pass"] * rng.randint(0, 3)) for _ in range(rng.randint(0, 3))]
                res.append(O(ex, tags=tags()))
        return res
    rules = [R(items(rng.randint(0, 3)), tags=tags(), bg=rng.randint(0, 1)) for _ in range(rng.randint(0, 3))]
    return F(items(rng.randint(0, 4)), rules=rules, tags=tags(0.2), bg=rng.randint(0, 1))


def random_layout(rng):
    return {"lang": rng.randint(0, 1), "fdesc": rng.randint(0, 1), "cmt": rng.randint(0, 2),
            "blank": rng.randint(0, 2), "tagsplit": rng.randint(0, 1), "ml": rng.randint(0, 1),
            "sdesc": rng.randint(0, 1), "tail": rng.randint(0, 2)}


def documents(tier, rng, n_random):
    """[(shape, layout)] -- small hand-written ones first."""
    docs = []
    lays = LAYOUTS[:2] if tier == "quick" else LAYOUTS
    for sh in BASE_SHAPES:
        for lay in lays:
            docs.append((sh, lay))
    for _ in range(n_random):
        docs.append((random_shape(rng), random_layout(rng)))
    return docs


# -- observation helpers -------------------------------------------------------------------
def unskipped_keys(feature):
    return set(key_of(s) for s in feature.walk_scenarios() if not s.should_skip)


def line_mismatches(feature, doc):
    """Writer/parser agreement on scenario lines (sanity of the oracle's ruler)."""
    want = dict((s["key"], s["line"]) for s in doc.scenarios)
    got = dict((key_of(s), s.line) for s in feature.walk_scenarios())
    return sorted((k, want.get(k), got.get(k)) for k in set(want) | set(got) if want.get(k) != got.get(k))


def check_one_file(path, doc, lines):
    """parse_features on consecutive locations of one file against the writer's spec."""
    locs = [FileLocation(path, ln) for ln in lines]
    feats = parse_features(locs)
    if len(feats) != 1:
        return False, "parse_features returned %d features for one file" % len(feats)
    bad = line_mismatches(feats[0], doc)
    if bad:
        return False, "writer/parser scenario line mismatch (key, writer, parser): %r" % (bad,)
    got = unskipped_keys(feats[0])
    want = doc.expected_unskipped(lines)
    if got != want:
        return False, "lines=%r: not-skipped %s, expected %s (extra %s, missing %s)\n%s" % (
            lines, sorted(got), sorted(want), sorted(got - want), sorted(want - got), numbered(doc))
    return True, "not-skipped %s" % sorted(got)


def numbered(doc):
    return "\n".join("%3d %s" % (i, ln) for i, ln in enumerate(doc.text.split("\n")[:-1], 1))


# == CHECK 1: every line of every document ====================================================
def lines_of(doc):
    return [None] + list(range(0, doc.n_lines + 4)) + [10 ** 6]


def run_every_line(tier, rng):
    docs = documents(tier, rng, 6 if tier == "quick" else 150)
    with scratch_dir() as base:
        for i, (shape, layout) in enumerate(docs):
            doc = build(shape, layout=layout)
            path = write_doc(base, "d%d/a.feature" % i, doc)
            for ln in lines_of(doc):
                case = {"shape": shape, "layout": layout, "line": ln}
                try:
                    ok, detail = check_one_file(path, doc, [ln])
                except Exception as e:      # noqa
                    ok, detail = False, "exception %s: %s\n%s" % (type(e).__name__, e, numbered(doc))
                yield case, ok, detail


def replay_every_line(case):
    with scratch_dir() as base:
        doc = build(case["shape"], layout=case["layout"])
        path = write_doc(base, "a.feature", doc)
        try:
            ok, detail = check_one_file(path, doc, [case["line"]])
        except Exception as e:      # noqa
            ok, detail = False, "exception %s: %s" % (type(e).__name__, e)
        return case, ok, detail


# == CHECK 2: multisets of 1..3 locations of one file ============================================
def reduced_lines(doc):
    """0, every entity line, the line after it, the line before it, last+1."""
    s = set([0, doc.n_lines + 1])
    for (ln, _k, _keys) in doc.entities:
        s.update([ln - 1, ln, ln + 1])
    return sorted(x for x in s if x >= 0)


def run_multi_location(tier, rng):
    if tier == "quick":
        picks = [(BASE_SHAPES[3], LAYOUT_PLAIN), (BASE_SHAPES[7], LAYOUTS[3])]
        n_pair_docs, n_triple_sample = 1, 400
    else:
        picks = [(sh, lay) for sh in BASE_SHAPES[2:8] for lay in (LAYOUT_PLAIN, LAYOUTS[3])]
        picks += [(random_shape(rng), random_layout(rng)) for _ in range(6)]
        n_pair_docs, n_triple_sample = 8, 1500
    with scratch_dir() as base:
        for i, (shape, layout) in enumerate(picks):
            doc = build(shape, layout=layout)
            path = write_doc(base, "m%d/a.feature" % i, doc)
            all_lines = list(range(0, doc.n_lines + 2))
            red = reduced_lines(doc)
            combos = []
            if i < n_pair_docs:
                # -- every ORDERED pair of lines (the first location triggers the parse)
                combos.extend([a, b] for a in all_lines for b in all_lines)
            else:
                combos.extend([a, b] for a in red for b in red)
            # -- every multiset of 3 over the reduced line set, order shuffled
            triples = [list(t) for t in itertools.combinations_with_replacement(red, 3)]
            if len(triples) > n_triple_sample:
                triples = rng.sample(triples, n_triple_sample)
            for t in triples:
                rng.shuffle(t)
            combos.extend(triples)
            # -- a bare file name mixed with lines
            combos.extend([[None, red[len(red) // 2]], [red[len(red) // 2], None], [red[-1], None, red[1]]])
            for lines in combos:
                case = {"shape": shape, "layout": layout, "lines": lines}
                try:
                    ok, detail = check_one_file(path, doc, lines)
                except Exception as e:      # noqa
                    ok, detail = False, "exception %s: %s" % (type(e).__name__, e)
                yield case, ok, detail


def replay_multi_location(case):
    with scratch_dir() as base:
        doc = build(case["shape"], layout=case["layout"])
        path = write_doc(base, "a.feature", doc)
        try:
            ok, detail = check_one_file(path, doc, case["lines"])
        except Exception as e:      # noqa
            ok, detail = False, "exception %s: %s" % (type(e).__name__, e)
        return case, ok, detail


# == CHECK 3/4: location lists over several files, direct and via @listfile =========================
FILESET = [
    ("a", "features/a.feature", BASE_SHAPES[7], LAYOUTS[3]),
    ("b", "features/sub/b.feature", BASE_SHAPES[3], LAYOUT_PLAIN),
    ("c", "more/c.feature", BASE_SHAPES[4], LAYOUTS[4]),
]


def build_fileset(base):
    docs = {}
    for (fid, rel, shape, layout) in FILESET:
        doc = build(shape, prefix=fid, layout=layout)
        write_doc(base, rel, doc)
        doc.rel = rel
        docs[fid] = doc
    return docs


def runs_of(locs):
    """Maximal runs of equal file ids: [(fid, [lines])]."""
    res = []
    for fid, ln in locs:
        if res and res[-1][0] == fid:
            res[-1][1].append(ln)
        else:
            res.append((fid, [ln]))
    return res


def compare_features(feats, docs, locs):
    want = [(docs[fid].feature_name, sorted(docs[fid].expected_unskipped(lines))) for fid, lines in runs_of(locs)]
    got = [(f.name, sorted(unskipped_keys(f))) for f in feats]
    if got != want:
        return False, "features (name, not-skipped): %r, expected per consecutive run: %r" % (got, want)
    return True, "%d feature objects" % len(got)


LIST_STYLES = ("plain", "dot", "updown", "abs", "trail")
REL_STYLES = ("plain", "dot", "updown", "trail")


def listfile_line(style, rel, ln, base):
    """One line of a list file that lives in <base>/lists/; paths relative to that directory."""
    loc = "" if ln is None else ":%d" % ln
    relpath = "../" + rel
    if style == "dot":
        relpath = "./../" + rel
    elif style == "updown":
        relpath = "../lists/../" + rel
    elif style == "abs":
        relpath = os.path.join(base, rel)
    text = relpath + loc
    if style == "trail":
        text += " \t"
    return text


def listfile_text(locs, styles, base, noise):
    out = []
    if noise:
        out += ["# -- RERUN-like banner: 3 things", "", "   ", "  # indented comment", "#features/a.feature:1"]
    for (fid, ln), style in zip(locs, styles):
        rel = dict((f[0], f[1]) for f in FILESET)[fid]
        out.append(listfile_line(style, rel, ln, base))
        if noise:
            out += ["", "# between"]
    return "\n".join(out) + ("\n\n" if noise else "\n")


def eval_multi_file(case, base, docs):
    locs = [(fid, ln) for fid, ln in case["locs"]]
    mode = case["mode"]
    rels = dict((f[0], f[1]) for f in FILESET)
    if mode == "direct":
        feats = parse_features([FileLocation(os.path.join(base, rels[fid]), ln) for fid, ln in locs])
        return compare_features(feats, docs, locs)
    if mode == "direct-str":
        # plain strings (no line) as a runner passes them for bare file names
        feats = parse_features([os.path.join(base, rels[fid]) for fid, _ln in locs])
        return compare_features(feats, docs, [(fid, None) for fid, _ in locs])
    # -- via @listfile
    text = listfile_text(locs, case["styles"], base, case["noise"])
    lpath = os.path.join(base, "lists", "l.txt")
    if not os.path.isdir(os.path.dirname(lpath)):
        os.makedirs(os.path.dirname(lpath))
    with io.open(lpath, "w", encoding="utf-8") as f:
        f.write(text)
    if mode == "listfile-abs":
        got_locs = collect_feature_locations(["@" + lpath])
        resolve = lambda fn: os.path.realpath(fn)      # noqa: E731
        feats = parse_features(got_locs)
    else:       # "listfile-rel": list file named relative to the current directory
        with chdir(base):
            got_locs = collect_feature_locations(["@lists/l.txt"])
            resolve = lambda fn: os.path.realpath(os.path.join(base, fn))      # noqa: E731
            feats = parse_features(got_locs)
    got_pairs = [(resolve(l.filename), l.line) for l in got_locs]
    want_pairs = [(os.path.realpath(os.path.join(base, rels[fid])), ln) for fid, ln in locs]
    if got_pairs != want_pairs:
        strip = lambda ps: [(p.replace(base, "<base>"), ln) for p, ln in ps]      # noqa: E731
        return False, "locations from list file %r, expected %r\nlist file:\n%s" % (
            strip(got_pairs), strip(want_pairs), text.replace(base, "<base>"))
    return compare_features(feats, docs, locs)


def gen_loc_lists(rng, docs, n, consecutive):
    fids = sorted(docs)
    for _ in range(n):
        k = rng.randint(2, 6)
        if consecutive:
            order = fids[:]
            rng.shuffle(order)
            order = order[:rng.randint(1, 3)]
            seq = sorted((rng.choice(order) for _ in range(k)), key=order.index)
        else:
            while True:
                seq = [rng.choice(fids) for _ in range(max(k, 3))]
                rs = [fid for fid, _ in runs_of([(f, 0) for f in seq])]
                if len(rs) != len(set(rs)):
                    break
        locs = []
        for fid in seq:
            doc = docs[fid]
            r = rng.random()
            if r < 0.08:
                ln = None
            elif r < 0.12:
                ln = 0
            elif r < 0.6:
                ln = rng.choice(doc.entities)[0]
            else:
                ln = rng.randint(1, doc.n_lines + 2)
            locs.append([fid, ln])
        yield locs


def run_multi_file(tier, rng):
    n = 60 if tier == "quick" else 600
    with scratch_dir() as base:
        docs = build_fileset(base)
        fixed = [
            [["a", None], ["b", None], ["c", None]],
            [["a", docs["a"].entities[1][0]], ["b", docs["b"].entities[1][0]]],
            [["b", 0], ["b", docs["b"].entities[2][0]], ["c", docs["c"].entities[-1][0]]],
        ]
        for locs in fixed + list(gen_loc_lists(rng, docs, n, consecutive=True)):
            modes = ["direct", "listfile-abs", "listfile-rel"]
            if all(ln is None for _f, ln in locs):
                modes.append("direct-str")
            for mode in modes:
                case = {"mode": mode, "locs": locs}
                if mode == "listfile-abs":
                    case["styles"] = [rng.choice(LIST_STYLES) for _ in locs]
                    case["noise"] = rng.randint(0, 1)
                elif mode == "listfile-rel":
                    # one spelling family per file: relative spellings normalise to one name,
                    # the absolute spelling is a different string (see same-file-two-spellings)
                    fam = dict((fid, rng.random() < 0.25) for fid, _ in locs)
                    case["styles"] = ["abs" if fam[fid] else rng.choice(REL_STYLES) for fid, _ in locs]
                    case["noise"] = rng.randint(0, 1)
                try:
                    ok, detail = eval_multi_file(case, base, docs)
                except Exception as e:      # noqa
                    ok, detail = False, "exception %s: %s" % (type(e).__name__, e)
                yield case, ok, str(detail).replace(base, "<base>")


def replay_multi_file(case):
    with scratch_dir() as base:
        docs = build_fileset(base)
        try:
            ok, detail = eval_multi_file(case, base, docs)
        except Exception as e:      # noqa
            ok, detail = False, "exception %s: %s" % (type(e).__name__, e)
        return case, ok, str(detail).replace(base, "<base>")


def run_nonconsecutive(tier, rng):
    n = 40 if tier == "quick" else 400
    with scratch_dir() as base:
        docs = build_fileset(base)
        la = docs["a"].entities
        fixed = [[["a", la[1][0]], ["b", None], ["a", la[2][0]]]]
        for locs in fixed + list(gen_loc_lists(rng, docs, n, consecutive=False)):
            case = {"mode": "direct", "locs": locs}
            try:
                ok, detail = eval_multi_file(case, base, docs)
            except Exception as e:      # noqa
                ok, detail = False, "exception %s: %s" % (type(e).__name__, e)
            yield case, ok, str(detail).replace(base, "<base>")


# == CHECK 4b: one file named by two spellings ===================================================
SPELLINGS = ("rel", "dot", "updown", "abs")


def spell(kind, rel, base):
    if kind == "dot":
        return "./" + rel
    if kind == "updown":
        return os.path.join(os.path.dirname(rel), "..", rel)
    if kind == "abs":
        return os.path.join(base, rel)
    return rel


def eval_two_spellings(case, base, docs):
    rel = dict((f[0], f[1]) for f in FILESET)["a"]
    paths = []
    for kind, ln in zip(case["spellings"], case["lines"]):
        paths.append(spell(kind, rel, base) + ("" if ln is None else ":%d" % ln))
    with chdir(base):
        locs = collect_feature_locations(paths)
        feats = parse_features(locs)
    return compare_features(feats, docs, [("a", ln) for ln in case["lines"]])


TWO_SPELLINGS = [["rel", "rel"], ["abs", "abs"], ["dot", "dot"], ["rel", "dot"], ["dot", "rel"], ["rel", "abs"]]


def run_two_spellings(tier, rng):
    with scratch_dir() as base:
        docs = build_fileset(base)
        ents = [e[0] for e in docs["a"].entities]
        lines = [ents[1], ents[2]]
        for pair in TWO_SPELLINGS:
            case = {"spellings": pair, "lines": lines}
            try:
                ok, detail = eval_two_spellings(case, base, docs)
            except Exception as e:      # noqa
                ok, detail = False, "exception %s: %s" % (type(e).__name__, e)
            yield case, ok, str(detail).replace(base, "<base>")


def replay_two_spellings(case):
    with scratch_dir() as base:
        docs = build_fileset(base)
        try:
            ok, detail = eval_two_spellings(case, base, docs)
        except Exception as e:      # noqa
            ok, detail = False, "exception %s: %s" % (type(e).__name__, e)
        return case, ok, str(detail).replace(base, "<base>")


# == CHECK 5: FileLocationParser.parse ==========================================================
FLP_ALPHABET = ("a", ":", "1", " ", "\\", ".")
_WS = " \t\n\r\x0b\x0c"


def spec_file_location(text):
    """Split at the last ':' when the tail is all digits (surrounding blanks ignored)."""
    t = text.strip(_WS)
    i = t.rfind(":")
    tail = t[i + 1:]
    if i >= 0 and tail != "" and all(c in "0123456789" for c in tail):
        return (t[:i].strip(_WS), int(tail))
    return (t, None)


def eval_flp(text):
    try:
        loc = FileLocationParser.parse(text)
        got = (loc.filename, loc.line)
    except Exception as e:      # noqa
        got = ("<%s>" % type(e).__name__, str(e))
    want = spec_file_location(text)
    return got == want, "parse(%r) -> %r, expected %r" % (text, got, want)


FLP_EXTRA = ["features/a.feature:12", "C:\\x\\a.feature:3", "C:\\x\\a.feature", "a.feature:0", "a.feature:007",
             "a.feature:12:", "a.feature::12", "a.feature: 12", "a.feature :12", "\ta.feature:12\t", ":", ":12",
             "a:1:2", "a:b:2", "a.feature:1x", "a.feature:-1", "12", "a b.feature:4", "", "   "]


def run_flp(tier, rng):
    maxlen = 6 if tier == "quick" else 8
    for text in FLP_EXTRA:
        ok, detail = eval_flp(text)
        yield {"text": text}, ok, detail
    for n in range(0, maxlen + 1):
        for chars in itertools.product(FLP_ALPHABET, repeat=n):
            text = "".join(chars)
            if text in FLP_EXTRA:
                continue
            ok, detail = eval_flp(text)
            yield {"text": text}, ok, detail


def replay_flp(case):
    ok, detail = eval_flp(case["text"])
    return case, ok, detail


# == CHECK 6/7: FeatureListParser.parse on text ===================================================
HERE = "/x/lists"
LFP_LINES = [
    # (text of the line, expected (absolute file name, line) or None when skipped)
    ("", None),
    ("   ", None),
    ("\t", None),
    ("# comment", None),
    ("   # indented comment", None),
    ("#a.feature:3", None),
    ("a.feature", ("/x/lists/a.feature", None)),
    ("a.feature:3", ("/x/lists/a.feature", 3)),
    ("./a.feature:3", ("/x/lists/a.feature", 3)),
    ("sub/b.feature:12", ("/x/lists/sub/b.feature", 12)),
    ("../features/a.feature:7", ("/x/features/a.feature", 7)),
    ("../lists/../features/a.feature", ("/x/features/a.feature", None)),
    ("/abs/c.feature:5", ("/abs/c.feature", 5)),
    ("/abs/c.feature", ("/abs/c.feature", None)),
    ("a.feature:3   ", ("/x/lists/a.feature", 3)),
    ("/abs/c.feature:5\t", ("/abs/c.feature", 5)),
    ("a.feature:0", ("/x/lists/a.feature", 0)),
]
LFP_INDENTED = [
    ("  a.feature:3", ("/x/lists/a.feature", 3)),
    ("\ta.feature", ("/x/lists/a.feature", None)),
    ("  ../features/a.feature:7", ("/x/features/a.feature", 7)),
    ("  /abs/c.feature:5", ("/abs/c.feature", 5)),
    ("  sub/b.feature:12  ", ("/x/lists/sub/b.feature", 12)),
]


def eval_lfp(lines, table, newline="\n", final_newline=True):
    exp = dict(table)
    text = newline.join(lines) + (newline if final_newline else "")
    want = [exp[ln] for ln in lines if exp[ln] is not None]
    try:
        got = [(os.path.normpath(os.path.join(HERE, l.filename)), l.line)
               for l in FeatureListParser.parse(text, here=HERE)]
    except Exception as e:      # noqa
        got = "<%s: %s>" % (type(e).__name__, e)
    return got == want, "parse(%r, here=%r) -> %r, expected %r" % (text, HERE, got, want)


def run_lfp(tier, rng):
    table = LFP_LINES
    texts = [t for t, _ in table]
    maxlen = 2 if tier == "quick" else 3
    for n in range(0, maxlen + 1):
        for lines in itertools.product(texts, repeat=n):
            case = {"lines": list(lines), "nl": "\n", "final": True}
            ok, detail = eval_lfp(lines, table)
            yield case, ok, detail
    for lines in itertools.product(texts, repeat=2):
        for nl, final in (("\r\n", True), ("\n", False)):
            case = {"lines": list(lines), "nl": nl, "final": final}
            ok, detail = eval_lfp(lines, table, nl, final)
            yield case, ok, detail


def replay_lfp(case):
    ok, detail = eval_lfp(case["lines"], LFP_LINES + LFP_INDENTED, case.get("nl", "\n"), case.get("final", True))
    return case, ok, detail


def run_lfp_indented(tier, rng):
    table = LFP_LINES + LFP_INDENTED
    for t, _ in LFP_INDENTED:
        ok, detail = eval_lfp([t], table)
        yield {"lines": [t], "nl": "\n", "final": True}, ok, detail


# == CHECK 8/9: name selection (real runs) ===========================================================
NAME_SHAPE = F(
    [S(name="Alice"), S(name="Alice and Bob"), S(name="bob2"), S(name="S.1"), S(name="S11"),
     O([([], ["pass", "pass"]), ([], ["pass"])], name="Row <n>"), S(name="a+b")],
    rules=[R([S(name="Bob"), O([([], ["pass", "pass"])], name="Alice outline"), S(name="Alice")])])

NAME_FRAGMENTS = ["^Alice$", "Bob$", "^[Bb]ob", r"\d+$", "Alice|Bob", r"S\.1", r"a\+b", ".", "^$", "",
                  r"-- @1\.2", r"@2\.", "E1$", "<n>", "Row e1r2", "(Alice|Row) ", "^(?:S|b)", "outline",
                  "nomatch", "^.{5}$"]


def name_patterns(doc):
    names = []
    for s in doc.scenarios:
        if s["name"] not in names:
            names.append(s["name"])
    return names + NAME_FRAGMENTS


def eval_name_select(shape, layout, patterns):
    doc = build(shape, layout=layout)
    args = []
    for p in patterns:
        args += ["--name", p]
    want_keys = [s["key"] for s in doc.scenarios if any(re.search(p, s["name"]) for p in patterns)]
    obs = runlib.run([{"filename": "a.feature"}], args=args + ["-f", "null"], texts=[doc.text])
    if obs.exception is not None:
        return False, "run raised %s: %s" % (type(obs.exception).__name__, obs.exception)
    got_names = [s.name for s in obs.features[0].walk_scenarios()]
    if got_names != [s["name"] for s in doc.scenarios]:
        return False, "oracle ruler: model scenario names %r differ from writer's %r" % (
            got_names, [s["name"] for s in doc.scenarios])
    ran = []
    for (_scname, sid, _o) in obs.rec.calls:
        if sid.endswith("bg"):
            continue
        if sid not in ran:
            ran.append(sid)
    hooked = [lab for (h, lab) in obs.rec.hooks if h == "before_scenario"]
    want_names = [s["name"] for s in doc.scenarios if s["key"] in want_keys]
    if ran != want_keys or hooked != want_names:
        return False, "patterns %r: executed %r (before_scenario for %r), expected %r (%r)" % (
            patterns, ran, hooked, want_keys, want_names)
    notrun = [s.name for s in obs.features[0].walk_scenarios()
              if key_of(s) not in want_keys and s.status.name != "skipped"]
    if notrun:
        return False, "patterns %r: unselected scenarios not skipped: %r" % (patterns, notrun)
    return True, "executed %r" % (ran,)


def run_name_select(tier, rng):
    doc = build(NAME_SHAPE)
    pats = name_patterns(doc)
    singles = [[p] for p in pats]
    pairs = [[p, q] for p in pats for q in pats if p != q]
    if tier == "quick":
        pairs = rng.sample(pairs, 150)
        triples = []
    else:
        triples = [rng.sample(pats, 3) for _ in range(300)]
    for patterns in singles + pairs + triples:
        case = {"patterns": patterns, "layout": LAYOUT_PLAIN}
        try:
            ok, detail = eval_name_select(NAME_SHAPE, LAYOUT_PLAIN, patterns)
        except Exception as e:      # noqa
            ok, detail = False, "exception %s: %s" % (type(e).__name__, e)
        yield case, ok, detail
    if tier != "quick":
        for patterns in singles:
            case = {"patterns": patterns, "layout": LAYOUT_FULL}
            try:
                ok, detail = eval_name_select(NAME_SHAPE, LAYOUT_FULL, patterns)
            except Exception as e:      # noqa
                ok, detail = False, "exception %s: %s" % (type(e).__name__, e)
            yield case, ok, detail


def replay_name_select(case):
    try:
        ok, detail = eval_name_select(NAME_SHAPE, case.get("layout", LAYOUT_PLAIN), case["patterns"])
    except Exception as e:      # noqa
        ok, detail = False, "exception %s: %s" % (type(e).__name__, e)
    return case, ok, detail


# patterns that are each a valid regular expression but are sensitive to being pasted into one
# alternation (group numbering, global inline flags)
INDEP_COMBOS = [[r"(A)lice"], [r"(o)\1"], [r"(?i)BOB"], [r"(\d)\1"],
                [r"(\d)\1", "Bob"], [r"(?i)BOB", "S11"],              # sensitive pattern first: fine when pasted
                [r"(A)lice", r"(\d)\1"], ["Bob", r"(o)\1"], ["S11", r"(?i)BOB"]]


def run_name_independent(tier, rng):
    for patterns in INDEP_COMBOS:
        case = {"patterns": patterns, "layout": LAYOUT_PLAIN}
        try:
            ok, detail = eval_name_select(NAME_SHAPE, LAYOUT_PLAIN, patterns)
        except Exception as e:      # noqa
            ok, detail = False, "exception %s: %s" % (type(e).__name__, e)
        yield case, ok, detail


CHECKS = [
    BoundedCheck(
        "every-line",
        bound={"quick": "11 hand-written shapes (all entity kinds, empty rule/outline/examples, @setup/@teardown on "
                        "scenario, outline, examples) x 2 layouts + 6 random documents; for each EVERY line in "
                        "{bare name, 0..last+3, 10^6}",
               "thorough": "11 hand-written shapes x 6 layouts + 150 random documents (seeded); for each EVERY line "
                           "in {bare name, 0..last+3, 10^6}"},
        run=run_every_line, replay=replay_every_line,
        contract="forall doc, line: {s in parse_features([FileLocation(doc, line)])[0].walk_scenarios() | not "
                 "s.should_skip} == writer.select(line) U {@setup/@teardown scenarios}; select = scenarios of the "
                 "entity whose keyword/row line is the greatest one <= line, all for line 0/None/above the feature"),
    BoundedCheck(
        "multi-location-one-file",
        bound={"quick": "2 documents: all ordered pairs over every line 0..last+1 of the first, pairs over the reduced "
                        "line set (entity lines +-1, 0, last+1) of the second; multisets of 3 over the reduced set "
                        "(all, or 400 sampled per document), order shuffled; bare-name mixes",
               "thorough": "18 documents (6 shapes x 2 layouts + 6 random): all ordered pairs over every line for 8, "
                           "over the reduced line set for the rest; multisets of 3 over the reduced set (all, or 1500 "
                           "sampled per document), order shuffled; bare-name mixes"},
        run=run_multi_location, replay=replay_multi_location,
        contract="consecutive locations f:l1..f:lk (k<=3) of one file give ONE feature whose not-skipped scenarios are "
                 "the union of the single selections (+ @setup/@teardown); any bare/0 location selects all"),
    BoundedCheck(
        "multi-file-and-listfile",
        bound={"quick": "3 files in nested directories; 3 fixed + 60 random location lists (2..6 locations, grouped per "
                        "file), each passed directly as FileLocation objects, via @listfile (absolute name) and via "
                        "@listfile relative to cwd; list lines in 5 spellings (../rel, ./../rel, up-down, absolute, "
                        "trailing blanks), optional comments/blank lines",
               "thorough": "same with 600 random location lists"},
        run=run_multi_file, replay=replay_multi_file,
        contract="collect_feature_locations(['@list']) == the written (file, line) sequence (files compared by real "
                 "path); parse_features(locations) == one feature per consecutive run of a file, each with the union "
                 "selection of its run"),
    BoundedCheck(
        "nonconsecutive-same-file",
        bound={"quick": "1 fixed + 40 random location lists in which a file re-appears after another file",
               "thorough": "1 fixed + 400 random such lists"},
        run=run_nonconsecutive, replay=replay_multi_file,
        contract="OBSERVATION (DESIGN 5.10 reading): a file that re-appears non-consecutively yields one Feature "
                 "object per consecutive run, each selecting only the union of its own run (not the union over the "
                 "whole list)"),
    BoundedCheck(
        "same-file-two-spellings",
        bound={"quick": "one file, one pair of entity lines, 6 spelling pairs (3 equal-spelling controls; relative vs "
                        "./relative both orders; relative vs absolute) given as command-line paths "
                        "(collect_feature_locations + parse_features, cwd = project dir)",
               "thorough": "same 6 cases"},
        run=run_two_spellings, replay=replay_two_spellings,
        contract="two consecutive locations that name the same file (by any spelling) give one feature with the "
                 "union of both selections"),
    BoundedCheck(
        "file-location-parser",
        bound={"quick": "20 hand-picked strings + all strings of length <= 6 over {a : 1 space backslash .} (55,987)",
               "thorough": "20 hand-picked strings + all strings of length <= 8 over {a : 1 space backslash .} "
                           "(2,015,539)"},
        run=run_flp, replay=replay_flp,
        contract="FileLocationParser.parse(t) == (head.strip(), int(tail)) when t.strip() = head ':' tail with tail "
                 "non-empty and all digits (split at the LAST ':'), else (t.strip(), None)"),
    BoundedCheck(
        "listfile-parse",
        bound={"quick": "all sequences of <= 2 lines over 17 line forms (blank, blank-with-spaces, comment, indented "
                        "comment, relative/./../absolute paths with and without :line, trailing blanks) + all pairs "
                        "with CRLF and without final newline",
               "thorough": "all sequences of <= 3 lines over the 17 line forms (5,220) + all pairs with CRLF and "
                           "without final newline"},
        run=run_lfp, replay=replay_lfp,
        contract="FeatureListParser.parse(text, here) == [(here-relative file resolved, line)] for the non-blank, "
                 "non-comment lines in order"),
    BoundedCheck(
        "listfile-leading-whitespace",
        bound={"quick": "5 path lines that start with blanks/tab (relative, ../, absolute, with :line), each alone",
               "thorough": "same 5 cases"},
        run=run_lfp_indented, replay=replay_lfp,
        contract="as listfile-parse: leading blanks of a path line are not part of the file name"),
    BoundedCheck(
        "name-select",
        bound={"quick": "one document (13 scenarios incl. 5 outline rows, duplicate names, names with regex "
                        "metacharacters, inside/outside a rule); patterns = 12 distinct scenario names + 20 regex "
                        "fragments: all 32 single patterns, 150 sampled ordered pairs; real run each",
               "thorough": "same document: all 32 singles, all 992 ordered pairs, 300 sampled triples, singles again "
                           "on the full layout; real run each"},
        run=run_name_select, replay=replay_name_select,
        contract="Configuration(['--name', p1, ...]) + ModelRunner.run(): the scenarios whose steps execute (and that "
                 "get before_scenario) are exactly, in order, those with any(re.search(p, name)); all others end "
                 "skipped"),
    BoundedCheck(
        "name-select-independent-patterns",
        bound={"quick": "9 fixed pattern lists over patterns with capture groups / back-references / a global inline "
                        "flag: 4 singles, 2 pairs with the sensitive pattern first, 3 pairs with it second",
               "thorough": "same 9 cases"},
        run=run_name_independent, replay=replay_name_select,
        contract="as name-select: every pattern is matched on its own (a group number or inline flag of one pattern "
                 "does not depend on the other patterns)"),
]
