# -*- coding: utf-8 -*-
"""
harness.bounded -- runner for the *bounded stand-ins* of a property (kind B in
DESIGN.md): run-time contracts on the real behave code over an enumerated input
space with a stated bound.  Never counted as proved.

    /venv/bin/python -m harness.bounded <Cxx> [--tier quick|thorough] [--seed N]
                                        [--only NAME] [--case JSON]

A property module ``harness/b_<cxx>.py`` exposes

    CHECKS = [BoundedCheck(name, bound={"quick": "...", "thorough": "..."}, run=func), ...]

where ``func(tier, rng)`` yields ``(case, ok, detail)``: `case` is a
JSON-serialisable description from which ``func.replay(case)`` (optional; default:
re-run the generator and pick the equal case) reproduces the check; ``ok`` is the
verdict of the run-time contract on the real code; ``detail`` says what was
observed.  Output: one JSON object on the last line of stdout.
"""
from __future__ import print_function
import importlib
import json
import re
import os
import random
import sys
import time
import traceback

REPO = os.environ.get("VERIF_REPO", "/repo")
if REPO not in sys.path:
    sys.path.insert(0, REPO)
HERE = os.path.dirname(os.path.dirname(os.path.abspath(__file__)))
if HERE not in sys.path:
    sys.path.insert(0, HERE)


class BoundedCheck(object):
    def __init__(self, name, bound, run, replay=None, contract=""):
        self.name = name
        self.bound = bound          # {"quick": text, "thorough": text}
        self.run = run
        self.replay = replay
        self.contract = contract    # the run-time contract in words / contract language


def main(argv):
    import argparse
    ap = argparse.ArgumentParser()
    ap.add_argument("prop")
    ap.add_argument("--tier", default="quick")
    ap.add_argument("--seed", type=int, default=0)
    ap.add_argument("--only", default=None)
    ap.add_argument("--case", default=None)
    ap.add_argument("--max-fail", type=int, default=3)
    ap.add_argument("--known", default=None, help="JSON {check name: [case, ...]} of listed known findings")
    args = ap.parse_args(argv)
    known = json.loads(args.known) if args.known else {}
    mod = importlib.import_module("harness.b_%s" % args.prop.lower())
    out = {"property": args.prop, "checks": []}
    for chk in mod.CHECKS:
        if args.only and chk.name != args.only:
            continue
        rec = {"name": chk.name, "bound": chk.bound.get(args.tier, chk.bound.get("quick", "")),
               "contract": chk.contract, "evaluations": 0, "distinct": 0, "failures": [], "error": None,
               "known_failing": []}
        kents = known.get(chk.name, [])
        known_keys = set(json.dumps(c["case"] if isinstance(c, dict) and "case" in c and "region" in c else c,
                                    sort_keys=True, default=str) for c in kents)
        known_regions = [c["region"] for c in kents if isinstance(c, dict) and c.get("region")]

        def in_known(case, key, detail=""):
            if key in known_keys:
                return True
            for expr in known_regions:
                try:
                    if eval(expr, {"json": json, "re": re, "case": case, "detail": str(detail),
                                   "text": json.dumps(case, sort_keys=True, default=str)}):
                        return True
                except Exception:
                    pass
            return False
        t0 = time.time()
        rng = random.Random(args.seed)
        seen = set()
        try:
            if args.case is not None:
                want = json.loads(args.case)
                if chk.replay is not None:
                    it = [chk.replay(want)]
                else:
                    it = (x for x in chk.run("thorough", rng) if x[0] == want)
            else:
                it = chk.run(args.tier, rng)
            for case, ok, detail in it:
                rec["evaluations"] += 1
                key = json.dumps(case, sort_keys=True, default=str)
                if key not in seen:
                    seen.add(key)
                    rec["distinct"] += 1
                if not ok and in_known(case, key, detail):
                    if case not in rec["known_failing"]:
                        rec["known_failing"].append(case)
                    continue
                if not ok:
                    rec["failures"].append({"case": case, "detail": str(detail)[:2000]})
                    if len(rec["failures"]) >= args.max_fail:
                        break
                if args.case is not None:
                    break
        except Exception:
            rec["error"] = traceback.format_exc()[-2000:]
        rec["wall_s"] = round(time.time() - t0, 3)
        out["checks"].append(rec)
    print(json.dumps(out, default=str))
    return 0


if __name__ == "__main__":
    sys.exit(main(sys.argv[1:]))
