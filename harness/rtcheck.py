# -*- coding: utf-8 -*-
"""
harness.rtcheck -- bounded stand-in and replay: evaluates the *same contract
text* the prover uses, at run time, on the real behave functions, over
enumerated concrete inputs (runs under /venv/bin/python, behave imported from
/repo's working tree).

    /venv/bin/python -m harness.rtcheck <fid> [--clauses a,b] [--tier quick|thorough]
                                        [--seed N] [--case JSON] [--max-fail N]

Prints one JSON object: {fid, evaluations, distinct, failures:[{clause, case, detail}], bound}.
Never counted as proof; see DESIGN.md section 1 (kind B).
"""
from __future__ import print_function
import ast
import itertools
import json
import os
import random
import sys
import time

REPO = os.environ.get("VERIF_REPO", "/repo")
if REPO not in sys.path:
    sys.path.insert(0, REPO)
HERE = os.path.dirname(os.path.dirname(os.path.abspath(__file__)))
if HERE not in sys.path:
    sys.path.insert(0, HERE)

from pyvc import contracts as C      # noqa: E402  (no z3 needed)
import contracts as sidecar         # noqa: E402


class Vacuous(Exception):
    pass


QDOMAIN = [16]


def _forall(f):
    for k in range(-1, QDOMAIN[0] + 1):
        try:
            if not f(k):
                return False
        except (IndexError, KeyError, AttributeError, TypeError):
            continue
    return True


def _exists(f):
    for k in range(-1, QDOMAIN[0] + 1):
        try:
            if f(k):
                return True
        except (IndexError, KeyError, AttributeError, TypeError):
            continue
    return False


class _Lazy(object):
    """implies(a, b) must not evaluate b when a is false: contract text is
    rewritten so that both arguments are lambdas (see rewrite())."""


def _implies(a, b):
    return (not a()) or bool(b())


def _iff(a, b):
    return bool(a()) == bool(b())


def _ite(c, a, b):
    return a() if c() else b()


class Rewriter(ast.NodeTransformer):
    """implies(a,b) -> implies(lambda: a, lambda: b); old(e) -> __old__[i]"""

    def __init__(self):
        self.olds = []

    def visit_Call(self, node):
        self.generic_visit(node)
        if isinstance(node.func, ast.Name):
            if node.func.id in ("implies", "iff", "ite"):
                node.args = [ast.Lambda(args=ast.arguments(posonlyargs=[], args=[], kwonlyargs=[],
                                                           kw_defaults=[], defaults=[]), body=a)
                             for a in node.args]
            elif node.func.id == "old":
                self.olds.append(node.args[0])
                return ast.Subscript(value=ast.Name(id="__old__", ctx=ast.Load()),
                                     slice=ast.Constant(len(self.olds) - 1), ctx=ast.Load())
        return node


_compiled = {}


def compile_clause(text):
    if text not in _compiled:
        tree = ast.parse(text.strip(), mode="eval")
        rw = Rewriter()
        tree = ast.fix_missing_locations(rw.visit(tree))
        code = compile(tree, "<contract>", "eval")
        olds = [compile(ast.fix_missing_locations(ast.Expression(o)), "<old>", "eval") for o in rw.olds]
        _compiled[text] = (code, olds)
    return _compiled[text]


def base_env():
    import behave.model_core as mc
    import behave.model as model
    env = {
        "forall": _forall, "exists": _exists, "implies": _implies, "iff": _iff, "ite": _ite,
        "Status": mc.Status, "len": len,
        "as_list": lambda x, t=None: list(x), "as_ref": lambda x, t=None: x,
        "is_none": lambda x: x is None,
        "typeof_is": lambda x, name: any(k.__name__ == name for k in type(x).__mro__),
        "exact_type": lambda x, name: type(x).__name__ == name,
        "child_status": lambda x: x.status,
        "all_steps_of": lambda s: list(s.all_steps),
    }
    env.update(RT_SPECFUNS)
    return env


RT_SPECFUNS = {}
GENS = {}


def gen(fid):
    def deco(f):
        GENS[fid] = f
        return f
    return deco


def rtspec(name):
    def deco(f):
        RT_SPECFUNS[name] = f
        return f
    return deco


class Case(object):
    """One concrete call: `call()` performs it on freshly built real objects and
    returns the result; `env` are the contract's parameter bindings; `desc` is a
    JSON-serialisable description from which the case can be rebuilt."""

    def __init__(self, desc, env, call, nontrivial=True):
        self.desc = desc
        self.env = env
        self.call = call
        self.nontrivial = nontrivial


def run_case(c, case, clauses=None, regions=None):
    """-> list of (label, detail) violated."""
    env = base_env()
    env.update(case.env)
    # preconditions: skip cases outside the contract
    for label, text in c.requires:
        code, olds = compile_clause(text)
        try:
            if not eval(code, env):
                return None
        except Exception:
            return None
    pre = {}
    for label, text in c.ensures:
        code, olds = compile_clause(text)
        vals = []
        for o in olds:
            try:
                vals.append(eval(o, env))
            except Exception as e:
                vals.append(e)
        pre[label] = vals
    region_hit = set()
    for rlabel, rtext in (regions or []):
        code, olds = compile_clause(rtext)
        try:
            if eval(code, env):
                region_hit.add(rlabel)
        except Exception:
            pass
    exc = None
    try:
        result = case.call()
    except BaseException as e:      # noqa
        result = None
        exc = e
    out = []
    if exc is not None:
        allowed = [r.exc for r in c.raises] + list(c.allow_raises or [])
        names = [k.__name__ for k in type(exc).__mro__]
        if not any(a in names for a in allowed):
            out.append(("raises-only.declared", "raised %s: %s" % (type(exc).__name__, exc)))
        return [(l, d) for l, d in out if (clauses is None or l in clauses) and l not in region_hit]
    env["result"] = result
    for label, text in c.ensures:
        if clauses is not None and label not in clauses:
            continue
        if label in region_hit:
            continue
        code, olds = compile_clause(text)
        env["__old__"] = pre[label]
        try:
            ok = eval(code, env)
        except Exception as e:
            ok = False
            out.append((label, "clause raised %s: %s" % (type(e).__name__, e)))
            continue
        if not ok:
            out.append((label, "result=%r" % (result,)))
    return out


def main(argv):
    import argparse
    ap = argparse.ArgumentParser()
    ap.add_argument("fid")
    ap.add_argument("--clauses", default=None)
    ap.add_argument("--tier", default="quick")
    ap.add_argument("--seed", type=int, default=0)
    ap.add_argument("--case", default=None)
    ap.add_argument("--max-fail", type=int, default=3)
    ap.add_argument("--regions", default=None, help="JSON {clause: [region text,...]}")
    args = ap.parse_args(argv)
    sidecar.load_all()
    from harness import gens   # noqa: F401  (registers generators)
    c = C.REG[args.fid]
    clauses = set(args.clauses.split(",")) if args.clauses else None
    regions = json.loads(args.regions) if args.regions else {}
    g = GENS.get(args.fid)
    out = {"fid": args.fid, "evaluations": 0, "distinct": 0, "failures": [], "bound": None,
           "skipped_pre": 0}
    if g is None:
        out["bound"] = "no generator"
        print(json.dumps(out))
        return 0
    rng = random.Random(args.seed)
    t0 = time.time()
    seen = set()
    if args.case:
        cases = [g.rebuild(json.loads(args.case))]
    else:
        cases = g(args.tier, rng)
    out["bound"] = getattr(g, "bound", {}).get(args.tier, "")
    for case in cases:
        key = json.dumps(case.desc, sort_keys=True)
        # regions are per clause: a case inside the region of clause X is still checked for the others
        reg = [(cl, r) for cl, rs in regions.items() for r in rs]
        res = run_case(c, case, clauses, reg)
        if res is None:
            out["skipped_pre"] += 1
            continue
        out["evaluations"] += 1
        if key not in seen:
            seen.add(key)
            if case.nontrivial:
                out["distinct"] += 1
        for label, detail in res:
            if len(out["failures"]) < args.max_fail:
                out["failures"].append({"clause": label, "case": case.desc, "detail": detail})
        if len(out["failures"]) >= args.max_fail:
            break
    out["wall_s"] = round(time.time() - t0, 3)
    print(json.dumps(out))
    return 0


if __name__ == "__main__":
    from harness import rtcheck as _self      # one module instance (generators register there)
    sys.exit(_self.main(sys.argv[1:]))
