# -*- coding: utf-8 -*-
"""
harness.b_c02 -- bounded stand-ins (kind B) for C02, "Step execution: order,
outcome-to-status mapping, stop after first non-pass" (DESIGN.md 5.2).

Real runs (harness.runs_common.run2): abstract tree -> Gherkin text -> parse_feature ->
ModelRunner.run(); the step functions append (scenario, step id) to a call log.

Oracle (harness.runs_common.Interp, from the property text):
  * step order of a scenario = feature-background steps, rule-background steps, own steps,
    each in document order; the call log is exactly the executed prefix in that order
    (undefined steps and steps whose argument conversion fails have no call);
  * status of an executed step: returned -> passed; AssertionError -> failed; any other
    exception, KeyboardInterrupt, type-conversion error -> error; StepNotImplementedError ->
    pending, or pending_warn (accepted, counts as passed) when "wip" is among the effective
    tags; no definition -> undefined; a step that skips its scenario -> skipped;
  * after the first step that does not pass no further step function is called; the rest is
    skipped, or undefined when it has no definition; after a skip-scenario step the rest is
    skipped; with Scenario.continue_after_failed_step every step is executed and mapped
    ("first" replaced by "every"; a skip-scenario step still ends the scenario);
  * --dry-run: no call at all and no step carries an "executed" status;
  * a second ModelRunner.run() over the same model: statuses and calls depend only on
    what the step functions did in the second run.
"""
from __future__ import print_function
import itertools

from harness.runs_common import (BoundedCheck, OUTCOMES8, EXECUTED_STATUSES, Interp, run2, flag_args,
                                 observe, calls2, compare_steps, step, scenario, outline, rule,
                                 feature, short)

SHAPES = ("own", "row", "fbg", "rbg", "fbg+rbg", "row+fbg+rbg")


def build(shape, seq, wip):
    """Scenario (or outline row) whose complete step sequence has the outcomes `seq`."""
    wt = ["wip"] if wip else []
    st = [step("s%d" % i, o) for i, o in enumerate(seq)]
    if shape == "own":
        return [feature("F", [scenario("S", st, wt)])]
    if shape == "row":
        rs = [step("s%d_<n>" % i, o) for i, o in enumerate(seq)]
        return [feature("F", [outline("O", rs, [{"name": "E", "tags": [], "headings": ["n"],
                                                 "rows": [["r"]]}], wt)])]
    if shape == "fbg":
        assert len(seq) >= 2
        return [feature("F", [scenario("S", st[1:], wt)], background=st[:1])]
    if shape == "rbg":
        assert len(seq) >= 2
        return [feature("F", [rule("R", [scenario("S", st[1:])], wt, background=st[:1])])]
    if shape == "fbg+rbg":
        assert len(seq) >= 3
        return [feature("F", [rule("R", [scenario("S", st[2:])], background=st[1:2])], wt,
                        background=st[:1])]
    if shape == "row+fbg+rbg":
        assert len(seq) >= 3
        rs = [step("s%d_<n>" % i, o) for i, o in enumerate(seq)][2:]
        return [feature("F", [rule("R", [outline("O", rs, [{"name": "E", "tags": [], "headings": ["n"],
                                                            "rows": [["r"]]}], wt)],
                                   background=st[1:2])], background=st[:1])]
    raise ValueError(shape)


MIN_LEN = {"own": 1, "row": 1, "fbg": 2, "rbg": 2, "fbg+rbg": 3, "row+fbg+rbg": 3}


def eval_steps(case):
    """case: shape, seq, wip, dry_run, cafs"""
    trees = build(case["shape"], case["seq"], case.get("wip"))
    dry, cafs = bool(case.get("dry_run")), bool(case.get("cafs"))
    ip = Interp(trees, None, False, dry, cafs=cafs).run()
    obs = run2(trees, flag_args(False, dry), cafs=cafs, hooks=False)
    problems = []
    if obs.exception is not None:
        problems.append("exception escaped run(): %r" % (obs.exception,))
    got_calls = calls2(obs.rec)
    if got_calls != ip.calls:
        problems.append("call log %r, expected %r" % (got_calls, ip.calls))
    if any(len(c) > 2 and c[2] == "CONV-CALLED" for c in obs.rec.calls):
        problems.append("step function called although its argument conversion failed")
    try:
        seen = observe(obs.features, ip)
        problems += compare_steps(ip, seen)
        if dry:
            for k, v in seen.items():
                for i, s in enumerate(v["steps"] or []):
                    if s in EXECUTED_STATUSES:
                        problems.append("dry-run: step %d has status %s" % (i, s))
    except ValueError as e:
        problems.append(str(e))
    ok = not problems
    detail = "calls=%r statuses ok" % (got_calls,) if ok else \
        "; ".join(problems[:5]) + "\n" + short("\n".join(obs.texts), 1200)
    return case, ok, detail


FLAGS_ALL = [(w, d, c) for w in (False, True) for d in (False, True) for c in (False, True)]
FLAGS_5 = [(False, False, False), (True, False, False), (False, True, False), (False, False, True),
           (True, False, True)]


def _seqs(alphabet, lo, hi):
    for n in range(lo, hi + 1):
        for s in itertools.product(alphabet, repeat=n):
            yield list(s)


def run_steps(tier, rng):
    top = 3 if tier == "quick" else 4
    i = 0
    for shape in SHAPES:
        for seq in _seqs(OUTCOMES8, MIN_LEN[shape], top):
            if shape in ("own", "row"):
                flags = FLAGS_5 if tier == "quick" else FLAGS_ALL
            elif tier == "quick":
                flags = [(False, False, False), FLAGS_5[1 + i % 4]]
            else:
                flags = [(False, False, False), FLAGS_ALL[1 + i % 7]]
            i += 1
            for wip, dry, cafs in flags:
                yield eval_steps({"shape": shape, "seq": seq, "wip": wip, "dry_run": dry, "cafs": cafs})
    if tier != "quick":
        for _ in range(3000):
            n = rng.randint(5, 8)
            seq = [rng.choice(OUTCOMES8 + ("pass", "pass", "pass")) for _ in range(n)]
            shape = rng.choice(SHAPES)
            wip, dry, cafs = rng.choice(FLAGS_ALL)
            yield eval_steps({"shape": shape, "seq": seq, "wip": wip, "dry_run": dry, "cafs": cafs})


# -----------------------------------------------------------------------------
# async step functions
# -----------------------------------------------------------------------------
ASYNC = ("async_pass", "async_fail", "async_error", "async_pending", "async_skip", "async_kbi",
         "asynct_pass", "asynct_fail", "asynct_error", "asynct_pending", "asynct_skip")


def run_async(tier, rng):
    alphabet = ASYNC + ("pass", "undefined")
    top = 2 if tier == "quick" else 3
    i = 0
    for seq in _seqs(alphabet, 1, top):
        if not any(o.startswith("async") for o in seq):
            continue
        flags = [FLAGS_5[i % 5]] if tier == "quick" else FLAGS_5
        i += 1
        for wip, dry, cafs in flags:
            shape = "own" if len(seq) < 3 or i % 2 else "fbg+rbg"
            yield eval_steps({"shape": shape, "seq": seq, "wip": wip, "dry_run": dry, "cafs": cafs})


# -----------------------------------------------------------------------------
# repeated runs of the same scenario object
# -----------------------------------------------------------------------------
DYN = ("pass", "fail", "error", "pending", "kbi")


def rerun_tree(n, static, bg, wip):
    """n steps; all defined steps are written 'pass' in the text, their behaviour comes from
    a table consulted by the step function; static[i] == 'undefined' makes step i undefined."""
    st = [step("s%d" % i, "undefined" if static[i] == "undefined" else "pass") for i in range(n)]
    wt = ["wip"] if wip else []
    if bg and n >= 2:
        return [feature("F", [scenario("S", st[1:], wt)], background=st[:1])]
    return [feature("F", [scenario("S", st, wt)])]


def eval_rerun(case):
    """case: seq1, seq2 (outcomes per step for run 1 / run 2; 'undefined' must be at the same
    positions in both), bg, wip"""
    from harness.runs_common import act
    seq1, seq2 = case["seq1"], case["seq2"]
    n = len(seq1)
    trees = rerun_tree(n, seq1, case.get("bg"), case.get("wip"))
    t1 = dict(("s%d" % i, o) for i, o in enumerate(seq1) if o != "undefined")
    t2 = dict(("s%d" % i, o) for i, o in enumerate(seq2) if o != "undefined")
    table = dict(t1)

    def on_step(context, sid, outcome):
        act(context, sid, table[sid])

    def second(obs):
        table.clear()
        table.update(t2)
    ip1 = Interp(trees, table=t1).run()
    ip2 = Interp(trees, table=t2).run()
    obs = run2(trees, flag_args(), on_step=on_step, second_run=second, hooks=False)
    problems = []
    if obs.exception is not None or obs.exception2 is not None:
        problems.append("exception escaped run(): %r / %r" % (obs.exception, obs.exception2))
    c1 = calls2(obs.rec, 0, obs.first["calls"])
    c2 = calls2(obs.rec, obs.first["calls"])
    if c1 != ip1.calls:
        problems.append("run 1 call log %r, expected %r" % (c1, ip1.calls))
    if c2 != ip2.calls:
        problems.append("run 2 call log %r, expected %r" % (c2, ip2.calls))
    try:
        for tag, ip, raw in (("run 1", ip1, obs.first_status), ("run 2", ip2, None)):
            seen = observe(obs.features, ip, raw=raw)
            problems += ["%s: %s" % (tag, p) for p in compare_steps(ip, seen)]
    except ValueError as e:
        problems.append(str(e))
    if bool(obs.failed) != ip1.bad:
        problems.append("run 1 verdict %r, expected %r" % (obs.failed, ip1.bad))
    if obs.exception2 is None and bool(obs.failed2) != ip2.bad:
        problems.append("run 2 verdict %r, expected %r" % (obs.failed2, ip2.bad))
    ok = not problems
    detail = "run1 calls=%r run2 calls=%r" % (c1, c2) if ok else \
        "; ".join(problems[:5]) + "\n" + short("\n".join(obs.texts), 800)
    return case, ok, detail


def run_rerun(tier, rng):
    n = 2 if tier == "quick" else 3
    first = [list(s) for s in itertools.product(DYN, repeat=n)]
    second = [list(s) for s in itertools.product(DYN + ("skip",), repeat=n)]
    i = 0
    for s1 in first:
        for s2 in second:
            i += 1
            yield eval_rerun({"seq1": s1, "seq2": s2, "bg": i % 2 == 0, "wip": i % 3 == 0})
    # an undefined step at a fixed position
    for pos in range(n):
        for s1 in first:
            for s2 in second[:: (3 if tier != "quick" else 5)]:
                a, b = list(s1), list(s2)
                a[pos] = b[pos] = "undefined"
                yield eval_rerun({"seq1": a, "seq2": b, "bg": False, "wip": False})


RERUN_AFTER_SKIP = [
    {"seq1": ["skip"], "seq2": ["pass"], "bg": False, "wip": False},
    {"seq1": ["skip"], "seq2": ["fail"], "bg": False, "wip": False},
    {"seq1": ["pass", "skip"], "seq2": ["pass", "pass"], "bg": False, "wip": False},
    {"seq1": ["pass", "skip"], "seq2": ["pass", "error"], "bg": True, "wip": False},
]


def run_rerun_after_skip(tier, rng):
    for case in RERUN_AFTER_SKIP:
        yield eval_rerun(case)


_SHAPES_TXT = ("one scenario whose complete step sequence (feature background ++ rule background ++ own steps) "
               "carries the outcome sequence; shapes: own (plain scenario), row (outline row), fbg (first step in the "
               "feature background), rbg (first step in a rule background), fbg+rbg (first / second step), "
               "row+fbg+rbg (outline row inside a rule, both backgrounds); outcomes {pass, fail, error, pending, "
               "undefined, skip, kbi, conv = raising type converter}; flags (wip, dry-run, "
               "continue_after_failed_step); ")

CHECKS = [
    BoundedCheck(
        "step-sequences",
        bound={"quick": _SHAPES_TXT + "exhaustive: all sequences of length <= 3 (584; fewer for shapes that need 2 or "
                                      "3 steps) per shape; shapes own and row x 5 flag sets {none, wip, dry-run, cafs, "
                                      "wip+cafs}; the other 4 shapes x {no flag, one of the other 4 sets rotating with "
                                      "the sequence index}",
               "thorough": _SHAPES_TXT + "exhaustive: all sequences of length <= 4 (4680) per shape; shapes own and row x all "
                                         "8 flag sets; other shapes x {no flag, one of the 7 other sets rotating}; plus "
                                         "3000 random sequences of length 5..8 (pass weighted 4/11) with random shape "
                                         "and flags"},
        run=run_steps, replay=eval_steps,
        contract="call log == executed prefix in the order feature-bg, rule-bg, own; every step status is the one "
                 "the mapping gives for what its function did; after the first non-pass nothing is called and the "
                 "rest is skipped (undefined without definition; all skipped after a skip-scenario step); dry-run "
                 "calls nothing and leaves no executed status; nothing escapes run()"),
    BoundedCheck(
        "async-steps",
        bound={"quick": "sequences of length <= 2 over {async_pass, async_fail, async_error, async_pending, "
                        "async_skip, async_kbi, asynct_pass, asynct_fail, asynct_error, asynct_pending, asynct_skip, pass, "
                        "undefined} containing at least one async step (step functions decorated with "
                        "behave.api.async_step.async_run_until_complete; asynct_* = with timeout=30, the "
                        "asyncio.wait branch), shape own, one of 5 flag "
                        "sets rotating; exhaustive",
               "thorough": "as quick with length <= 3 (shape own or fbg+rbg alternating) x all 5 flag sets "
                           "{none, wip, dry-run, cafs, wip+cafs}"},
        run=run_async, replay=eval_steps,
        contract="as step-sequences, for async step functions"),
    BoundedCheck(
        "rerun",
        bound={"quick": "one scenario of 2 steps (feature background on/off and @wip rotating); the step functions "
                        "read their behaviour from a table; run 1 = all 25 sequences over {pass, fail, error, pending, "
                        "kbi}, run 2 (second ModelRunner.run() on the same runner and model) = all 36 sequences over "
                        "those + skip; plus one step undefined at each position (run 2 every 5th sequence); "
                        "exhaustive.  Runs whose first run contains a skip-scenario step are in rerun-after-skip",
               "thorough": "as quick with 3 steps: 125 x 216 pairs, plus one undefined position x (all run-1 sequences x every 3rd run-2 sequence)"},
        run=run_rerun, replay=eval_rerun,
        contract="statuses, call log and verdict of the second run are those the interpreter gives for the second "
                 "table alone (and those of the first run for the first table)"),
    BoundedCheck(
        "rerun-after-skip",
        bound={"quick": "4 fixed pairs where a step of run 1 skips its scenario and run 2 would pass/fail/raise",
               "thorough": "as quick"},
        run=run_rerun_after_skip, replay=eval_rerun,
        contract="as rerun"),
]
