# -*- coding: utf-8 -*-
"""
harness.b_c20 -- bounded stand-ins (kind B) for property C20:
"Configuration precedence: command line over config file over defaults; userdata"
(behave/configuration.py, behave/userdata.py).

Real ``Configuration(command_args, load_config=True)`` objects are built *in-process*
in a fresh scratch tree under /var/tmp (one per case, removed in ``finally``):

    <root>/home            $HOME for the case (the real home is never read)
    <root>/home/work       current working directory for the case

cwd, os.environ and the process-wide state that Configuration.__init__ touches
(ScenarioOutline.annotation_schema, TagExpressionProtocol.current()) are restored
after every case.

Oracle: the tables of this module (option census with defaults, command-line
flags and value types, hand-written from docs/behave.rst), a small model of the
command line, of the ini/toml value types ("text", "bool", "sequence<text>") and of
the rule ``value == cmdline if given else file if given else default``.
No behave function is used to compute an expected value.
"""
from __future__ import print_function
import contextlib
import io
import itertools
import json
import os
import shutil
import tempfile

_ENV_COLOR_AT_IMPORT = os.environ.get("BEHAVE_COLOR", "auto")   # docs: "--color ... (default: auto)", env override

from harness.bounded import BoundedCheck          # noqa: E402 (sets sys.path to $VERIF_REPO)

from behave import configuration as _cfgmod       # noqa: E402
from behave.configuration import Configuration    # noqa: E402
from behave.model import ScenarioOutline           # noqa: E402
from behave.tag_expression import TagExpressionProtocol   # noqa: E402
from behave import userdata as _udmod              # noqa: E402
from behave.userdata import UserData               # noqa: E402


# =============================================================================
# SPEC TABLES (from docs/behave.rst: "Command-Line Arguments", "Configuration Parameters")
# =============================================================================
# -- bool options: dest -> (default, positive flags, negative flags)
BOOL_OPTIONS = {
    "dry_run": (False, ["--dry-run", "-d"], []),
    "junit": (False, ["--junit"], ["--no-junit"]),
    "steps_catalog": (False, ["--steps-catalog"], []),
    "show_skipped": (True, ["--show-skipped"], ["--no-skipped"]),
    "show_snippets": (True, ["--snippets"], ["--no-snippets"]),
    "show_multiline": (True, ["--multiline"], ["--no-multiline"]),
    "stdout_capture": (True, ["--capture"], ["--no-capture"]),
    "stderr_capture": (True, ["--capture-stderr"], ["--no-capture-stderr"]),
    "log_capture": (True, ["--logcapture"], ["--no-logcapture"]),
    "logging_clear_handlers": (False, ["--logging-clear-handlers"], []),
    "summary": (True, ["--summary"], ["--no-summary"]),
    "quiet": (False, ["--quiet", "-q"], []),
    "show_source": (True, ["--show-source"], ["--no-source"]),
    "stop": (False, ["--stop"], []),
    "show_timings": (True, ["--show-timings"], ["--no-timings", "-T"]),
    "verbose": (False, ["--verbose", "-v"], []),
    "wip": (False, ["--wip", "-w"], []),
}

LOG_LEVELS = {"NOTSET": 0, "DEBUG": 10, "INFO": 20, "WARN": 30, "WARNING": 30, "ERROR": 40,
              "CRITICAL": 50, "FATAL": 50}

# -- scalar options: dest -> (type, default, flags, [file texts], [cmdline texts])
#    type: text | int | loglevel | regex | proto
SCALAR_OPTIONS = {
    "color": ("text", _ENV_COLOR_AT_IMPORT, ["--color"], ["on", "never"], ["always", "off"]),
    "exclude_re": ("regex", None, ["--exclude", "-e"], ["foo.*", "x|y"], ["ba[rz]"]),
    "include_re": ("regex", None, ["--include", "-i"], ["alice", "a.c"], ["bob$"]),
    "junit_directory": ("text", "reports", ["--junit-directory"], ["rep1", "out/junit"], ["rep2"]),
    "jobs": ("int", 1, ["--jobs", "-j", "--parallel"], ["4", "0"], ["3"]),
    "default_format": ("text", "pretty", [], ["plain", "progress"], []),
    "scenario_outline_annotation_schema": (
        "text", "{name} -- @{row.id} {examples.name}", [], ["{name} / {row.id}", "{name}"], []),
    "logging_level": ("loglevel", 20, ["--logging-level"], ["DEBUG", "error"], ["WARNING"]),
    "logging_format": ("text", "%(levelname)s:%(name)s:%(message)s", ["--logging-format"],
                       ["%(name)s|%(message)s", "plain text"], ["LVL %(message)s"]),
    "logging_datefmt": ("text", None, ["--logging-datefmt"], ["%H:%M", "iso"], ["%S"]),
    "logging_filter": ("text", None, ["--logging-filter"], ["foo,-bar", "suds"], ["baz"]),
    "tag_expression_protocol": ("proto", "auto_detect", [], ["v1", "v2", "auto_detect", "V1"], []),
    "runner": ("text", "behave.runner:Runner", ["--runner", "-r"], ["my.runner:R1", "pkg:R0"], ["other:R2"]),
    "stage": ("text", None, ["--stage"], ["develop", "st1"], ["product"]),
    "lang": ("text", None, ["--lang"], ["de", "en"], ["fr"]),
}

# -- list options: dest -> (flags, file values, cmdline values, is_path)
LIST_OPTIONS = {
    "format": (["--format", "-f"], ["plain", "json"], ["progress"], False),
    "name": (["--name", "-n"], ["foo", "bar baz"], ["qux"], False),
    "outfiles": (["--outfile", "-o"], ["a.out", "sub/b.out"], ["c.out"], True),
    "paths": ([], ["feats", "more/feats"], ["cmdfeats"], True),          # command line: positional arguments
    "default_tags": ([], ["@d1", "not @d2"], [], False),
    "tags": (["--tags", "-t"], ["@a", "@b"], ["@c"], False),
}

ALL_DESTS = sorted(set(BOOL_OPTIONS) | set(SCALAR_OPTIONS) | set(LIST_OPTIONS))
FILE_TRUE = ["true", "yes", "on", "1"]
FILE_FALSE = ["false", "no", "off", "0"]
CONFIG_FILENAMES_INI = ["behave.ini", ".behaverc", "setup.cfg", "tox.ini"]

# -- documented modes (help texts of --wip, --steps-catalog, --quiet, --junit): fields they set
MODE_EFFECTS = {
    "wip": (dict(default_format="plain", stop=True, log_capture=False, stdout_capture=False),
            ["color", "tags"]),                    # asserted fields, additionally masked fields
    "steps_catalog": (dict(dry_run=True, summary=False, quiet=True, show_source=False, show_snippets=False),
                      ["default_format", "format", "show_skipped", "outfiles"]),
    "quiet": (dict(show_source=False, show_snippets=False), []),
    "junit": (dict(stdout_capture=True, stderr_capture=True, log_capture=True), []),
}


# =============================================================================
# SCRATCH TREE
# =============================================================================
class _Scratch(object):
    def __init__(self, root):
        self.root = os.path.realpath(root)
        self.home = os.path.join(self.root, "home")
        self.work = os.path.join(self.home, "work")

    def dir_of(self, loc):
        return {"cwd": self.work, "home": self.home}[loc]

    def label(self, path):
        """Canonical, tree-independent name of a path (relative ones are taken from cwd)."""
        if path is None:
            return None
        path = os.path.normpath(os.path.join(self.work, path))
        for name, prefix in (("<cwd>", self.work), ("<home>", self.home), ("<root>", self.root)):
            if path == prefix:
                return name
            if path.startswith(prefix + os.sep):
                return name + path[len(prefix):]
        return path


@contextlib.contextmanager
def _scratch():
    root = tempfile.mkdtemp(dir="/var/tmp", prefix="verif_c20_")
    saved_cwd = os.getcwd()
    saved_env = dict(os.environ)
    saved_schema = ScenarioOutline.annotation_schema
    saved_protocol = TagExpressionProtocol.current()
    saved_defaults = dict(Configuration.defaults)
    try:
        sc = _Scratch(root)
        os.makedirs(sc.work)
        os.environ["HOME"] = sc.home
        for name in ("BEHAVE_STAGE", "APPDATA", "USERPROFILE", "HOMEDRIVE", "HOMEPATH"):
            os.environ.pop(name, None)
        os.chdir(sc.work)
        yield sc
    finally:
        os.chdir(saved_cwd)
        os.environ.clear()
        os.environ.update(saved_env)
        ScenarioOutline.annotation_schema = saved_schema
        TagExpressionProtocol.use(saved_protocol)
        Configuration.defaults.clear()
        Configuration.defaults.update(saved_defaults)
        shutil.rmtree(root, ignore_errors=True)


def _render_ini(behave, userdata):
    lines = []
    if behave is not None:
        lines.append("[behave]")
        for dest in sorted(behave):
            value = behave[dest]
            if isinstance(value, list):
                lines.append("%s = %s" % (dest, "\n    ".join(value)))
            else:
                lines.append("%s = %s" % (dest, value))
    if userdata is not None:
        lines.append("[behave.userdata]")
        for name in sorted(userdata):
            lines.append("%s = %s" % (name, userdata[name]))
    return "\n".join(lines) + "\n"


def _render_toml(behave, userdata):
    lines = []
    if behave is not None:
        lines.append("[tool.behave]")
        for dest in sorted(behave):
            lines.append("%s = %s" % (dest, json.dumps(behave[dest])))
    if userdata is not None:
        lines.append("[tool.behave.userdata]")
        for name in sorted(userdata):
            lines.append("%s = %s" % (name, json.dumps(userdata[name])))
    return "\n".join(lines) + "\n"


def _write_files(sc, files):
    for spec in files:
        loc, filename = spec["at"].split(":", 1)
        render = _render_toml if filename.endswith(".toml") else _render_ini
        text = render(spec.get("behave"), spec.get("userdata"))
        with io.open(os.path.join(sc.dir_of(loc), filename), "w", encoding="utf-8") as f:
            f.write(text if isinstance(text, type(u"")) else text.decode("utf-8"))


# =============================================================================
# OBSERVATION
# =============================================================================
def _canon_list(value):
    if value is None or value == "":
        return []
    if isinstance(value, (list, tuple)):
        return list(value)
    return {"not-a-list": repr(value)}


def _observe(config, sc):
    obs = {}
    for dest in BOOL_OPTIONS:
        obs[dest] = getattr(config, dest, "<missing>")
    for dest, (kind, _d, _f, _fv, _cv) in SCALAR_OPTIONS.items():
        value = getattr(config, dest, "<missing>")
        if kind == "regex" and value is not None and hasattr(value, "pattern"):
            value = value.pattern
        elif kind == "proto":
            if isinstance(value, TagExpressionProtocol):
                value = value.name.lower()
            elif isinstance(value, str):
                value = value.lower()       # pyproject.toml leaves the name as text (accepted by .use())
        obs[dest] = value
    for dest, (_f, _fv, _cv, is_path) in LIST_OPTIONS.items():
        value = _canon_list(getattr(config, dest, "<missing>"))
        if is_path and isinstance(value, list):
            value = [sc.label(p) for p in value]
        obs[dest] = value
    obs["config_tags"] = _canon_list(config.config_tags)
    obs["outputs"] = [sc.label(o.name) for o in config.outputs]
    obs["steps_dir"] = config.steps_dir
    obs["environment_file"] = config.environment_file
    obs["userdata"] = dict(config.userdata)
    obs["userdata_type"] = type(config.userdata).__name__
    return obs


def _build(case):
    """Build the real Configuration for `case`; -> (observation dict, None) or (None, error text)."""
    with _scratch() as sc:
        _write_files(sc, case.get("files", []))
        out, err = io.StringIO(), io.StringIO()
        try:
            with contextlib.redirect_stdout(out), contextlib.redirect_stderr(err):
                config = Configuration(list(case.get("argv", [])), load_config=True)
                if case.get("update_userdata") is not None:
                    config.update_userdata(dict(case["update_userdata"]))
            return _observe(config, sc), None
        except SystemExit as e:
            return None, "SystemExit(%s): %s" % (e.code, err.getvalue().strip()[-300:])
        except Exception as e:      # pylint: disable=broad-except
            return None, "raised %s: %s" % (e.__class__.__name__, e)


# =============================================================================
# SPEC: command line and file models
# =============================================================================
def _flag_tables():
    bool_flags, value_flags = {}, {}
    for dest, (_d, pos, neg) in BOOL_OPTIONS.items():
        for f in pos:
            bool_flags[f] = (dest, True)
        for f in neg:
            bool_flags[f] = (dest, False)
    for dest, (_k, _d, flags, _fv, _cv) in SCALAR_OPTIONS.items():
        for f in flags:
            value_flags[f] = dest
    for dest, (flags, _fv, _cv, _p) in LIST_OPTIONS.items():
        for f in flags:
            value_flags[f] = dest
    value_flags["-D"] = value_flags["--define"] = "userdata_defines"
    return bool_flags, value_flags


_BOOL_FLAGS, _VALUE_FLAGS = _flag_tables()
_CONST_FLAGS = {"-C": ("color", "off"), "--no-color": ("color", "off")}


def _convert(dest, text, where):
    kind = SCALAR_OPTIONS[dest][0]
    if kind == "int":
        return int(text)
    if kind == "loglevel":
        return LOG_LEVELS[text.upper()]
    if kind == "proto":
        return text.lower()
    return text


def spec_cmdline(argv):
    """Model of the documented command line: dest -> value (lists accumulate, last scalar wins)."""
    given = {}
    i = 0
    while i < len(argv):
        tok = argv[i]
        i += 1
        value = None
        if tok.startswith("--") and "=" in tok:
            tok, value = tok.split("=", 1)
        if tok in _BOOL_FLAGS:
            dest, flag = _BOOL_FLAGS[tok]
            given[dest] = flag
        elif tok in _CONST_FLAGS:
            dest, const = _CONST_FLAGS[tok]
            given[dest] = const
        elif tok in _VALUE_FLAGS:
            dest = _VALUE_FLAGS[tok]
            if value is None:
                value = argv[i]
                i += 1
            if dest in LIST_OPTIONS or dest == "userdata_defines":
                given.setdefault(dest, []).append(value)
            else:
                given[dest] = _convert(dest, value, "cmdline")
        elif tok.startswith("-") and tok != "-":
            raise ValueError("spec_cmdline: unknown flag %r" % tok)
        else:
            given.setdefault("paths", []).append(tok)
    return given


def spec_file_values(files):
    """dest -> (value, location) for the [behave] / [tool.behave] assignments of the case's files."""
    given = {}
    for spec in files:
        loc = spec["at"].split(":", 1)[0]
        is_toml = spec["at"].endswith(".toml")
        for dest, raw in (spec.get("behave") or {}).items():
            if dest in given:
                raise ValueError("spec: %s assigned in two files (priority between files is not specified)" % dest)
            if dest in BOOL_OPTIONS:
                if is_toml:
                    value = bool(raw)
                elif raw.lower() in FILE_TRUE:
                    value = True
                elif raw.lower() in FILE_FALSE:
                    value = False
                else:
                    raise ValueError("spec: bad bool %r" % raw)
            elif dest in LIST_OPTIONS:
                value = [v.strip() for v in raw]
            else:
                value = _convert(dest, str(raw), "file")
            given[dest] = (value, loc)
    return given


def spec_file_userdata(files):
    data = {}
    for spec in files:
        for name, value in (spec.get("userdata") or {}).items():
            data[name] = value
    return data


def _unquote_pair(text):
    if len(text) >= 2 and text[0] == text[-1] and text[0] in "\"'":
        return text[1:-1]
    return text


def spec_parse_define(text):
    """Documented -D NAME=VALUE parsing: padding stripped, a surrounding pair of quotes stripped
    (around the whole definition and around the value), split at the first '=', bare name -> "true"."""
    text = _unquote_pair(text.strip())
    if "=" in text:
        name, value = text.split("=", 1)
        return (name.strip(), _unquote_pair(value.strip()))
    return (text.strip(), "true")


def _path_label(loc, entry):
    """Spec: canonical name of <directory of the config file at `loc`>/<entry> (absolute entries kept)."""
    if os.path.isabs(entry):
        return os.path.normpath(entry)
    full = {"cwd": ["<root>", "home", "work"], "home": ["<root>", "home"]}[loc]
    full = list(full)
    for piece in entry.split("/"):
        if piece in ("", "."):
            continue
        if piece == "..":
            if len(full) <= 1:
                raise ValueError("spec: entry leaves the scratch tree")
            full.pop()
        else:
            full.append(piece)
    if full[:3] == ["<root>", "home", "work"]:
        return "/".join(["<cwd>"] + full[3:])
    if full[:2] == ["<root>", "home"]:
        return "/".join(["<home>"] + full[2:])
    return "/".join(full)


def _is_subsequence(sub, seq):
    it = iter(seq)
    return all(any(x == y for y in it) for x in sub)


def _check_list(dest, observed, file_list, cmd_list, extra_ok=()):
    """-> error text or None.  Relation demanded for list-valued options (DESIGN 5.20 note)."""
    if not isinstance(observed, list):
        return "%s=%r is not a list" % (dest, observed)
    if file_list is None and cmd_list is None:
        return None if observed == [] else "%s=%r; expected the default (empty)" % (dest, observed)
    if cmd_list is None:
        return None if observed == file_list else "%s=%r; expected the file list in order %r" % (
            dest, observed, file_list)
    if file_list is None:
        return None if observed == cmd_list else "%s=%r; expected the command-line values %r" % (
            dest, observed, cmd_list)
    # -- both: command-line values present (in order); file values either all there in their order, or overridden
    kept = [v for v in observed if v not in extra_ok]
    if kept == cmd_list or _is_merge(kept, file_list, cmd_list):
        return None
    return "%s=%r; expected the command-line values %r in order, and the file values absent or exactly %r in order" % (
        dest, observed, cmd_list, file_list)


def _is_merge(seq, a, b):
    """seq is an order-preserving interleaving of the lists a and b."""
    if not seq:
        return not a and not b
    return bool((a and seq[0] == a[0] and _is_merge(seq[1:], a[1:], b)) or
                (b and seq[0] == b[0] and _is_merge(seq[1:], a, b[1:])))


def spec_check(case, obs):
    """Compare the whole observation with the rule; -> list of error texts."""
    errors = []
    files = case.get("files", [])
    in_file = spec_file_values(files)
    on_cmd = spec_cmdline(case.get("argv", []))

    def final_scalar(dest, default):
        if dest in on_cmd:
            return on_cmd[dest]
        if dest in in_file:
            return in_file[dest][0]
        return default

    # -- scalars and booleans: the precedence rule
    explicit = set(on_cmd) | set(in_file)
    want = {}
    for dest, (default, _p, _n) in BOOL_OPTIONS.items():
        want[dest] = final_scalar(dest, default)
    for dest, (_k, default, _f, _fv, _cv) in SCALAR_OPTIONS.items():
        want[dest] = final_scalar(dest, default)
    # -- documented modes: fields they set (asserted unless the case sets the same field itself), masked fields
    masked = set()
    for mode in ("steps_catalog", "wip", "junit", "quiet"):
        if not want[mode]:
            continue
        fields, more = MODE_EFFECTS[mode]
        masked.update(more)
        for k, v in fields.items():
            if k in explicit and want[k] != v:
                masked.add(k)           # mode against an explicit setting of the same field: not specified
            else:
                want[k] = v
    for dest in sorted(want):
        if dest in masked:
            continue
        if obs[dest] != want[dest] or type(obs[dest]) is not type(want[dest]):      # noqa: E721
            errors.append("%s=%r; expected %r" % (dest, obs[dest], want[dest]))

    # -- lists
    def file_list(dest):
        if dest not in in_file:
            return None
        values, loc = in_file[dest]
        if LIST_OPTIONS[dest][3]:
            return [_path_label(loc, v) for v in values]
        return list(values)

    def cmd_list(dest):
        if dest not in on_cmd:
            return None
        if LIST_OPTIONS[dest][3]:
            return [_path_label("cwd", v) for v in on_cmd[dest]]
        return list(on_cmd[dest])

    file_outfiles = file_list("outfiles")
    if "format" in in_file:
        # documented coupling (features/runner.multiple_formatters.feature): missing outfiles of
        # file formatters become "<format>.output", excess outfiles are cut; relative to the file
        formats, loc = in_file["format"]
        have = list(file_outfiles or [])[:len(formats)]
        have += [_path_label(loc, "%s.output" % f) for f in formats[len(have):]]
        file_outfiles = have
    for dest in LIST_OPTIONS:
        if dest in masked:
            continue
        f_list, c_list = file_list(dest), cmd_list(dest)
        if dest == "outfiles":
            f_list = file_outfiles
        if dest == "tags":
            # config.tags: command-line tags, else the file's tags, else the file's default_tags
            if f_list is None:
                f_list = file_list("default_tags")
        err = _check_list(dest, obs[dest], f_list, c_list)
        if err:
            errors.append(err)
    if "tags" not in masked:
        pass
    elif "@wip" not in obs["tags"]:
        errors.append("tags=%r; wip mode must select @wip" % (obs["tags"],))
    if "format" in masked and "steps.catalog" not in obs["format"]:
        errors.append("format=%r; steps-catalog mode must use the steps.catalog formatter" % (obs["format"],))
    err = _check_list("config_tags", obs["config_tags"], file_list("tags"), None)
    if err:
        errors.append(err)
    if "outfiles" not in masked:
        want_outputs = obs["outfiles"] if obs["outfiles"] else [None]
        if obs["outputs"] != want_outputs:
            errors.append("outputs=%r do not follow outfiles=%r" % (obs["outputs"], obs["outfiles"]))

    # -- stage (docs: stage name is the prefix of the environment file and the steps directory)
    stage = final_scalar("stage", None)
    want_steps = (stage + "_steps") if stage else "steps"
    want_env = (stage + "_environment.py") if stage else "environment.py"
    if (obs["steps_dir"], obs["environment_file"]) != (want_steps, want_env):
        errors.append("steps_dir/environment_file=%r/%r; expected %r/%r" % (
            obs["steps_dir"], obs["environment_file"], want_steps, want_env))

    # -- userdata
    want_ud = dict(spec_file_userdata(files))
    defines = [spec_parse_define(d) for d in on_cmd.get("userdata_defines", [])]
    for name, value in defines:
        want_ud[name] = value
    if case.get("update_userdata") is not None:
        want_ud.update(case["update_userdata"])
        for name, value in defines:
            want_ud[name] = value
    if obs["userdata"] != want_ud:
        errors.append("userdata=%r; expected %r" % (obs["userdata"], want_ud))
    if obs["userdata_type"] != "UserData":
        errors.append("userdata is a %s" % obs["userdata_type"])
    return errors


def _eval_case(case):
    obs, error = _build(case)
    if error is not None:
        return case, False, error
    try:
        errors = spec_check(case, obs)
    except ValueError as e:
        return case, False, "harness: %s" % e
    return case, not errors, "; ".join(errors) if errors else "ok"


def replay_config_case(case):
    return _eval_case(case)


# =============================================================================
# CHECK 0: census -- the spec tables cover exactly the options valid in config files
# =============================================================================
def run_census(tier, rng):
    real_dests = sorted(opt.dest for opt in _cfgmod.configfile_options_iter(None))
    for dest in sorted(set(real_dests) | set(ALL_DESTS)):
        case = {"dest": dest}
        ok = (dest in real_dests) and (dest in ALL_DESTS)
        yield case, ok, "in configfile_options_iter(None): %s; in the harness tables: %s" % (
            dest in real_dests, dest in ALL_DESTS)
    # -- every flag of the spec tables exists in OPTIONS with that dest, and the other way round
    real_flags = {}
    for fixed, keywords in _cfgmod.OPTIONS:
        dest = keywords.get("dest") or _cfgmod.derive_dest_from_long_option(fixed)
        for flag in fixed:
            real_flags[flag] = dest
    spec_flags = dict((f, d) for f, (d, _v) in _BOOL_FLAGS.items())
    spec_flags.update(_VALUE_FLAGS)
    spec_flags.update(dict((f, d) for f, (d, _v) in _CONST_FLAGS.items()))
    cmdline_only = ("tags_help", "lang_list", "lang_help", "version")
    for flag in sorted(set(real_flags) | set(spec_flags)):
        if real_flags.get(flag) in cmdline_only:
            continue
        case = {"flag": flag}
        yield case, real_flags.get(flag) == spec_flags.get(flag), "OPTIONS: dest %r; harness tables: dest %r" % (
            real_flags.get(flag), spec_flags.get(flag))


# =============================================================================
# CHECK 1: per-option precedence
# =============================================================================
def _file_spec(at, behave=None, userdata=None):
    spec = {"at": at}
    if behave is not None:
        spec["behave"] = behave
    if userdata is not None:
        spec["userdata"] = userdata
    return spec


def _bool_file_text(value, spelling, toml):
    if toml:
        return value
    return (FILE_TRUE if value else FILE_FALSE)[spelling % 4]


def _precedence_cases(at_list, tier, toml=False):
    """One option at a time x {absent, file, command line, both}."""
    yield {"files": [], "argv": []}
    emitted = set()
    for case in _precedence_cases_raw(at_list, tier, toml):
        key = json.dumps(case, sort_keys=True)
        if key not in emitted:
            emitted.add(key)
            yield case


def _precedence_cases_raw(at_list, tier, toml):
    for at in at_list:
        index = 0
        for dest in sorted(BOOL_OPTIONS):
            _default, pos, neg = BOOL_OPTIONS[dest]
            index += 1
            spellings = [index] if toml else [0, 1, 2, 3]
            cmd_forms = [None] + [[f] for f in pos] + [[f] for f in neg]
            for file_value in (None, True, False):
                for spelling in (spellings if file_value is not None else [0]):
                    for argv in cmd_forms:
                        if file_value is None and argv is None:
                            continue
                        files = []
                        if file_value is not None:
                            files = [_file_spec(at, {dest: _bool_file_text(file_value, spelling, toml)})]
                        yield {"files": files, "argv": list(argv or [])}
            if tier != "quick" and not toml:
                for word in ("True", "FALSE", "Yes", "oFF"):
                    yield {"files": [_file_spec(at, {dest: word})], "argv": []}
        for dest in sorted(SCALAR_OPTIONS):
            kind, _default, flags, file_texts, cmd_texts = SCALAR_OPTIONS[dest]
            cmd_forms = [None]
            for text in cmd_texts:
                for flag in flags:
                    cmd_forms.append([flag, text])
                    if flag.startswith("--"):
                        cmd_forms.append(["%s=%s" % (flag, text)])
            if dest == "color":
                cmd_forms += [["--no-color"], ["-C"]]
            for file_text in [None] + list(file_texts):
                for argv in cmd_forms:
                    if file_text is None and argv is None:
                        continue
                    files = []
                    if file_text is not None:
                        raw = file_text
                        if toml and kind == "int" and file_text == "4":
                            raw = 4                       # native TOML integer
                        files = [_file_spec(at, {dest: raw})]
                    yield {"files": files, "argv": list(argv or [])}
        for dest in sorted(LIST_OPTIONS):
            flags, file_values, cmd_values, _is_path = LIST_OPTIONS[dest]
            cmd_forms = [None]
            if dest == "paths":
                cmd_forms += [list(cmd_values), list(cmd_values) + ["second/dir"]]
            elif flags:
                for flag in flags:
                    cmd_forms.append([flag, cmd_values[0]])
                cmd_forms.append([flags[0], cmd_values[0], flags[-1], "plain" if dest == "format" else "zz9"])
            for file_list in (None, file_values[:1], list(file_values), list(reversed(file_values))):
                for argv in cmd_forms:
                    if file_list is None and argv is None:
                        continue
                    files = []
                    if file_list is not None:
                        files = [_file_spec(at, {dest: list(file_list)})]
                    yield {"files": files, "argv": list(argv or [])}


def run_precedence(tier, rng):
    at_list = ["cwd:behave.ini", "home:.behaverc"]
    if tier != "quick":
        at_list += ["home:behave.ini", "cwd:.behaverc", "cwd:setup.cfg", "cwd:tox.ini"]
    for case in _precedence_cases(at_list, tier):
        yield _eval_case(case)


def run_precedence_toml(tier, rng):
    at_list = ["cwd:pyproject.toml"]
    if tier != "quick":
        at_list.append("home:pyproject.toml")
    for case in _precedence_cases(at_list, tier, toml=True):
        if tier == "quick" and case["files"] and case["argv"] and len(case["argv"]) > 1 \
                and not case["argv"][0].startswith("--"):
            continue                    # quick: long flags only
        yield _eval_case(case)


# =============================================================================
# CHECK 2: relative entries of a configuration file are relative to that file
# =============================================================================
REL_ENTRIES = ["feats", "sub/dir/x", "./y", "../up", "sub/../z", "/abs/q"]


def _relative_cases(tier):
    at_list = ["cwd:behave.ini", "home:behave.ini"]
    if tier != "quick":
        at_list += ["home:.behaverc", "cwd:setup.cfg", "home:tox.ini", "cwd:pyproject.toml", "home:pyproject.toml"]
    for at in at_list:
        for dest in ("paths", "outfiles"):
            for n in (1, 2):
                for entries in itertools.permutations(REL_ENTRIES, n):
                    yield {"files": [_file_spec(at, {dest: list(entries)})], "argv": []}
        # -- format/outfiles coupling: defaults "<format>.output" are file-relative as well
        for formats in (["plain"], ["plain", "json"], ["json", "plain", "progress"]):
            for outfiles in (None, ["o1.txt"], ["sub/o1.txt", "../o2.txt"], ["a", "b", "c", "d"]):
                behave = {"format": list(formats)}
                if outfiles is not None:
                    behave["outfiles"] = list(outfiles)
                yield {"files": [_file_spec(at, behave)], "argv": []}
                yield {"files": [_file_spec(at, behave)], "argv": ["-f", "progress", "-o", "cmd.out"]}


def run_relative(tier, rng):
    for case in _relative_cases(tier):
        yield _eval_case(case)


def _eval_junit_dir(case):
    """junit_directory named in a configuration file: relative to that file (property text:
    'relative paths and output files named in a configuration file are resolved relative to that file')."""
    obs_label = None
    with _scratch() as sc:
        _write_files(sc, case["files"])
        out = io.StringIO()
        try:
            with contextlib.redirect_stdout(out), contextlib.redirect_stderr(out):
                config = Configuration(list(case.get("argv", [])), load_config=True)
            obs_label = sc.label(config.junit_directory)
        except BaseException as e:      # pylint: disable=broad-except
            return case, False, "raised %s: %s" % (e.__class__.__name__, e)
    spec = case["files"][0]
    loc = spec["at"].split(":", 1)[0]
    want = _path_label(loc, spec["behave"]["junit_directory"])
    return case, obs_label == want, "junit_directory resolves to %s; expected %s" % (obs_label, want)


def run_junit_dir(tier, rng):
    at_list = ["cwd:behave.ini", "home:behave.ini"]
    if tier != "quick":
        at_list += ["home:.behaverc", "cwd:tox.ini", "home:pyproject.toml"]
    for at in at_list:
        for entry in ("rep", "out/junit", "../rep", "/abs/rep"):
            yield _eval_junit_dir({"files": [_file_spec(at, {"junit_directory": entry})], "argv": []})


# =============================================================================
# CHECK 3: -D parsing
# =============================================================================
DEFINE_TOKENS = ["n", "v", "=", '"', "'", " "]


def _check_define(text):
    case = {"text": text}
    want = spec_parse_define(text)
    try:
        got = _udmod.parse_user_define(text)
    except Exception as e:      # pylint: disable=broad-except
        return case, False, "raised %s: %s; expected %r" % (e.__class__.__name__, e, want)
    return case, tuple(got) == want, "parse_user_define -> %r; expected %r" % (got, want)


def _define_class(text):
    """Partition of the input space by the *input* (not by behaviour):
    'quoted-bare-name'  : no '=', the padded text is a quote pair ("name")
    'lone-quote-value'  : the value part is a single quote character (name=")
    'regular'           : everything else"""
    stripped = text.strip()
    if "=" not in stripped:
        return "quoted-bare-name" if _unquote_pair(stripped) != stripped else "regular"
    value = _unquote_pair(stripped).split("=", 1)[1].strip()
    return "lone-quote-value" if value in ('"', "'") else "regular"


DEFINE_EXAMPLES = ("name=value", "  name = value  ", "foo", '"foo=bar"', "'foo=bar'", 'foo="bar baz"',
                   "foo='bar baz'", "foo=a=b", "foo.bar=1", 'foo="a=b"', "foo=", "=bar", '"foo" = "bar"',
                   '"foo"', "'foo'", 'foo="', "foo='")


def _define_texts(tier):
    max_tokens = 4 if tier == "quick" else 6
    for n in range(max_tokens + 1):
        for toks in itertools.product(DEFINE_TOKENS, repeat=n):
            yield "".join(toks)
    for text in DEFINE_EXAMPLES:
        yield text


def _run_define_class(wanted):
    def run(tier, rng):
        for text in _define_texts(tier):
            if _define_class(text) == wanted:
                yield _check_define(text)
    return run


run_define_parse = _run_define_class("regular")
run_define_quoted_bare = _run_define_class("quoted-bare-name")
run_define_lone_quote = _run_define_class("lone-quote-value")


def replay_define_parse(case):
    return _check_define(case["text"])


# =============================================================================
# CHECK 4: defines override file userdata (through Configuration)
# =============================================================================
DEFINE_TEXTS = ["n=cmd", "n", "m=2", 'n="q v"', " n = pad ", "k=new", "n=", "n=a=b", "'n=sq'"]


def _userdata_cases(tier):
    at_list = ["cwd:behave.ini"]
    if tier != "quick":
        at_list += ["home:behave.ini", "cwd:tox.ini", "cwd:pyproject.toml"]
    file_datas = [None, {"n": "filev"}, {"n": "filev", "m": "1"}]
    for at in at_list:
        for data in file_datas:
            files = [] if data is None else [_file_spec(at, None, dict(data))]
            yield {"files": files, "argv": []}
            for flag in ("-D", "--define"):
                for text in DEFINE_TEXTS:
                    yield {"files": files, "argv": [flag, text]}
                    if flag == "--define":
                        yield {"files": files, "argv": ["--define=%s" % text]}
            pairs = list(itertools.permutations(DEFINE_TEXTS[:6], 2)) if tier != "quick" else \
                [("n=1", "n=2"), ("n=2", "n=1"), ("n", "m=2"), ("k=new", "n=cmd")]
            for a, b in pairs:
                yield {"files": files, "argv": ["-D", a, "-D", b]}
            # -- update_userdata(): later data, with the command-line defines re-applied on top
            for update in ({"n": "late"}, {"m": "late", "z": "9"}):
                yield {"files": files, "argv": [], "update_userdata": update}
                yield {"files": files, "argv": ["-D", "n=cmd"], "update_userdata": update}
    # -- defines and a [behave] option from the same file do not disturb each other
    yield {"files": [_file_spec("cwd:behave.ini", {"stage": "st1"}, {"n": "filev"})], "argv": ["-D", "n=cmd", "--stop"]}


def run_userdata_override(tier, rng):
    emitted = set()
    for case in _userdata_cases(tier):
        key = json.dumps(case, sort_keys=True)
        if key not in emitted:
            emitted.add(key)
            yield _eval_case(case)


def run_userdata_two_files(tier, rng):
    """[behave.userdata] of a $HOME file, while a cwd file without any userdata section exists."""
    cwd_names = ["behave.ini"] if tier == "quick" else ["behave.ini", "tox.ini", "setup.cfg", "pyproject.toml"]
    for home_name in ("behave.ini", ".behaverc"):
        for cwd_name in cwd_names:
            for home_behave in (None, {"stage": "st1"}):
                files = [_file_spec("cwd:" + cwd_name, {"stop": True if cwd_name.endswith(".toml") else "true"}),
                         _file_spec("home:" + home_name, home_behave, {"n": "filev"})]
                for argv in ([], ["-D", "m=2"], ["-D", "n=cmd"]):
                    yield _eval_case({"files": files, "argv": argv})


# =============================================================================
# CHECK 4b: sampled subsets of options (file x command line)
# =============================================================================
def _sample_case(rng, at_choices):
    file_dests = rng.sample(ALL_DESTS, rng.randint(1, 5))
    at = rng.choice(at_choices)
    toml = at.endswith(".toml")
    behave = {}
    for dest in file_dests:
        if dest in BOOL_OPTIONS:
            value = rng.choice([True, False])
            behave[dest] = _bool_file_text(value, rng.randint(0, 3), toml)
        elif dest in SCALAR_OPTIONS:
            behave[dest] = rng.choice(SCALAR_OPTIONS[dest][3])
        else:
            values = list(LIST_OPTIONS[dest][1])
            behave[dest] = rng.choice([values[:1], values, list(reversed(values))])
    files = []
    split = sorted(d for d in behave if d not in ("format", "outfiles"))
    if not toml and len(split) >= 2 and rng.random() < 0.3:
        # two files (one in $HOME, one in cwd) with disjoint options
        other = dict((d, behave.pop(d)) for d in split[:len(split) // 2])
        loc = at.split(":", 1)[0]
        files.append(_file_spec(("home" if loc == "cwd" else "cwd") + ":setup.cfg", other))
    userdata = None
    if rng.random() < 0.4 and (not files):
        userdata = rng.choice([{"n": "filev"}, {"n": "filev", "m": "1"}])
    files.append(_file_spec(at, behave, userdata))
    files.sort(key=lambda spec: spec["at"])
    cmd_dests = [d for d in ALL_DESTS if (d in BOOL_OPTIONS) or
                 (d in SCALAR_OPTIONS and SCALAR_OPTIONS[d][2]) or (d in LIST_OPTIONS and LIST_OPTIONS[d][0])]
    argv = []
    for dest in rng.sample(cmd_dests, rng.randint(0, 4)):
        if dest in BOOL_OPTIONS:
            _d, pos, neg = BOOL_OPTIONS[dest]
            argv.append(rng.choice(pos + neg))
        elif dest in SCALAR_OPTIONS:
            flag = rng.choice(SCALAR_OPTIONS[dest][2])
            text = rng.choice(SCALAR_OPTIONS[dest][4])
            if flag.startswith("--") and rng.random() < 0.5:
                argv.append("%s=%s" % (flag, text))
            else:
                argv += [flag, text]
        else:
            flags, _fv, cmd_values, _p = LIST_OPTIONS[dest]
            argv += [rng.choice(flags), cmd_values[0]]
    for _i in range(rng.choice([0, 0, 1, 2])):
        argv += ["-D", rng.choice(DEFINE_TEXTS)]
    if rng.random() < 0.3:
        argv += ["cmdfeats"] + (["second/dir"] if rng.random() < 0.5 else [])
    return {"files": files, "argv": argv}


def run_sampled_subsets(tier, rng):
    count = 400 if tier == "quick" else 6000
    at_choices = ["cwd:behave.ini", "cwd:behave.ini", "home:behave.ini", "cwd:tox.ini", "home:.behaverc",
                  "cwd:pyproject.toml"]
    for _i in range(count):
        yield _eval_case(_sample_case(rng, at_choices))


# =============================================================================
# CHECK 5: typed getters
# =============================================================================
INT_OK = {"12": 12, "-3": -3, "+7": 7, "0": 0, "007": 7}
INT_BAD = ["", "abc", "1.5", "1e3", "0x10", "twelve", "1,000", "--1"]
FLOAT_OK = {"1.5": 1.5, "-0.25": -0.25, "3": 3.0, "1e3": 1000.0, ".5": 0.5, "2.": 2.0}
FLOAT_BAD = ["", "abc", "1,5", "1.2.3", "one", "1e"]
BOOL_OK = {"true": True, "yes": True, "on": True, "1": True, "True": True, "YES": True, "On": True,
           "false": False, "no": False, "off": False, "0": False, "False": False, "NO": False, "OFF": False}
BOOL_BAD = ["", "maybe", "2", "y", "n", "t", "enable", "tru", "-1"]
_PRE = {"int": 5, "float": 2.5, "bool_true": True, "bool_false": False}


def _split_csv(text):
    if not text:
        raise ValueError("empty list")
    return text.split(",")


def _getter_cases():
    for getter, ok_table, bad_list in (("getint", INT_OK, INT_BAD), ("getfloat", FLOAT_OK, FLOAT_BAD),
                                       ("getbool", BOOL_OK, BOOL_BAD)):
        for text in sorted(ok_table):
            yield {"getter": getter, "stored": text, "how": "text"}
        for text in bad_list:
            yield {"getter": getter, "stored": text, "how": "text"}
        for how in ("missing", "missing+default", "missing+default_none"):
            yield {"getter": getter, "stored": None, "how": how}
    yield {"getter": "getint", "stored": "int", "how": "preconverted"}
    yield {"getter": "getfloat", "stored": "float", "how": "preconverted"}
    yield {"getter": "getbool", "stored": "bool_true", "how": "preconverted"}
    yield {"getter": "getbool", "stored": "bool_false", "how": "preconverted"}
    for text in ("a,b", "a", ""):
        yield {"getter": "getas:csv", "stored": text, "how": "text"}
    for how in ("missing", "missing+default", "preconverted"):
        yield {"getter": "getas:csv", "stored": None, "how": how}
    for text in ("12", "x"):
        yield {"getter": "getas:int", "stored": text, "how": "text"}
    # -- the same through a real Configuration: -D defines and file userdata are plain text
    for text in ("12", "abc"):
        yield {"getter": "getint", "stored": text, "how": "define"}
        yield {"getter": "getint", "stored": text, "how": "file"}
    for text in ("yes", "off", "maybe"):
        yield {"getter": "getbool", "stored": text, "how": "define"}
    yield {"getter": "getbool", "stored": None, "how": "define-bare"}


_DOC_DEFAULTS = {"getint": 0, "getfloat": 0.0, "getbool": False, "getas:csv": None, "getas:int": None}


def _check_getter(case):
    getter, stored, how = case["getter"], case["stored"], case["how"]
    sentinel = object()
    # -- expected
    tables = {"getint": (INT_OK, INT_BAD), "getfloat": (FLOAT_OK, FLOAT_BAD), "getbool": (BOOL_OK, BOOL_BAD),
              "getas:int": (INT_OK, INT_BAD + ["x"]),
              "getas:csv": ({"a,b": ["a", "b"], "a": ["a"]}, [""])}
    pre_list = ["p", "q"]
    if how in ("text", "define", "file"):
        ok_table, bad_list = tables[getter]
        want = ("value", ok_table[stored]) if stored in ok_table else ("ValueError", None)
        assert stored in ok_table or stored in bad_list
    elif how == "define-bare":
        want = ("value", True)                  # -D name  => "true" => True
    elif how == "missing":
        want = ("value", _DOC_DEFAULTS[getter])
    elif how == "missing+default":
        want = ("is", sentinel)
    elif how == "missing+default_none":
        want = ("is", None)
    else:
        want = ("value", pre_list if getter == "getas:csv" else _PRE[stored])
    # -- observed
    try:
        if how in ("define", "file", "define-bare"):
            with _scratch() as sc:
                argv = []
                if how == "file":
                    _write_files(sc, [_file_spec("cwd:behave.ini", None, {"name": stored})])
                elif how == "define":
                    argv = ["-D", "name=%s" % stored]
                else:
                    argv = ["-D", "name"]
                with contextlib.redirect_stdout(io.StringIO()), contextlib.redirect_stderr(io.StringIO()):
                    data = Configuration(argv, load_config=True).userdata
        elif how == "text":
            data = UserData({"name": stored})
        elif how == "preconverted":
            data = UserData({"name": pre_list if getter == "getas:csv" else _PRE[stored]})
        else:
            data = UserData({"other": "1"})
        args = ["name"]
        if how == "missing+default":
            args.append(sentinel)
        elif how == "missing+default_none":
            args.append(None)
        if getter == "getas:csv":
            got = data.getas(_split_csv, *args, valuetype=list)
        elif getter == "getas:int":
            got = data.getas(int, *args)
        else:
            got = getattr(data, getter)(*args)
        observed = ("value", got)
    except ValueError:
        observed = ("ValueError", None)
    except BaseException as e:      # pylint: disable=broad-except
        observed = ("raised %s" % e.__class__.__name__, str(e))
    if want[0] == "is":
        ok = observed[0] == "value" and observed[1] is want[1]
        shown = "the given default" if want[1] is sentinel else "None"
        return case, ok, "observed %s; expected %s" % (
            "the given default" if ok else repr(observed), shown)
    ok = observed[0] == want[0] and observed[1] == want[1] and type(observed[1]) is type(want[1])  # noqa: E721
    return case, ok, "observed %r; expected %r" % (observed, want)


def run_getters(tier, rng):
    for case in _getter_cases():
        yield _check_getter(case)


# =============================================================================
CHECKS = [
    BoundedCheck(
        "option-census",
        bound={"quick": "every dest of configfile_options_iter(None) and of the harness tables (38); every "
                        "command-line flag of OPTIONS and of the harness tables (complete, finite)",
               "thorough": "same as quick"},
        run=run_census,
        contract="the hand-written option tables of this harness (dest, flags) and behave.configuration.OPTIONS "
                 "agree, so the per-option checks below really visit each option that is valid in config files"),
    BoundedCheck(
        "precedence-ini",
        bound={
            "quick": "behave.ini in cwd and .behaverc in $HOME; one option at a time, each of the 38 config-file "
                     "options x {absent, file, command line, both}: booleans x file {true,false} (all 8 documented "
                     "spellings) x every "
                     "positive/negative flag spelling; scalars x 2-4 file values x every flag spelling (long, "
                     "long=value, short) ; lists x 3 file lists (1, 2, reversed) x up to 4 command-line forms; "
                     "whole configuration compared (pairs of options are not enumerated)",
            "thorough": "same x 6 file places (behave.ini/.behaverc/setup.cfg/tox.ini in cwd, behave.ini/.behaverc "
                        "in $HOME) + 4 capitalised boolean spellings",
        },
        run=run_precedence, replay=replay_config_case,
        contract="for every option X: config.X == cmdline(X) if given else file(X) if given else default(X); every "
                 "option not mentioned keeps its documented default (fields set by the documented modes wip / "
                 "steps_catalog / quiet / junit are asserted to the documented value or masked); list options: "
                 "file only -> exactly the file list in order, command line only -> exactly those values, both -> "
                 "command-line values present in order and the file values either all present in order or "
                 "overridden; config.tags = command-line tags else file tags else default_tags; stage -> "
                 "steps_dir/environment_file; outputs follow outfiles"),
    BoundedCheck(
        "precedence-toml",
        bound={"quick": "pyproject.toml [tool.behave] in cwd; same enumeration as precedence-ini with native TOML "
                        "booleans/arrays/one native integer; in 'both' placements long flags only",
               "thorough": "pyproject.toml in cwd and in $HOME, all flag spellings"},
        run=run_precedence_toml, replay=replay_config_case,
        contract="same contract as precedence-ini with the file values taken from [tool.behave]"),
    BoundedCheck(
        "relative-paths",
        bound={"quick": "behave.ini in cwd and in $HOME (= parent of cwd) x {paths, outfiles} x all ordered "
                        "selections of 1..2 of 6 entries (plain, nested, ./, ../, a/../b, absolute) + 3 format "
                        "lists x 4 outfiles lists (format/outfiles coupling) x {no command line, -f/-o given}",
               "thorough": "adds .behaverc/tox.ini/pyproject.toml in $HOME, setup.cfg/pyproject.toml in cwd"},
        run=run_relative, replay=replay_config_case,
        contract="every relative entry of paths/outfiles (and the default outfile '<format>.output' of a file "
                 "formatter) denotes <directory of the config file>/<entry>; absolute entries are kept; order kept"),
    BoundedCheck(
        "relative-junit-directory",
        bound={"quick": "behave.ini in cwd and in $HOME x 4 entries (plain, nested, ../, absolute)",
               "thorough": "adds .behaverc/pyproject.toml in $HOME, tox.ini in cwd"},
        run=run_junit_dir, replay=_eval_junit_dir,
        contract="a relative junit_directory named in a configuration file denotes <directory of that file>/<entry>"),
    BoundedCheck(
        "define-parse",
        bound={"quick": "all strings of <= 4 tokens over {n, v, =, \", ', space} (1555) + 17 documented-style "
                        "examples, minus the two input classes checked separately below",
               "thorough": "all strings of <= 6 tokens (55987) + 17 examples, minus the two classes below"},
        run=run_define_parse, replay=replay_define_parse,
        contract="parse_user_define(text) == spec: strip padding; strip one surrounding pair of equal quotes; "
                 "if '=' occurs: split at the first '=', name stripped, value stripped and one surrounding quote "
                 "pair removed; else (bare name) -> (name, 'true')"),
    BoundedCheck(
        "define-parse-quoted-bare-name",
        bound={"quick": "the strings of the define-parse space that contain no '=' and are a quote pair after "
                        "stripping the padding (e.g. \"n\")",
               "thorough": "same class, <= 6 tokens"},
        run=run_define_quoted_bare, replay=replay_define_parse,
        contract="same spec as define-parse: surrounding quotes are stripped from a bare name too, value 'true'"),
    BoundedCheck(
        "define-parse-lone-quote-value",
        bound={"quick": "the strings of the define-parse space whose value part is one quote character (e.g. n=\")",
               "thorough": "same class, <= 6 tokens"},
        run=run_define_lone_quote, replay=replay_define_parse,
        contract="same spec as define-parse: only a *pair* of quotes is stripped; a lone quote character is kept"),
    BoundedCheck(
        "userdata-override",
        bound={"quick": "behave.ini in cwd x [behave.userdata] in {none, {n}, {n,m}} x {no define, 9 define texts x "
                        "-D/--define/--define=, 4 ordered pairs of defines, 2 update_userdata() calls with and "
                        "without a define}",
               "thorough": "4 file places incl. pyproject.toml [tool.behave.userdata]; all 30 ordered pairs of 6 defines"},
        run=run_userdata_override, replay=replay_config_case,
        contract="config.userdata == file userdata updated with the parsed defines in command-line order (defines "
                 "win, later define wins); update_userdata(d) == that updated with d, defines re-applied on top; "
                 "everything else keeps its default"),
    BoundedCheck(
        "userdata-home-file-kept",
        bound={"quick": "[behave.userdata] {n} in $HOME/behave.ini or $HOME/.behaverc (with/without a [behave] "
                        "option) while cwd/behave.ini sets only `stop` and has no userdata section x {no define, "
                        "-D m=2, -D n=cmd}: 12 cases",
               "thorough": "cwd file in {behave.ini, tox.ini, setup.cfg, pyproject.toml}: 48 cases"},
        run=run_userdata_two_files, replay=replay_config_case,
        contract="user data given in a configuration file wins over the (empty) default: it is still in "
                 "config.userdata when another configuration file that does not mention user data is also read; "
                 "defines override it"),
    BoundedCheck(
        "precedence-sampled-subsets",
        bound={"quick": "400 pseudo-random cases (seeded rng): 1..5 options assigned in one config file (or split "
                        "over a $HOME and a cwd file) x 0..4 options, 0..2 defines and 0..2 positional paths on the "
                        "command line; sampled, not exhaustive",
               "thorough": "6000 such cases"},
        run=run_sampled_subsets, replay=replay_config_case,
        contract="same contract as precedence-ini, for several options at once; a field governed by a documented "
                 "mode and set explicitly to the opposite value is not judged"),
    BoundedCheck(
        "userdata-getters",
        bound={"quick": "getint/getfloat/getbool x (5/6/14 convertible + 8/6/9 unconvertible texts, missing name "
                        "with documented/given/None default, pre-converted value); getas with a custom converter "
                        "and valuetype; 9 cases through a real Configuration (-D / [behave.userdata])",
               "thorough": "same as quick"},
        run=run_getters, replay=_check_getter,
        contract="getter(name) == converted value (exact type) for convertible text; ValueError for unconvertible "
                 "text; the given default object itself for a missing name (documented defaults 0 / 0.0 / False / "
                 "None when omitted); a value already of the target type is returned unchanged"),
]
