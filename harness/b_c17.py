# -*- coding: utf-8 -*-
"""
harness.b_c17 -- bounded stand-ins (kind B) for C17: the rerun file lists exactly the
unsuccessful scenarios, in run order; a stale file is removed when there are none; fed back
as ``@file`` it selects exactly those scenarios.

Two-run history on real feature files in a scratch "project" directory (cwd = that
directory, so the relative locations in the rerun file resolve as in normal use):

    run 1:  features parsed by parse_features, real ModelRunner, ``-f rerun -o rerun.txt``
    feed:   collect_feature_locations(["@rerun.txt"]) -> parse_features
    run 2:  the selected model is run again with ``-f rerun -o rerun2.txt``

Oracle (independent of the formatter and of the model's status attributes): the documents are
rendered by the line-recording writer of ``harness.b_c10``; a scenario is *unsuccessful* iff it
was entered in run 1 (a ``before_scenario`` record of the harness' own hooks exists, or the
scenario's own before_scenario hook is the one made to fail) and either one of its own
scenario hooks is made to fail or the first step whose outcome is not ``pass`` is one of
fail / error / undefined / pending.  The model's ``status.has_failed()`` is compared with this
as a ruler check only (a disagreement is reported as such).
"""
from __future__ import print_function
import contextlib
import io
import itertools
import os

from harness.bounded import BoundedCheck
from harness import runlib
from harness.b_c10 import (build, write_doc, scratch_dir, chdir, key_of, S, O, R, F,
                           BAD_OUTCOMES, random_layout, LAYOUT_PLAIN, LAYOUT_FULL)

from behave.configuration import Configuration
from behave.formatter._registry import make_formatters
from behave.model_core import FileLocation
from behave.runner import ModelRunner
from behave.runner_util import collect_feature_locations, parse_features

OUT6 = ("pass", "fail", "error", "undefined", "pending", "skip")
FILES = [("a", "features/f1.feature"), ("b", "features/sub/f2.feature"), ("c", "other/f3.feature")]
STALE = u"# -- RERUN: 1 failing scenarios during last test run.\nfeatures/stale.feature:1\n\n"


# -- real runs -------------------------------------------------------------------------------
def run_features(features, args, hook_extra):
    rec = runlib.Recorder()
    sink = io.StringIO()
    with contextlib.redirect_stdout(sink):
        config = Configuration(list(args), load_config=False)
        runner = ModelRunner(config, features, step_registry=runlib.make_registry(rec))
        runner.hooks = runlib.make_hooks(rec, extra=hook_extra)
        runner.formatters = make_formatters(config, config.outputs)
        exc = None
        try:
            runner.run()
        except BaseException as e:      # noqa
            exc = e
    return rec, exc


def make_hook_extra(hooks):
    want = set((h, t) for h, t in hooks)

    def extra(name, context, args):
        if not args:
            return
        arg = args[0]
        if name in ("before_scenario", "after_scenario"):
            target = key_of(arg)
        elif name in ("before_feature", "after_feature", "before_rule", "after_rule"):
            target = arg.name
        else:
            return
        if (name, target) in want:
            raise RuntimeError("hook %s of %s made to fail" % (name, target))
    return extra


def first_bad(outcomes):
    for o in outcomes:
        if o == "pass":
            continue
        return o in BAD_OUTCOMES
    return False


def read_locations(path):
    with io.open(path, encoding="utf-8") as f:
        text = f.read()
    return [ln.strip() for ln in text.splitlines() if ln.strip() and not ln.strip().startswith("#")], text


# -- one case --------------------------------------------------------------------------------
def eval_case(case):
    with scratch_dir() as base:
        with chdir(base):
            return _eval_case(case, base)


def _eval_case(case, base):
    layout = case.get("layout", LAYOUT_PLAIN)
    hooks = [tuple(h) for h in case.get("hooks", [])]
    docs = []
    for (prefix, rel), shape in zip(FILES, case["files"]):
        doc = build(shape, prefix=prefix, layout=layout)
        doc.rel = rel
        write_doc(base, rel, doc)
        docs.append(doc)
    if case.get("stale", 1):
        with io.open("rerun.txt", "w", encoding="utf-8") as f:
            f.write(STALE)
    tag_args = ["--tags", "not @ex"] if case.get("tags") else []
    extra = make_hook_extra(hooks)

    # -- RUN 1
    feats1 = parse_features([FileLocation(d.rel) for d in docs])
    rec1, exc1 = run_features(feats1, ["-f", "rerun", "-o", "rerun.txt"] + tag_args, extra)
    if exc1 is not None:
        return False, "run 1 raised %s: %s" % (type(exc1).__name__, exc1)
    entered = set(lab for (h, lab) in rec1.hooks if h == "before_scenario")
    hooked = set(t for (h, t) in hooks if h in ("before_scenario", "after_scenario"))
    expected = []       # (doc, scenario dict) in run order
    for d in docs:
        for s in d.scenarios:
            if s["name"] in entered and (s["key"] in hooked or first_bad(s["outcomes"])):
                expected.append((d, s))
    want_lines = ["%s:%d" % (d.rel, s["line"]) for d, s in expected]
    want_keys = [s["key"] for _d, s in expected]

    # ruler: the model's own final statuses
    model_bad = [key_of(s) for f in feats1 for s in f.walk_scenarios() if s.status.has_failed()]
    statuses = [(key_of(s), s.status.name) for f in feats1 for s in f.walk_scenarios()]
    fstat = [(f.name, f.status.name) for f in feats1]
    if model_bad != want_keys:
        return False, ("RULER: model says has_failed() for %r, tree/hook-log oracle says %r; statuses %r"
                       % (model_bad, want_keys, statuses))

    # -- the rerun file
    if not want_lines:
        if os.path.exists("rerun.txt"):
            return False, "no unsuccessful scenario, but rerun.txt exists after the run: %r" % (
                read_locations("rerun.txt")[1],)
        return True, "no unsuccessful scenario; rerun file absent"
    if not os.path.exists("rerun.txt"):
        return False, "rerun.txt missing; expected %r (scenario statuses %r, feature statuses %r)" % (
            want_lines, statuses, fstat)
    got_lines, text = read_locations("rerun.txt")
    if got_lines != want_lines:
        return False, "rerun.txt lists %r, expected %r (scenario statuses %r, feature statuses %r)" % (
            got_lines, want_lines, statuses, fstat)

    # -- FEED BACK
    locs = collect_feature_locations(["@rerun.txt"])
    got_pairs = [(os.path.normpath(l.filename), l.line) for l in locs]
    want_pairs = [(d.rel, s["line"]) for d, s in expected]
    if got_pairs != want_pairs:
        return False, "locations read back %r, expected %r" % (got_pairs, want_pairs)
    feats2 = parse_features(locs)
    want_sel = []
    for d in docs:
        keys = sorted(s["key"] for dd, s in expected if dd is d)
        if keys:
            want_sel.append((d.feature_name, keys))
    got_sel = [(f.name, sorted(key_of(s) for s in f.walk_scenarios() if not s.should_skip)) for f in feats2]
    if got_sel != want_sel:
        return False, "fed back: selected %r, expected %r" % (got_sel, want_sel)

    # -- RUN 2
    rec2, exc2 = run_features(feats2, ["-f", "rerun", "-o", "rerun2.txt"] + tag_args, extra)
    if exc2 is not None:
        return False, "run 2 raised %s: %s" % (type(exc2).__name__, exc2)
    entered2 = [lab for (h, lab) in rec2.hooks if h == "before_scenario"]
    want_names = [s["name"] for _d, s in expected]
    if entered2 != want_names:
        return False, "run 2 entered %r, expected exactly %r" % (entered2, want_names)
    stepped = []
    for (_sc, sid, _o) in rec2.calls:
        k = sid.split("x")[0]
        if not k.endswith("bg") and k not in stepped:
            stepped.append(k)
    if any(k not in want_keys for k in stepped):
        return False, "run 2 executed steps of unselected scenarios: %r (selected %r)" % (stepped, want_keys)
    if not os.path.exists("rerun2.txt"):
        return False, "run 2 wrote no rerun file; expected the same list %r" % (want_lines,)
    got2, _ = read_locations("rerun2.txt")
    if got2 != want_lines:
        return False, "run 2 rerun file %r differs from run 1's %r" % (got2, want_lines)
    return True, "rerun.txt == %r; fed back selects the same; run 2 reproduces it" % (want_lines,)


def safe_eval(case):
    try:
        ok, detail = eval_case(case)
    except Exception as e:      # noqa
        import traceback
        ok, detail = False, "exception %s: %s\n%s" % (type(e).__name__, e, traceback.format_exc()[-1200:])
    return case, ok, detail


def replay(case):
    return safe_eval(case)


def mk(files, hooks=(), tags=0, stale=1, layout=None):
    c = {"files": list(files), "hooks": [list(h) for h in hooks], "tags": tags, "stale": stale}
    if layout:
        c["layout"] = layout
    return c


# == CHECK 1: small systematic cases ================================================================
def systematic(tier):
    # A. one feature, one scenario, one step
    for o in OUT6:
        for stale in (1, 0):
            yield mk([F([S([o])])], stale=stale)
    for h in ("before_scenario", "after_scenario"):
        yield mk([F([S(["pass"])])], hooks=[(h, "as1")])
        yield mk([F([S(["fail"])])], hooks=[(h, "as1")])
    # B. one feature, two scenarios
    for o1, o2 in itertools.product(OUT6, repeat=2):
        yield mk([F([S([o1]), S([o2])])])
    # C. two-step scenarios
    for o in OUT6:
        yield mk([F([S(["pass", o])])])
        yield mk([F([S([o, "fail"])])])
        yield mk([F([S([o, "undefined"]), S(["pass"])])])
    # D. outline rows
    for o1, o2 in itertools.product(OUT6, repeat=2):
        yield mk([F([O([([], [o1, o2])])])])
    for o1, o2 in itertools.product(("pass", "fail", "error", "undefined"), repeat=2):
        yield mk([F([S(["pass"]), O([([], ["pass", o1]), ([], [o2])])])])
    # E. inside and outside a rule
    for o1, o2, o3 in itertools.product(("pass", "fail", "error"), repeat=3):
        yield mk([F([S([o1])], rules=[R([S([o2]), O([([], ["pass", o3])])], bg=1)], bg=1)])
    # F. hook errors above the scenario, tag exclusion
    mixed = F([S(["fail"]), S(["error"]), S(["pass"], tags=["ex"])],
              rules=[R([S(["fail"]), O([([], ["undefined", "pass"])]), S(["fail"], tags=["ex"])]),
                     R([S(["error"]), S(["pass"])])])
    yield mk([mixed])
    yield mk([mixed], tags=1)
    for h, t in (("before_feature", "AFeature"), ("after_feature", "AFeature"), ("before_rule", "AR1"),
                 ("after_rule", "AR1"), ("before_rule", "AR2"), ("after_rule", "AR2")):
        yield mk([mixed], hooks=[(h, t)])
        yield mk([mixed], hooks=[(h, t)], tags=1)
    yield mk([mixed], hooks=[("before_scenario", "as4"), ("after_scenario", "ao5e1r2"), ("after_scenario", "as8")])
    # G. several files: only some have unsuccessful scenarios
    good = F([S(["pass"]), O([([], ["pass", "skip"])])])
    for files in ([good, good], [good, mixed], [mixed, good], [good, mixed, good], [mixed, good, mixed],
                  [F([S(["error"])]), F([S(["fail"])])], [F([S(["fail"])]), F([S(["error"])])]):
        yield mk(files)
    yield mk([mixed, good, mixed], tags=1, layout=LAYOUT_FULL)
    yield mk([mixed, mixed], hooks=[("before_feature", "AFeature")])
    yield mk([mixed, mixed], hooks=[("after_feature", "BFeature")])
    # H. scenarios that share their name (same keyword, same name) in one feature: they are different scenarios
    for o1, o2, o3, o4 in (("pass", "pass", "fail", "pass"), ("fail", "pass", "pass", "pass"), ("pass", "error", "pass", "fail"),
                           ("pass", "pass", "pass", "undefined")):
        yield mk([F([], rules=[R([S([o1], name="Happy path"), S([o2], name="Bad input")], name="Deposit"),
                               R([S([o3], name="Happy path"), S([o4], name="Bad input")], name="Withdraw")])])
        yield mk([F([S([o1], name="Twin"), S([o2], name="Twin"), S([o3], name="Twin")])])


def run_systematic(tier, rng):
    for case in systematic(tier):
        yield safe_eval(case)


# == CHECK 2: random multi-file histories ============================================================
def random_c17_shape(rng, p_bad):
    def outcome():
        if rng.random() < p_bad:
            return rng.choice(("fail", "fail", "error", "undefined", "pending", "skip"))
        return "pass"

    def tags():
        return ["ex"] if rng.random() < 0.15 else []

    def items(n):
        res = []
        for _ in range(n):
            if rng.random() < 0.6:
                res.append(S([outcome() for _ in range(rng.randint(1, 3))], tags=tags()))
            else:
                ex = [(tags(), [outcome() for _ in range(rng.randint(0, 3))]) for _ in range(rng.randint(1, 2))]
                res.append(O(ex, tags=tags()))
        return res
    rules = [R(items(rng.randint(0, 3)), bg=rng.randint(0, 1)) for _ in range(rng.randint(0, 2))]
    return F(items(rng.randint(0 if rules else 1, 3)), rules=rules, bg=rng.randint(0, 1))


def random_case(rng):
    nfiles = rng.randint(1, 3)
    p_bad = rng.choice((0.0, 0.2, 0.4, 0.6))
    files = [random_c17_shape(rng, p_bad if rng.random() < 0.8 else 0.0) for _ in range(nfiles)]
    layout = random_layout(rng)
    hooks = []
    docs = [build(sh, prefix=FILES[i][0], layout=layout) for i, sh in enumerate(files)]
    for d, sh in zip(docs, files):
        for s in d.scenarios:
            r = rng.random()
            if r < 0.05:
                hooks.append(["before_scenario", s["key"]])
            elif r < 0.10:
                hooks.append(["after_scenario", s["key"]])
        if rng.random() < 0.08:
            hooks.append([rng.choice(("before_feature", "after_feature")), d.feature_name])
        for i, _r in enumerate(sh["rules"], 1):
            if rng.random() < 0.08:
                hooks.append([rng.choice(("before_rule", "after_rule")), "%sR%d" % (d.feature_name[0], i)])
    return mk(files, hooks=hooks, tags=rng.randint(0, 1), stale=rng.randint(0, 1), layout=layout)


def run_random(tier, rng):
    n = 120 if tier == "quick" else 2500
    for _ in range(n):
        yield safe_eval(random_case(rng))


CHECKS = [
    BoundedCheck(
        "rerun-history-systematic",
        bound={"quick": "182 fixed two-run histories, smallest first: 1 scenario x 6 step outcomes (pass, fail, error, "
                        "undefined, pending, skip) x stale file present/absent; failing before/after_scenario hook; all "
                        "36 outcome pairs of two scenarios and of two outline rows; two-step scenarios; two examples "
                        "blocks; inside/outside a rule (27); a mixed feature with each of before/after_feature, "
                        "before/after_rule hook failing, with and without tag exclusion; 2..3 files of which only some "
                        "have unsuccessful scenarios; features whose scenarios share keyword and name (two rules with the same "
                        "scenario names, three scenarios of one name)",
               "thorough": "same 182 histories"},
        run=run_systematic, replay=replay,
        contract="after run 1 with -f rerun -o F: non-comment lines of F == ['file:line' of every scenario that was "
                 "entered and ended failed/error-class, in run order] (writer's lines); F absent when there are none "
                 "(a stale F is removed); collect_feature_locations(['@F']) gives the same (file, line) list; "
                 "parse_features of it leaves exactly those scenarios not skipped; run 2 enters exactly those and "
                 "writes the same list"),
    BoundedCheck(
        "rerun-history-random",
        bound={"quick": "120 random histories (seeded): 1..3 files, 0..3 free items + 0..2 rules each, scenarios of "
                        "1..3 steps and outlines of 1..2 examples x 0..3 rows with outcomes from the 6-outcome alphabet, "
                        "random layout (comments, blank lines, descriptions, multi-line steps), ~10% scenarios with a "
                        "failing before/after_scenario hook, ~8% failing feature/rule hooks, optional --tags exclusion, "
                        "stale file present/absent",
               "thorough": "2500 random histories of the same family"},
        run=run_random, replay=replay,
        contract="same as rerun-history-systematic"),
]
