# -*- coding: utf-8 -*-
"""
harness.b_c09 -- bounded stand-ins (kind B) for C09, "Tag selection with inheritance
selects exactly the matching scenarios" (DESIGN.md 5.9).

Real runs (harness.runs_common.run2) of trees that carry tags on every level, with
``--tags=...`` in both dialects, --no-skipped on/off, --dry-run on/off.

Oracle (own code, from the property text):
  * effective tags of a scenario = own tags + tags of every enclosing rule and feature; of an
    outline row = the outline's non-parametrised tags + the outline's parametrised tags
    rendered with the row (``t_<n>`` -> ``t_1``) + the tags of its examples block + the tags
    of every enclosing rule and feature (runs_common.expand);
  * the expression is evaluated by runs_common.ev (own Boolean evaluator; wildcards
    ``p*`` / ``*s`` as startswith / endswith);
  * executed scenarios == selected scenarios: the call log is exactly the steps of the
    selected scenarios (document order), the scenario- and step-level part of the hook log is
    exactly the bracket of the selected scenarios; every other scenario has status skipped,
    all its steps skipped, no hook and no step function called;
  * a feature / rule without selected scenario has status skipped, one with a selected
    scenario (which passes or fails) has not;
  * in dry-run nothing is called; selected scenarios are not skipped, de-selected ones are;
    with --no-skipped the scenarios announced to the formatter are exactly the selected ones.
"""
from __future__ import print_function
import itertools

from harness.runs_common import (BoundedCheck, Interp, run2, flag_args, tag_args, observe, calls2,
                                 compare_steps, strip_container_hooks, scenarios_under, walk,
                                 T, W, NOT, AND, OR, to_v1, step, scenario, outline, rule, feature,
                                 short)

SUBSETS = ([], ["a"], ["b"], ["a", "b"])


def struct_a(tf, ts1, tr, ts2, fail2):
    return [feature("F", [scenario("S1", [step("s1", "pass")], ts1),
                          rule("R", [scenario("S2", [step("s2", "fail" if fail2 else "pass")], ts2)], tr)], tf)]


def struct_b(tf, to, te1, te2, fail):
    return [feature("F", [outline("O", [step("o<n>", "<o>")],
                                  [{"name": "E1", "tags": te1, "headings": ["n", "o"],
                                    "rows": [["1", "pass"], ["2", "fail" if fail else "pass"]]},
                                   {"name": "E2", "tags": te2, "headings": ["n", "o"], "rows": [["3", "pass"]]}],
                                  to + ["t_<n>"])], tf)]


def struct_c(p, fail):
    """Two features, every level: p = dict level -> tag list for f1,s1,r,s2,o,e1,f2,s3,r2,s4."""
    f1 = feature("F1", [scenario("S1", [step("s1", "pass")], p["s1"]),
                        rule("R", [scenario("S2", [step("s2", "fail" if fail else "pass")], p["s2"]),
                                   outline("O", [step("o<n>", "pass")],
                                           [{"name": "E1", "tags": p["e1"], "headings": ["n"], "rows": [["1"], ["2"]]}],
                                           p["o"] + ["t_<n>"])], p["r"], background=[step("rbg", "pass")])],
                 p["f1"], background=[step("fbg", "pass")], filename="f1.feature")
    f2 = feature("F2", [scenario("S3", [step("s3", "pass")], p["s3"]),
                        rule("R2", [scenario("S4", [step("s4", "pass")], p["s4"])], p["r2"])],
                 p["f2"], filename="f2.feature")
    return [f1, f2]


C_LEVELS = ("f1", "s1", "r", "s2", "o", "e1", "f2", "s3", "r2", "s4")

A, B = T("a"), T("b")
EXPRS_PLAIN = [A, NOT(A), AND(A, B), OR(A, B), AND(A, NOT(B)), AND(NOT(A), NOT(B)), OR(A, NOT(B)),
               NOT(OR(A, B)), NOT(AND(A, B))]
EXPRS_ROWS = [A, NOT(A), AND(A, NOT(B)), T("t_1"), NOT(T("t_1")), W("t_*"), NOT(W("t_*")), AND(A, W("t_*")),
              W("*_3"), OR(T("t_1"), T("t_3")), OR(A, T("t_2")), AND(NOT(T("t_2")), NOT(B)), AND(B, NOT(W("*_1")))]


def renderings(exprs):
    """(expr, dialect) pairs: v2 for every expression, v1 where expressible; the @-prefixed and
    ~ spellings alternate."""
    out = []
    for i, e in enumerate(exprs):
        out.append((e, "v2@" if i % 3 == 2 else "v2"))
        if to_v1(e) is not None:
            out.append((e, ("v1", "v1~", "v1@")[i % 3]))
    return out


def eval_selection(case):
    """case: trees, expr, dialect, show_skipped, dry_run"""
    trees, expr = case["trees"], case["expr"]
    dry, show = bool(case.get("dry_run")), bool(case.get("show_skipped", True))
    targs = tag_args(expr, case.get("dialect", "v2"))
    if targs is None:
        return case, False, "expression not expressible in dialect %s" % case.get("dialect")
    args = flag_args(False, dry, show) + targs
    ip = Interp(trees, expr, False, dry).run()
    obs = run2(trees, args)
    problems = []
    if obs.exception is not None:
        problems.append("exception escaped run(): %r" % (obs.exception,))
    scen = ip.scen_nodes()
    selected = [s.name for s in scen if ip.res[s.key]["selected"]]
    got_calls = calls2(obs.rec)
    if got_calls != ip.calls:
        problems.append("call log %r, expected %r" % (got_calls, ip.calls))
    started = [lab for name, lab in obs.rec.hooks if name == "before_scenario"]
    if not dry and started != selected:
        problems.append("scenarios started (before_scenario) %r, selected %r" % (started, selected))
    got_hooks = strip_container_hooks(obs.rec.hooks)
    want_hooks = ip.scenario_level_hook_log()
    if got_hooks != want_hooks:
        problems.append("scenario/step-level hook log %r, expected %r" % (got_hooks, want_hooks))
    try:
        seen = observe(obs.features, ip)
        problems += compare_steps(ip, seen)
        for s in scen:
            st = seen[s.key]["status"]
            if ip.res[s.key]["selected"]:
                if st == "skipped":
                    problems.append("selected scenario %s has status skipped" % s.name)
            elif st != "skipped":
                problems.append("de-selected scenario %s has status %s" % (s.name, st))
        for f in ip.feats:
            for n in walk(f):
                if n.kind in ("feature", "rule") and scenarios_under(n):
                    st = seen[n.key]["status"]
                    if ip.has_selected(n):
                        if st == "skipped":
                            problems.append("%s %s contains a selected scenario but has status skipped" % (n.kind, n.name))
                    elif st != "skipped":
                        problems.append("%s %s contains no selected scenario but has status %s" % (n.kind, n.name, st))
    except ValueError as e:
        problems.append(str(e))
    if dry and not show:
        announced = [e[1] for e in obs.rec.events if e[0] == "scenario"]
        if announced != selected:
            problems.append("dry-run --no-skipped: scenarios announced %r, selected %r" % (announced, selected))
    ok = not problems
    detail = "selected=%r" % (selected,) if ok else \
        "; ".join(problems[:5]) + "\nargs=%r\n%s" % (args, short("\n".join(obs.texts), 1500))
    return case, ok, detail


FLAGS = [(True, False), (False, False), (True, True), (False, True)]    # (show_skipped, dry_run)


def run_scenarios(tier, rng):
    i = 0
    rend = renderings(EXPRS_PLAIN)
    for tf, ts1, tr, ts2 in itertools.product(SUBSETS, repeat=4):
        for expr, dialect in rend:
            flags = [FLAGS[i % 4]] if tier == "quick" else FLAGS
            i += 1
            for show, dry in flags:
                yield eval_selection({"trees": struct_a(tf, ts1, tr, ts2, i % 2 == 0), "expr": expr,
                                      "dialect": dialect, "show_skipped": show, "dry_run": dry})


def run_rows(tier, rng):
    i = 0
    rend = renderings(EXPRS_ROWS)
    for tf, to, te1, te2 in itertools.product(SUBSETS, repeat=4):
        for expr, dialect in rend:
            flags = [FLAGS[i % 4]] if tier == "quick" else FLAGS
            i += 1
            for show, dry in flags:
                yield eval_selection({"trees": struct_b(tf, to, te1, te2, i % 2 == 0), "expr": expr,
                                      "dialect": dialect, "show_skipped": show, "dry_run": dry})


def run_random(tier, rng):
    n = 1500 if tier == "quick" else 40000
    rend = renderings(EXPRS_PLAIN + EXPRS_ROWS[3:])
    for i in range(n):
        p = dict((lv, list(rng.choice(SUBSETS))) for lv in C_LEVELS)
        expr, dialect = rng.choice(rend)
        show, dry = rng.choice(FLAGS)
        yield eval_selection({"trees": struct_c(p, rng.random() < 0.5), "expr": expr, "dialect": dialect,
                              "show_skipped": show, "dry_run": dry})


_EX_A = ("9 expressions over {a, b}: a, not a, a and b, a or b, a and not b, not a and not b, a or not b, "
         "not (a or b), not (a and b); each as v2 text and, where expressible, as v1 --tags values (%d renderings; "
         "spellings with @ prefix and ~ alternate)" % len(renderings(EXPRS_PLAIN)))
_EX_B = ("13 expressions: a, not a, a and not b, t_1, not t_1, t_*, not t_*, a and t_*, *_3, t_1 or t_3, a or t_2, "
         "not t_2 and not b, b and not *_1; v2 text and, where expressible, v1 values (%d renderings)" % len(renderings(EXPRS_ROWS)))

CHECKS = [
    BoundedCheck(
        "scenario-rule-feature",
        bound={"quick": "F[Tf]{S1[Ts1]; Rule R[Tr]{S2[Ts2]}} with every T in the 4 subsets of {a,b} (256 placements; "
                        "S2 fails in every second case) x " + _EX_A + " x one of the 4 combinations of (--no-skipped, "
                        "--dry-run) rotating; exhaustive",
               "thorough": "as quick x all 4 combinations of (--no-skipped, --dry-run)"},
        run=run_scenarios, replay=eval_selection,
        contract="executed scenarios (call log, hook log) == {s : ev(expr, effective_tags(s))}; every other scenario "
                 "skipped with all steps skipped and nothing of it called; feature/rule skipped iff it contains no "
                 "selected scenario"),
    BoundedCheck(
        "outline-rows",
        bound={"quick": "F[Tf]{Outline O[To + t_<n>]{Examples E1[Te1] rows n=1,2; Examples E2[Te2] row n=3}} with "
                        "every T in the 4 subsets of {a,b} (256 placements; row 2 fails in every second case) x "
                        + _EX_B + " x one of the 4 flag combinations rotating; exhaustive",
               "thorough": "as quick x all 4 flag combinations"},
        run=run_rows, replay=eval_selection,
        contract="as scenario-rule-feature; effective tags of a row = outline's plain tags + rendered parametrised "
                 "tags + examples block's tags + ancestors'"),
    BoundedCheck(
        "two-features-random",
        bound={"quick": "two features with backgrounds, rules, scenarios and an outline inside a rule (10 tagged "
                        "levels, each a random subset of {a,b}; outline also t_<n>) x random rendering out of %d "
                        "(expressions of the other two checks)" % len(renderings(EXPRS_PLAIN + EXPRS_ROWS[3:])) + " x random flags: 1500 seeded samples",
               "thorough": "as quick: 40000 seeded samples"},
        run=run_random, replay=eval_selection,
        contract="as scenario-rule-feature"),
]
