# -*- coding: utf-8 -*-
"""
harness.b_c08 -- bounded stand-ins (kind B) for property C08:

    "v1 tag expressions keep their meaning; dialect auto-detection never misreads"

Subject (real code, imported from $VERIF_REPO):
    behave.tag_expression.make_tag_expression(text_or_list, V1 | AUTO_DETECT).check(tags)
    and the TagExpressionError raised for mixed-dialect text.

Oracle (written here, from the property text only):
    an old-style expression is a conjunctive normal form: a list of argument groups
    (AND-ed), each a list of alternatives (OR-ed); an alternative is a tag, optionally
    negated by a leading '-' or '~', optionally written with '@', optionally followed by
    ':<limit>' (ignored for matching).  `cnf_table(formula)` evaluates that for every
    subset of TAGS.  New-style expressions: trees/renderings/evaluator of harness.b_c07.
"""
from __future__ import print_function
import itertools

from harness.bounded import BoundedCheck     # -- sets up sys.path for $VERIF_REPO first.
from harness import b_c07

from behave.tag_expression.parser import TagExpressionError    # noqa: E402


# =============================================================================
# INPUT SPACE (v1)
# =============================================================================
# -- "android" contains "and" and "or", "nota" starts with "not", "x-y" has an inner dash.
TAGS = ["a", "b", "x-y", "android", "nota"]
LIMITS = {"a": 3, "b": 1, "x-y": 12, "android": 2, "nota": 7}   # one limit per tag: consistent
NEGS = ["", "-", "~"]
FORMS = ["list", "string", "string-wide", "list-spaced"]
PROTOCOLS = ["V1", "AUTO_DETECT"]

N_SUBSETS = 1 << len(TAGS)
FULL = (1 << N_SUBSETS) - 1
SUBSETS = [[tag for j, tag in enumerate(TAGS) if (i >> j) & 1] for i in range(N_SUBSETS)]


def alt(tag, neg="", at=False, limit=None):
    return {"tag": tag, "neg": neg, "at": at, "limit": limit}


ALT_FORMS = [alt(tag, neg, at, limit)
             for limit_on in (False, True)
             for neg in ("-", "~", "")
             for at in (False, True)
             for tag in TAGS
             for limit in [LIMITS[tag] if limit_on else None]]


# =============================================================================
# ORACLE
# =============================================================================
_TAG_TABLES = {}


def tag_table(tag):
    bits = _TAG_TABLES.get(tag)
    if bits is None:
        bits = 0
        for i, subset in enumerate(SUBSETS):
            if tag in subset:
                bits |= 1 << i
        _TAG_TABLES[tag] = bits
    return bits


def cnf_table(formula):
    """groups AND-ed, alternatives OR-ed, prefix negates, '@' and ':N' do not matter."""
    bits = FULL
    for group in formula:
        group_bits = 0
        for a in group:
            t = tag_table(a["tag"])
            group_bits |= (FULL & ~t) if a["neg"] else t
        bits &= group_bits
    return bits


def real_table(expression):
    bits = 0
    check = expression.check
    for i, subset in enumerate(SUBSETS):
        if check(list(subset)):
            bits |= 1 << i
    return bits


def first_difference(observed, expected):
    diff = observed ^ expected
    i = (diff & -diff).bit_length() - 1
    return "tags=%r: observed %s, expected %s (%d of %d rows differ)" % (
        SUBSETS[i], bool((observed >> i) & 1), bool((expected >> i) & 1),
        bin(diff).count("1"), N_SUBSETS)


# =============================================================================
# RENDERING (v1)
# =============================================================================
def render_alt(a):
    text = a["neg"] + ("@" if a["at"] else "") + a["tag"]
    if a["limit"] is not None:
        text += ":%d" % a["limit"]
    return text


def render_cnf(formula, form):
    """
      list         one argument per group (as repeated --tags options give it)
      list-spaced  same, alternatives separated by ", "
      string       groups separated by one space
      string-wide  groups separated by two spaces, leading and trailing space
    """
    if form == "list-spaced":
        return [", ".join(render_alt(a) for a in group) for group in formula]
    groups = [",".join(render_alt(a) for a in group) for group in formula]
    if form == "list":
        return groups
    if form == "string":
        return " ".join(groups)
    if form == "string-wide":
        return " " + "  ".join(groups) + " "
    raise ValueError(form)


# =============================================================================
# CHECK 1: CNF truth tables (v1, auto-detect)
# =============================================================================
def check_cnf(formula, form, protocol, via="arg"):
    text = render_cnf(formula, form)
    expected = cnf_table(formula)
    try:
        expression = b_c07.parse_real(text, protocol, via)
        observed = real_table(expression)
    except Exception as exc:    # pylint: disable=broad-except
        return False, "text=%r raised %s" % (text, b_c07.describe_error(exc))
    if observed != expected:
        return False, "text=%r parsed=%r (%s) %s" % (
            text, expression, type(expression).__module__, first_difference(observed, expected))
    return True, "text=%r parsed by %s" % (text, type(expression).__module__)


def is_one_word(formula):
    return len(formula) == 1 and len(formula[0]) == 1


def random_alt(rng):
    tag = rng.choice(TAGS)
    return alt(tag, rng.choice(("", "", "-", "~")), rng.random() < 0.5,
               LIMITS[tag] if rng.random() < 0.25 else None)


def cnf_formulas(tier, rng):
    """Yields (formula, forms)."""
    forms_main = ["list", "string"] if tier == "quick" else FORMS
    # -- PART 1: 1x1, 1x2, 2x1 with every decoration of every alternative.
    for a in ALT_FORMS:
        yield [[a]], FORMS
    for a, b in itertools.product(ALT_FORMS, repeat=2):
        yield [[a, b]], forms_main
        yield [[a], [b]], forms_main
    # -- PART 2: the Boolean skeleton, undecorated: literals over {a, b, x-y}.
    literals = [alt(tag, neg) for tag in TAGS[:3] for neg in ("", "-")]
    groups = [[x] for x in literals] + [[x, y] for x in literals for y in literals]
    max_groups = 2 if tier == "quick" else 3
    for n in range(1, max_groups + 1):
        for formula in itertools.product(groups, repeat=n):
            if n == 1 and len(formula[0]) == 1:
                continue        # -- in PART 1
            yield [list(g) for g in formula], ["list", "string"]
    # -- PART 3: every size signature 1..3 groups x 1..3 alternatives, random decoration.
    per_signature = 25 if tier == "quick" else 1500
    for n in (1, 2, 3):
        for sizes in itertools.product((1, 2, 3), repeat=n):
            for _ in range(per_signature):
                yield [[random_alt(rng) for _ in range(size)] for size in sizes], FORMS


def run_cnf(tier, rng):
    count = 0
    for formula, forms in cnf_formulas(tier, rng):
        for form in forms:
            for protocol in PROTOCOLS:
                if protocol == "AUTO_DETECT" and is_one_word(formula):
                    continue    # -- the one-word branch of auto-detection: check auto-one-word
                count += 1
                via = "use" if count % 16 == 0 else "arg"
                case = {"formula": formula, "form": form, "protocol": protocol, "via": via}
                ok, detail = check_cnf(formula, form, protocol, via)
                yield case, ok, detail


def replay_cnf(case):
    ok, detail = check_cnf(case["formula"], case["form"], case["protocol"], case.get("via", "arg"))
    return case, ok, detail


# =============================================================================
# CHECK 2: auto-detection, one word (and the empty expression)
# =============================================================================
ONE_WORD_LIMIT_TAG = "a"


def run_one_word(tier, rng):
    # -- the empty old-style expression: no argument at all.
    for form in ("list", "string"):
        for protocol in PROTOCOLS:
            case = {"formula": [], "form": form, "protocol": protocol, "via": "arg"}
            ok, detail = check_cnf([], form, protocol)
            yield case, ok, detail
    # -- ALT_FORMS order: without limit first; negated before plain.  The ':N' suffix is
    #    explored on the tag a only (the word's tag does not enter the dialect decision).
    one_word_alts = [a for a in ALT_FORMS if a["limit"] is None or a["tag"] == ONE_WORD_LIMIT_TAG]
    for a in one_word_alts:
        for form in ("list", "string"):
            case = {"formula": [[a]], "form": form, "protocol": "AUTO_DETECT", "via": "arg"}
            ok, detail = check_cnf([[a]], form, "AUTO_DETECT")
            yield case, ok, detail
    for a in one_word_alts:
        if a["limit"] is not None:
            continue
        case = {"formula": [[a]], "form": "string-wide", "protocol": "AUTO_DETECT", "via": "use"}
        ok, detail = check_cnf([[a]], "string-wide", "AUTO_DETECT", "use")
        yield case, ok, detail


# =============================================================================
# CHECK 3: every C07 rendering under auto-detection has its v2 meaning
# =============================================================================
def run_auto_v2(tier, rng):
    count = 0
    for tree, variants in b_c07.tree_cases(tier, rng):
        for variant in variants:
            count += 1
            via = "use" if count % 16 == 0 else "arg"
            case = {"tree": tree, "variant": variant, "via": via}
            ok, detail = b_c07.check_truth_table(tree, variant, "AUTO_DETECT", via)
            yield case, ok, detail


def replay_auto_v2(case):
    ok, detail = b_c07.check_truth_table(case["tree"], case["variant"], "AUTO_DETECT",
                                         case.get("via", "arg"))
    return case, ok, detail


# =============================================================================
# CHECK 4: v1 negation prefix mixed with v2 operators is rejected
# =============================================================================
V2_OPERATOR_WORDS = ("and", "or", "not", "(", ")")


class _MixedAts(object):
    """Like b_c07._Ats, but occurrence number `index` (0-based) of an operand gets the
    old-style negation prefix: -x, ~x, -@x, ~@x."""
    def __init__(self, mode, index, prefix):
        self.ats = b_c07._Ats(mode)     # pylint: disable=protected-access
        self.index = index
        self.prefix = prefix
        self.seen = 0

    def __call__(self, operand):
        text = self.ats(operand)
        if self.seen == self.index:
            text = self.prefix + text
        self.seen += 1
        return text


def render_mixed(tree, variant, index, prefix):
    parens, at_mode, style, form = b_c07.VARIANTS[variant]
    ats = _MixedAts(at_mode, index, prefix)
    if form == "list":
        terms = tree[1:] if (not isinstance(tree, str) and tree[0] == "and") else [tree]
        return [b_c07.join_tokens(b_c07.tokens(term, parens, ats), style) for term in terms]
    return b_c07.join_tokens(b_c07.tokens(tree, parens, ats), style)


def count_operands(tree):
    if isinstance(tree, str):
        return 1
    return sum(count_operands(child) for child in tree[1:])


def words_of(text_or_list):
    text = " ".join(text_or_list) if isinstance(text_or_list, list) else text_or_list
    for paren in "()":
        text = text.replace(paren, " %s " % paren)
    return text.split()


def check_mixed(tree, variant, index, prefix, via="arg"):
    text = render_mixed(tree, variant, index, prefix)
    words = words_of(text)
    if not any(w in V2_OPERATOR_WORDS for w in words):
        return None, "text=%r has no new-style operator (pure old-style): not in this check" % (text,)
    if not any(w.startswith(("-", "~")) for w in words):
        return None, "text=%r has no old-style negation" % (text,)
    try:
        expression = b_c07.parse_real(text, "AUTO_DETECT", via)
    except TagExpressionError as exc:
        return True, "text=%r rejected: %s" % (text, b_c07.describe_error(exc)[:120])
    except Exception as exc:    # pylint: disable=broad-except
        return False, "text=%r raised %s, expected TagExpressionError" % (text, b_c07.describe_error(exc))
    return False, "text=%r accepted as %r (%s), expected TagExpressionError" % (
        text, expression, type(expression).__module__)


def mixed_cases(tier, rng):
    for tree in b_c07.trees_upto(1, b_c07.OPERANDS):
        for variant in b_c07.VARIANT_NAMES:
            for index in range(count_operands(tree)):
                for prefix in ("-", "~"):
                    yield tree, variant, index, prefix
    if tier == "quick":
        deeper = [t for t in b_c07.trees_upto(2, b_c07.OPERANDS_SMALL) if b_c07.tree_depth(t) == 2]
        deeper = rng.sample(deeper, 300)
        n_random = 100
    else:
        deeper = [t for t in b_c07.trees_upto(2, b_c07.OPERANDS_MEDIUM) if b_c07.tree_depth(t) == 2]
        n_random = 3000
    for tree in deeper:
        for variant in b_c07.VARIANT_NAMES:
            yield tree, variant, rng.randrange(count_operands(tree)), rng.choice(("-", "~"))
    for _ in range(n_random):
        tree = b_c07.random_tree(rng, rng.randint(2, 5), b_c07.OPERANDS)
        for variant in b_c07.VARIANT_NAMES:
            yield tree, variant, rng.randrange(count_operands(tree)), rng.choice(("-", "~"))


def run_mixed(tier, rng):
    count = 0
    for tree, variant, index, prefix in mixed_cases(tier, rng):
        count += 1
        via = "use" if count % 16 == 0 else "arg"
        ok, detail = check_mixed(tree, variant, index, prefix, via)
        if ok is None:
            continue            # -- not a mixed text: outside this check's requires
        case = {"tree": tree, "variant": variant, "negated_operand": index, "prefix": prefix, "via": via}
        yield case, ok, detail


def replay_mixed(case):
    ok, detail = check_mixed(case["tree"], case["variant"], case["negated_operand"], case["prefix"],
                             case.get("via", "arg"))
    return case, bool(ok), detail


# =============================================================================
# CHECKS
# =============================================================================
_V1_SPACE = ("tags {a, b, x-y, android, nota}; an alternative = tag x prefix {none, -, ~} x {with, without @} x "
             "{no limit, :N with one fixed N per tag} (60 forms); complete truth table = all 32 subsets of the "
             "5 tags; forms: list of arguments, list with ', ' between alternatives, one space-separated string, "
             "string with double/outer spaces; protocols V1 and AUTO_DETECT (every 16th case via "
             "TagExpressionProtocol.use + make_tag_expression(text)); under AUTO_DETECT the one-word formulas "
             "(1 group x 1 alternative) are left to the check auto-one-word. Tags named and/or/not or "
             "containing * ? [ ( ) , : are not in the space")

# -- several configurations in one process: the dialect of an earlier one must not leak ------------------------------------
def _config_table(protocol_name, tags_args):
    from behave.configuration import Configuration
    from behave.tag_expression.builder import TagExpressionProtocol
    cfg = Configuration(["--tags=%s" % t for t in tags_args], load_config=False,
                        tag_expression_protocol=TagExpressionProtocol.from_name(protocol_name))
    universe = ["foo", "bar", "baz"]
    rows = []
    for n in range(len(universe) + 1):
        for sub in itertools.combinations(universe, n):
            rows.append(bool(cfg.tag_expression.check(list(sub))))
    return rows


def _history_case(case):
    from behave.tag_expression.builder import TagExpressionProtocol
    def table(proto, args):
        try:
            return _config_table(proto, args)
        except Exception as e:      # noqa
            return "%s: %s" % (type(e).__name__, str(e)[:80])
    try:
        TagExpressionProtocol.use(TagExpressionProtocol.DEFAULT)
        alone = table(case["second"][0], case["second"][1])
        TagExpressionProtocol.use(TagExpressionProtocol.DEFAULT)
        table(case["first"][0], case["first"][1])
        after = table(case["second"][0], case["second"][1])
    finally:
        TagExpressionProtocol.use(TagExpressionProtocol.DEFAULT)
    ok = alone == after
    return case, ok, "second configuration alone: %r; after the first one: %r" % (alone, after)


HISTORY_CONFIGS = [("v1", ["@foo", "-@bar"]), ("v1", ["@foo,@bar"]), ("v2", ["not @foo or @bar"]), ("v2", ["@foo and @bar"]),
                   ("auto_detect", ["not @foo or @bar"]), ("auto_detect", ["@foo", "-@bar"]), ("auto_detect", ["@foo and not @bar"]),
                   ("auto_detect", ["@foo,@baz"])]


def run_config_history(tier, rng):
    for first in HISTORY_CONFIGS:
        for second in HISTORY_CONFIGS:
            yield _history_case({"first": [first[0], list(first[1])], "second": [second[0], list(second[1])]})


CHECKS = [
    BoundedCheck(
        "configuration-history",
        bound={"quick": "all 64 ordered pairs of 8 configurations (protocol v1 / v2 / auto_detect x old-style, new-style and mixed "
                        "--tags arguments) created one after the other in one process; complete truth table over 3 tags",
               "thorough": "same"},
        run=run_config_history, replay=_history_case,
        contract="the truth table of Configuration(...).tag_expression of the second configuration == the table it has when it "
                 "is the only configuration of the process (the process-wide dialect of an earlier configuration does not leak)"),

    BoundedCheck(
        "v1-cnf-truth-tables",
        bound={
            "quick": "exhaustive: all 60 (1x1, V1 only, 4 forms), 3600 1x2 and 3600 2x1 formulas over the 60 "
                     "alternative forms (forms list, string); all undecorated CNFs of 1..2 groups x 1..2 "
                     "alternatives over the literals {a,-a,b,-b,x-y,-x-y} (forms list, string); sampled (seeded): "
                     "25 random decorations for each of the 39 size signatures 1..3 groups x 1..3 alternatives "
                     "(4 forms). " + _V1_SPACE,
            "thorough": "exhaustive: all 60 1x1 (V1 only), 3600 1x2 and 3600 2x1 formulas over the 60 alternative "
                        "forms (4 forms); all undecorated CNFs of 1..3 groups x 1..2 alternatives over the literals "
                        "{a,-a,b,-b,x-y,-x-y} (75894 formulas, the 6 one-literal ones being in the first part; forms list, string); sampled (seeded): 1500 random "
                        "decorations for each of the 39 size signatures 1..3 groups x 1..3 alternatives (4 forms). "
                        + _V1_SPACE,
        },
        run=run_cnf, replay=replay_cnf,
        contract="requires text == render_cnf(F, form), protocol in {V1, AUTO_DETECT}; ensures forall S subset of "
                 "TAGS: make_tag_expression(text, protocol).check(S) == AND over groups g of F. OR over alternatives "
                 "x of g. ((x.tag in S) xor x.negated)  -- '@' and ':limit' do not change the meaning; no exception"),
    BoundedCheck(
        "auto-one-word",
        bound={
            "quick": "AUTO_DETECT on one-word formulas: 5 tags x prefix none/-/~ x with/without @ without limit "
                     "(30 words: as one-element list, as string, and via TagExpressionProtocol.use as string with "
                     "outer spaces) and, for the tag a only, the same 6 words with ':3' (as one-element list and as "
                     "string); plus the empty expression ([] and '') under V1 and AUTO_DETECT; 106 cases, "
                     "32-row truth tables",
            "thorough": "same as quick",
        },
        run=run_one_word, replay=replay_cnf,
        contract="forall S subset of TAGS: make_tag_expression(one word w, AUTO_DETECT).check(S) == "
                 "((tag(w) in S) xor negated(w)): whichever dialect is chosen for a single word, it has the "
                 "old-style meaning of that word ('@' optional, ':limit' ignored); empty expression selects all"),
    BoundedCheck(
        "auto-v2-renderings",
        bound={
            "quick": "the tree/rendering space of C07 v2-truth-tables/quick (see harness/b_c07.py; sampled part "
                     "re-drawn from the seed) parsed with AUTO_DETECT; 128-row truth tables over C07's 7-tag universe",
            "thorough": "the tree/rendering space of C07 v2-truth-tables/thorough parsed with AUTO_DETECT; "
                        "128-row truth tables over C07's 7-tag universe",
        },
        run=run_auto_v2, replay=replay_auto_v2,
        contract="requires text == render(t, variant); ensures forall S subset of U: "
                 "make_tag_expression(text, AUTO_DETECT).check(S) == [[t]](S) (the v2 meaning); no exception"),
    BoundedCheck(
        "auto-mixed-rejected",
        bound={
            "quick": "C07 renderings in which one operand occurrence gets an old-style prefix (-x, ~x, -@x, ~@x): "
                     "all 144 trees of depth <= 1 over the 8 operands x 11 renderings x every operand position x "
                     "{-, ~}; 300 sampled depth-2 trees over {x-y, a*, [ab]c} and 100 random trees of depth <= 5, "
                     "x 11 renderings with a random position and prefix; only texts that still contain a word "
                     "and/or/not or a parenthesis (others are pure old-style and skipped, not counted)",
            "thorough": "as quick, with all 7205 depth-2 trees over {a, x-y, k=v, a*, ?b} and 3000 random trees of "
                        "depth <= 5, x 11 renderings with a random position and prefix",
        },
        run=run_mixed, replay=replay_mixed,
        contract="requires: some word of text starts with - or ~ and some word is and/or/not/(/) ; "
                 "ensures make_tag_expression(text, AUTO_DETECT) raises TagExpressionError"),
]
