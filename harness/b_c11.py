# -*- coding: utf-8 -*-
"""
harness.b_c11 -- bounded stand-ins (kind B) for C11, "Step matching and dispatch:
full-text match, right definition, right arguments" (DESIGN.md 5.11, paragraph B).

Four checks on the real behave code (behave/matchers.py, behave/step_registry.py):

``fulltext-match``      matcher.match(text) is a Match iff the text is a complete,
                        case-sensitive instance of the pattern;
``arguments``           Match.arguments (start, end, original, value, name) and the
                        arguments received by the step function through Match.run;
``dispatch-histories``  all registration histories (with use_step_matcher switches)
                        over a small alphabet, then all lookups (step type x text);
``ambiguity-catalogue`` re-registration / ambiguity / precedence scenarios over the
                        pattern catalogue of the first two checks.

The oracle is written here and shares nothing with behave, parse, parse_type or re:

* patterns are *abstract* (a list of literals, typed fields and optional groups);
  each matcher kind has a renderer that writes the abstract pattern in the
  matcher's pattern language;
* ``solutions(elems, text)`` is a small backtracking matcher over the abstract
  pattern, with the field types specified by character predicates
  (``_is_int``, ``_is_word``, ...) and hand-written converters;
* the registry is modelled by one list per step type (``_Model``).

Elements of an abstract pattern ("elems", JSON):
    ["L", text]          literal text
    ["F", kind, name]    field of the given kind; name is null for an anonymous field
    ["O", [elems...]]    optional group (regex kinds only)
"""
from __future__ import print_function
import contextlib
import itertools

from harness.bounded import BoundedCheck      # (sets sys.path for $VERIF_REPO first)

import parse
from behave import matchers as _bm
from behave import use_step_matcher as _use_step_matcher
from behave.matchers import (Match, MatchWithError, ParseMatcher, CFParseMatcher,
                             SimplifiedRegexMatcher, CucumberRegexMatcher,
                             StepMatcherFactory)
from behave.model import Step
from behave.runner import Context
from behave.step_registry import StepRegistry, AmbiguousStep

TYPES = ("given", "when", "then", "step")
MATCHER_CLASS = {"parse": ParseMatcher, "cfparse": CFParseMatcher,
                 "re": SimplifiedRegexMatcher, "re0": CucumberRegexMatcher}
FAMILY = {"parse": "parse", "cfparse": "cfparse", "re": "regex", "re0": "regex"}


# =============================================================================
# SPEC PART 1: field kinds (character-level specification, own converters)
# =============================================================================
_DIGITS = "0123456789"
COLORS = ("red", "green", "blue")


def _is_digits(s):
    return len(s) > 0 and all(c in _DIGITS for c in s)


def _unsigned(s):
    return s[1:] if s[:1] in ("+", "-") else s


def _is_int(s):                       # optional sign, decimal digits
    return _is_digits(_unsigned(s))


def _is_word(s):                      # letters, digits, underscore
    return len(s) > 0 and all(c == "_" or c.isalnum() for c in s)


def _is_float(s):                     # optional sign, optional digits, ".", digits
    head, dot, tail = _unsigned(s).partition(".")
    return dot == "." and _is_digits(tail) and (head == "" or _is_digits(head))


def _is_any(s):
    return len(s) > 0


def _is_color(s):
    return s in COLORS


def _conv_color(s):
    return ("color", s.upper())


def _many_items(s):
    """Items of a comma separated list (blanks allowed around the commas, not at
    the outer ends), or None."""
    parts = s.split(",")
    if parts[0] != parts[0].lstrip() or parts[-1] != parts[-1].rstrip():
        return None
    return [p.strip() for p in parts]


def _many(item_ok, item_conv, allow_empty):
    def accept(s):
        if s == "":
            return allow_empty
        items = _many_items(s)
        return items is not None and all(item_ok(i) for i in items)

    def convert(s):
        if s == "":
            return []
        return [item_conv(i) for i in _many_items(s)]
    return accept, convert


def _optional(item_ok, item_conv):
    return ((lambda s: s == "" or item_ok(s)),
            (lambda s: None if s == "" else item_conv(s)))


def _ident(s):
    return s


class _Kind(object):
    def __init__(self, accept, convert, minlen, spec, samples):
        self.accept = accept      # predicate on the delimited text
        self.convert = convert    # text -> value handed to the step function
        self.minlen = minlen      # 0 if the field may be empty
        self.spec = spec          # how the field is written in the pattern language
        self.samples = samples    # (sample 0, sample 1) instance texts


_acc_nums1, _cv_nums = _many(_is_digits, int, False)
_acc_nums0, _ = _many(_is_digits, int, True)
_acc_cols1, _cv_cols = _many(_is_color, _conv_color, False)
_acc_numq, _cv_numq = _optional(_is_digits, int)
_acc_colq, _cv_colq = _optional(_is_color, _conv_color)

KINDS = {
    # -- parse / cfparse: "{name<spec>}"
    "any":    _Kind(_is_any, _ident, 1, "", ("foo", "foo bar")),
    "int":    _Kind(_is_int, int, 1, ":d", ("12", "-3")),
    "word":   _Kind(_is_word, _ident, 1, ":w", ("ab_1", "Zed")),
    "float":  _Kind(_is_float, float, 1, ":f", ("1.5", "-.25")),
    "color":  _Kind(_is_color, _conv_color, 1, ":Color", ("red", "blue")),
    "num":    _Kind(_is_digits, int, 1, ":Number", ("7", "42")),
    # -- cfparse only: cardinality fields
    "num+":   _Kind(_acc_nums1, _cv_nums, 1, ":Number+", ("7", "1, 2,3")),
    "num*":   _Kind(_acc_nums0, _cv_nums, 0, ":Number*", ("4,5", "")),
    "num?":   _Kind(_acc_numq, _cv_numq, 0, ":Number?", ("9", "")),
    "color?": _Kind(_acc_colq, _cv_colq, 0, ":Color?", ("green", "")),
    "color+": _Kind(_acc_cols1, _cv_cols, 1, ":Color+", ("red, blue", "red")),
    # -- regex: "(?P<name>spec)" / "(spec)"; no conversion
    "rword":   _Kind(_is_word, _ident, 1, r"\w+", ("ab_1", "Zed")),
    "rdigits": _Kind(_is_digits, _ident, 1, r"\d+", ("12", "007")),
    "rany":    _Kind(_is_any, _ident, 1, r".+", ("foo", "foo bar")),
    "ralt":    _Kind(_is_color, _ident, 1, r"red|green|blue", ("red", "blue")),
    "rdash":   _Kind((lambda s: s == "-"), _ident, 1, r"-", ("-", "-")),
}
PARSE_KINDS = ("any", "int", "word", "float", "color", "num")
CFPARSE_KINDS = PARSE_KINDS + ("num+", "num*", "num?", "color?", "color+")
REGEX_KINDS = ("rword", "rdigits", "rany", "ralt", "rdash")
KINDS_OF_FAMILY = {"parse": PARSE_KINDS, "cfparse": CFPARSE_KINDS, "regex": REGEX_KINDS}


# -- the real converters registered with behave for the custom types --------------
@parse.with_pattern(r"red|green|blue")
def _real_parse_color(text):
    return ("color", text.upper())


@parse.with_pattern(r"\d+")
def _real_parse_number(text):
    return int(text)


@contextlib.contextmanager
def custom_types():
    """Register Color/Number through the matcher class API; restore the
    (process-global) type registry afterwards."""
    registry = ParseMatcher.TYPE_REGISTRY
    saved = dict(registry)
    try:
        ParseMatcher.register_type(Color=_real_parse_color, Number=_real_parse_number)
        yield
    finally:
        registry.clear()
        registry.update(saved)


# =============================================================================
# SPEC PART 2: rendering and the reference matcher
# =============================================================================
_LITERAL_CHARS = set("abcdefghijklmnopqrstuvwxyzABCDEFGHIJKLMNOPQRSTUVWXYZ0123456789 _-.,+")


def _check_elems(elems, family, top=True):
    for e in elems:
        if e[0] == "L":
            # literals are plain text in every pattern language used here
            limit = _LITERAL_CHARS if family != "regex" else _LITERAL_CHARS - set(".+")
            assert e[1] and set(e[1]) <= limit, e
        elif e[0] == "F":
            assert e[1] in KINDS_OF_FAMILY[family], (family, e)
        elif e[0] == "O":
            assert family == "regex" and top, e
            _check_elems(e[1], family, top=False)
        else:
            raise AssertionError(e)


def render(kind, elems):
    """Write the abstract pattern in the pattern language of matcher `kind`."""
    family = FAMILY[kind]
    _check_elems(elems, family)
    text = _render_seq(family, elems)
    if kind == "re0":
        text = "^" + text + "$"
    return text


def _render_seq(family, elems):
    out = []
    for e in elems:
        if e[0] == "L":
            out.append(e[1])
        elif e[0] == "F":
            spec = KINDS[e[1]].spec
            name = e[2]
            if family == "regex":
                out.append("(?P<%s>%s)" % (name, spec) if name else "(%s)" % spec)
            else:
                out.append("{%s%s}" % (name or "", spec))
        else:
            inner = e[1]
            if len(inner) == 1 and inner[0][0] == "F":
                out.append(_render_seq(family, inner) + "?")
            else:
                out.append("(?:%s)?" % _render_seq(family, inner))
    return "".join(out)


def _fields_of(elems):
    for e in elems:
        if e[0] == "F":
            yield e
        elif e[0] == "O":
            for x in _fields_of(e[1]):
                yield x


def solutions(elems, text):
    """All ways in which `text` is a complete instance of the abstract pattern.
    Each solution: list of (start, end, original, value, name) in pattern order;
    a field of an optional group that does not take part is (-1, -1, None, None, name)."""
    found = []

    def seq(items, i, pos, acc, cont):
        if i == len(items):
            cont(pos, acc)
            return
        e = items[i]
        if e[0] == "L":
            if text.startswith(e[1], pos):
                seq(items, i + 1, pos + len(e[1]), acc, cont)
        elif e[0] == "F":
            kind = KINDS[e[1]]
            for end in range(pos + kind.minlen, len(text) + 1):
                sub = text[pos:end]
                if kind.accept(sub):
                    seq(items, i + 1, end,
                        acc + [(pos, end, sub, kind.convert(sub), e[2])], cont)
        else:
            seq(e[1], 0, pos, acc, lambda p, a: seq(items, i + 1, p, a, cont))
            skipped = [(-1, -1, None, None, f[2]) for f in _fields_of(e[1])]
            seq(items, i + 1, pos, acc + skipped, cont)

    def done(pos, acc):
        if pos == len(text) and acc not in found:
            found.append(acc)

    seq(elems, 0, 0, [], done)
    return found


def instance(elems, v):
    """Instance text of the pattern for value set v: 0/1 = every field takes its
    sample 0/1 (optional groups present for 0, absent for 1); 2 = alternating."""
    counter = [0]

    def seq(items):
        out = []
        for e in items:
            if e[0] == "L":
                out.append(e[1])
            elif e[0] == "F":
                j = counter[0]
                counter[0] += 1
                pick = v if v in (0, 1) else j % 2
                out.append(KINDS[e[1]].samples[pick])
            else:
                j = counter[0]
                pick = v if v in (0, 1) else j % 2
                if pick == 0:
                    out.append(seq(e[1]))
                else:
                    counter[0] += len(list(_fields_of(e[1])))
        return "".join(out)
    return seq(elems)


def _mutate_literal(text, how):
    if how == "case":
        return text.swapcase()
    for k, c in enumerate(text):            # "changed literal": other first letter
        if c.isalpha():
            return text[:k] + ("x" if c not in "xX" else "y") + text[k + 1:]
    return text


def derived_texts(elems, v):
    """Texts derived from the pattern: exact instance, wrong case of each literal,
    wrong case of each alphabetic field value, extra prefix, extra suffix, last
    character cut off, each literal changed.  Deduplicated, order kept."""
    exact = instance(elems, v)
    texts = [exact, "zz " + exact, exact + " zz", exact[:-1]]
    for i, e in enumerate(elems):
        if e[0] == "L" and any(c.isalpha() for c in e[1]):
            for how in ("case", "change"):
                changed = [list(x) for x in elems]
                changed[i] = ["L", _mutate_literal(e[1], how)]
                texts.append(instance(changed, v))
    # -- wrong case inside a field value (field j of the instance)
    spans = [s for s in solutions(elems, exact)][:1]
    for sol in spans:
        for (start, end, original, _value, _name) in sol:
            if original and any(c.isalpha() for c in original):
                texts.append(exact[:start] + original.swapcase() + exact[end:])
    seen = []
    for t in texts:
        if t not in seen:
            seen.append(t)
    return seen


# =============================================================================
# Pattern catalogue
# =============================================================================
def _slots(kind):
    """Field shapes ("slots") per matcher kind; each is a function j -> element."""
    family = FAMILY[kind]

    def named(k):
        return lambda j: ["F", k, "p%d" % j]

    def anon(k):
        return lambda j: ["F", k, None]

    if family == "regex":
        return [named("rword"), anon("rword"), named("rdigits"), anon("rdigits"),
                named("rany"), anon("ralt"),
                lambda j: ["O", [["L", "maybe "], ["F", "rword", "p%d" % j]]],
                lambda j: ["O", [["F", "rdash", None]]]]
    slots = [named("any"), anon("any"), named("int"), anon("int"), named("word"),
             anon("word"), named("float"), named("color"), named("num")]
    if family == "cfparse":
        slots += [named("num+"), named("num*"), named("num?"), named("color?"),
                  named("color+")]
    return slots


def catalogue(kind, max_fields):
    """All patterns with 0..max_fields slots joined by the literal " and ", with
    and without a leading literal "I have " and a trailing literal " here"."""
    slots = _slots(kind)
    for n in range(0, max_fields + 1):
        for combo in itertools.product(range(len(slots)), repeat=n):
            for lead in ("I have ", ""):
                for tail in (" here", ""):
                    if n == 0:
                        if lead and tail:
                            yield [["L", "I have a step here"]]
                        continue
                    elems = []
                    if lead:
                        elems.append(["L", lead])
                    for j, s in enumerate(combo):
                        if j:
                            elems.append(["L", " and "])
                        elems.append(slots[s](j))
                    if tail:
                        elems.append(["L", tail])
                    yield elems


# =============================================================================
# Observation helpers (real code)
# =============================================================================
_CALLS = []


def f0(context, *args, **kwargs):
    _CALLS.append(("f0", context, args, kwargs))


def f1(context, *args, **kwargs):
    _CALLS.append(("f1", context, args, kwargs))


FUNCS = {"f0": f0, "f1": f1}


class _StubRunner(object):
    config = None


def make_matcher(kind, pattern, func=f0):
    """Build the real matcher through a fresh (non-global) StepMatcherFactory."""
    factory = StepMatcherFactory()
    factory.use_step_matcher(kind)
    return factory.make_step_matcher(func, pattern, step_type="given")


def _is_real_match(m):
    return m is not None and isinstance(m, Match) and not isinstance(m, MatchWithError)


def _describe_match(m):
    if m is None:
        return "None"
    if isinstance(m, MatchWithError):
        return "MatchWithError(%r)" % (m.stored_error,)
    return "Match(%r)" % (_args_of(m),)


def _args_of(m):
    return [(a.start, a.end, a.original, a.value, a.name) for a in m.arguments]


def _same_args(observed, expected):
    """Equality including the types of the values (3 vs 3.0 vs "3")."""
    if len(observed) != len(expected):
        return False
    for o, e in zip(observed, expected):
        if o != e or _typesig(o[3]) != _typesig(e[3]):
            return False
    return True


def _typesig(v):
    if isinstance(v, (list, tuple)):
        return (type(v).__name__, tuple(_typesig(x) for x in v))
    return type(v).__name__


def _tiers(tier, quick, thorough):
    return thorough if tier == "thorough" else quick


# =============================================================================
# CHECK 1: full-text, case-sensitive matching
# =============================================================================
KINDS4 = ("parse", "cfparse", "re", "re0")


def _eval_fulltext(matcher, elems, text):
    expected = bool(solutions(elems, text))
    m = matcher.match(text)
    observed = _is_real_match(m)
    ok = (observed == expected)
    detail = "pattern %r, text %r: expected %s, observed %s" % (
        matcher.pattern, text, "a Match" if expected else "no match", _describe_match(m))
    return ok, detail


def _space(tier):
    max_fields = _tiers(tier, 2, 3)
    value_sets = _tiers(tier, (0, 1), (0, 1, 2))
    for kind in KINDS4:
        for elems in catalogue(kind, max_fields):
            texts = []
            for v in value_sets:
                for t in derived_texts(elems, v):
                    if t not in texts:
                        texts.append(t)
            yield kind, elems, texts


def run_fulltext(tier, rng):
    for kind, elems, texts in _space(tier):
        results = []
        with custom_types():
            matcher = make_matcher(kind, render(kind, elems))
            for text in texts:
                ok, detail = _eval_fulltext(matcher, elems, text)
                results.append(({"matcher": kind, "elems": elems, "text": text}, ok, detail))
        for r in results:
            yield r


def replay_fulltext(case):
    with custom_types():
        matcher = make_matcher(case["matcher"], render(case["matcher"], case["elems"]))
        ok, detail = _eval_fulltext(matcher, case["elems"], case["text"])
    return case, ok, detail


# =============================================================================
# CHECK 2: arguments (spans, values, names, order; delivery through Match.run)
# =============================================================================
def _eval_arguments(matcher, elems, text):
    sols = solutions(elems, text)
    assert sols, "harness: not an instance"
    head = "pattern %r, text %r: " % (matcher.pattern, text)
    m = matcher.match(text)
    if not _is_real_match(m):
        return False, head + "no Match to inspect: %s" % _describe_match(m)
    observed = _args_of(m)
    # -- (1) each span delimits `original` inside the step text
    for (start, end, original, value, name) in observed:
        if original is None:
            # group that took no part: must delimit nothing and carry no value
            if value is not None or start != end:
                return False, head + "argument without text but with span/value: %r" % (observed,)
            continue
        if not (isinstance(start, int) and isinstance(end, int) and
                0 <= start <= end <= len(text) and text[start:end] == original):
            return False, head + "span (%r,%r) does not delimit original %r" % (start, end, original)
    # -- (2) sorted by position (arguments that took part)
    starts = [a[0] for a in observed if a[2] is not None]
    if starts != sorted(starts):
        return False, head + "arguments not sorted by position: %r" % (observed,)
    # -- (3) values, names: one of the reference solutions (exactly it when unique)
    if not any(_same_args(observed, s) for s in sols):
        return False, head + "arguments %r; expected %s%r" % (
            observed, "" if len(sols) == 1 else "one of ", sols if len(sols) > 1 else sols[0])
    # -- (4) delivery: named by keyword, anonymous by position in text order
    exp_args = tuple(a[3] for a in observed if a[4] is None)
    exp_kwargs = dict((a[4], a[3]) for a in observed if a[4] is not None)
    runner = _StubRunner()
    context = Context(runner)
    del _CALLS[:]
    m.run(context)
    calls = list(_CALLS)
    del _CALLS[:]
    if len(calls) != 1:
        return False, head + "step function called %d times" % len(calls)
    fname, got_context, got_args, got_kwargs = calls[0]
    if fname != "f0" or got_context is not context:
        return False, head + "wrong function/context: %r" % (fname,)
    if not (_same_args([(0, 0, 0, x, 0) for x in got_args], [(0, 0, 0, x, 0) for x in exp_args])
            and got_kwargs == exp_kwargs
            and all(_typesig(got_kwargs[k]) == _typesig(exp_kwargs[k]) for k in exp_kwargs)):
        return False, head + "step function received args=%r kwargs=%r; expected args=%r kwargs=%r" % (
            got_args, got_kwargs, exp_args, exp_kwargs)
    return True, head + "arguments %r" % (observed,)


def run_arguments(tier, rng):
    for kind, elems, texts in _space(tier):
        results = []
        with custom_types():
            matcher = make_matcher(kind, render(kind, elems))
            for text in texts:
                if not solutions(elems, text):
                    continue
                ok, detail = _eval_arguments(matcher, elems, text)
                results.append(({"matcher": kind, "elems": elems, "text": text}, ok, detail))
        for r in results:
            yield r


def replay_arguments(case):
    with custom_types():
        matcher = make_matcher(case["matcher"], render(case["matcher"], case["elems"]))
        ok, detail = _eval_arguments(matcher, case["elems"], case["text"])
    return case, ok, detail


# =============================================================================
# Registry model and history engine (checks 3 and 4)
# =============================================================================
class _Def(object):
    def __init__(self, kind, pattern, fid, elems):
        self.kind, self.pattern, self.fid, self.elems = kind, pattern, fid, elems


_SOLUTION_MEMO = {}


def _def_solutions(d, text):
    key = (d.kind, d.pattern, text)
    if key not in _SOLUTION_MEMO:
        if len(_SOLUTION_MEMO) > 200000:
            _SOLUTION_MEMO.clear()
        _SOLUTION_MEMO[key] = solutions(d.elems, text)
    return _SOLUTION_MEMO[key]


class _Model(object):
    """Reference model of the registry: one list per step type, registration order."""

    def __init__(self):
        self.lists = dict((t, []) for t in TYPES)
        self.current = "parse"

    def register(self, step_type, pattern, fid, elems):
        for existing in self.lists[step_type]:
            if existing.fid == fid and existing.pattern == pattern:
                return "ignored"             # very same function and pattern
            if existing.pattern == pattern or _def_solutions(existing, pattern):
                return "ambiguous"           # existing definition matches the new pattern
        self.lists[step_type].append(_Def(self.current, pattern, fid, elems))
        return "added"

    def lookup(self, step_type, text):
        candidates = list(self.lists[step_type])
        if step_type != "step":
            candidates += self.lists["step"]
        for index, d in enumerate(candidates):
            sols = _def_solutions(d, text)
            if sols:
                return index, d, sols
        return None


@contextlib.contextmanager
def _global_factory_restored():
    factory = _bm.get_step_matcher_factory()
    saved = (factory._current_matcher, factory.default_matcher, factory.default_matcher_name)
    try:
        yield factory
    finally:
        (factory._current_matcher, factory.default_matcher, factory.default_matcher_name) = saved


_STEP_CACHE = {}


def _step(step_type, text):
    key = (step_type, text)
    if key not in _STEP_CACHE:
        _STEP_CACHE[key] = Step("c11.feature", 1, step_type.title(), step_type, text)
    return _STEP_CACHE[key]


def _show_registry(registry):
    return dict((t, ["%s(%s,%r)" % (type(m).__name__, m.func.__name__, m.pattern)
                     for m in registry.steps[t]]) for t in TYPES if registry.steps[t])


def run_history(events, interp, lookup_texts):
    """Drive a fresh StepRegistry through `events` using the public decorators and
    use_step_matcher, compare every step with the reference model, then compare
    all lookups.  events: ["use", name] | ["reg", type, pattern, "f0"|"f1"].
    interp(kind, pattern) -> abstract elems (the meaning of `pattern` under `kind`).
    Returns (ok, detail)."""
    model = _Model()
    with _global_factory_restored() as factory:
        _use_step_matcher("parse")
        registry = StepRegistry()
        decorators = dict((t, registry.make_decorator(t)) for t in TYPES)
        for index, ev in enumerate(events):
            where = "event #%d %r: " % (index, ev)
            if ev[0] == "use":
                _use_step_matcher(ev[1])
                model.current = ev[1]
                if factory.current_matcher is not MATCHER_CLASS[ev[1]]:
                    return False, where + "current matcher is %r" % (factory.current_matcher,)
                continue
            _, step_type, pattern, fid = ev
            func = FUNCS[fid]
            expected = model.register(step_type, pattern, fid, interp(model.current, pattern))
            before = dict((t, list(registry.steps[t])) for t in TYPES)
            returned = None
            try:
                returned = decorators[step_type](pattern)(func)
                observed = "no exception"
            except AmbiguousStep:
                observed = "AmbiguousStep"
            except Exception as e:      # pylint: disable=broad-except
                observed = "%s: %s" % (type(e).__name__, e)
            want = "AmbiguousStep" if expected == "ambiguous" else "no exception"
            if observed != want:
                return False, where + "expected %s (model: %s), observed %s; registry before: %r" % (
                    want, expected, observed, _show_registry_lists(before))
            if expected != "ambiguous" and returned is not func:
                return False, where + "decorator returned %r" % (returned,)
            for t in TYPES:
                now = registry.steps[t]
                old = before[t]
                if expected == "added" and t == step_type:
                    good = (len(now) == len(old) + 1 and
                            all(a is b for a, b in zip(now, old)) and
                            type(now[-1]) is MATCHER_CLASS[model.current] and
                            now[-1].func is func and now[-1].step_type == step_type and
                            pattern in now[-1].pattern)
                else:
                    good = len(now) == len(old) and all(a is b for a, b in zip(now, old))
                if not good:
                    return False, where + "model: %s; registry list %r changed from %r to %r" % (
                        expected, t, _show_list(old), _show_list(now))
        # -- lookups: all step types x texts
        before = dict((t, list(registry.steps[t])) for t in TYPES)
        for step_type in TYPES:
            for text in lookup_texts:
                where = "lookup (%s, %r) after %r: " % (step_type, text, events)
                step = _step(step_type, text)
                expected = model.lookup(step_type, text)
                m = registry.find_match(step)
                definition = registry.find_step_definition(step)
                if expected is None:
                    if m is not None or definition is not None:
                        return False, where + "expected no definition, found %s / %r; registry %r" % (
                            _describe_match(m), definition, _show_registry(registry))
                    continue
                index, d, sols = expected
                real_candidates = list(registry.steps[step_type])
                if step_type != "step":
                    real_candidates += registry.steps["step"]
                if not _is_real_match(m) or m.func is not FUNCS[d.fid]:
                    return False, where + "expected candidate #%d (%s %r -> %s), found %s of %s; registry %r" % (
                        index, d.kind, d.pattern, d.fid, _describe_match(m),
                        getattr(getattr(m, "func", None), "__name__", None), _show_registry(registry))
                if definition is not real_candidates[index]:
                    return False, where + "find_step_definition: expected candidate #%d, found %r" % (
                        index, definition)
                if not any(_same_args(_args_of(m), s) for s in sols):
                    return False, where + "arguments %r, expected (one of) %r" % (_args_of(m), sols)
        for t in TYPES:
            if len(registry.steps[t]) != len(before[t]) or \
                    not all(a is b for a, b in zip(registry.steps[t], before[t])):
                return False, "lookups changed registry list %r: %r -> %r" % (
                    t, _show_list(before[t]), _show_list(registry.steps[t]))
    return True, "agrees with the model"


def _show_list(ms):
    return ["%s(%s,%r)" % (type(m).__name__, m.func.__name__, m.pattern) for m in ms]


def _show_registry_lists(lists):
    return dict((t, _show_list(lists[t])) for t in TYPES if lists[t])


# =============================================================================
# CHECK 3: dispatch over all registration histories
# =============================================================================
S0 = "a step"
S1 = "a {x:w}"
S2 = r"a (?P<x>\w+)"
H_PATTERNS = (S0, S1, S2)
H_TEXTS = ("a step", "a thing", "A step", "a step now", S1, S2)
# -- meaning of the three pattern strings under each matcher kind (hand-written):
#    a pattern written for the other pattern language is plain literal text.
_H_INTERP = {
    ("parse", S0): [["L", "a step"]],
    ("parse", S1): [["L", "a "], ["F", "word", "x"]],
    ("parse", S2): [["L", S2]],
    ("re", S0): [["L", "a step"]],
    ("re", S1): [["L", S1]],
    ("re", S2): [["L", "a "], ["F", "rword", "x"]],
}
for _p in H_PATTERNS:
    _H_INTERP[("cfparse", _p)] = _H_INTERP[("parse", _p)]


def _h_interp(kind, pattern):
    return _H_INTERP[(kind, pattern)]


def _h_alphabet(switches):
    alphabet = [["use", name] for name in switches]
    for t in TYPES:
        for p in H_PATTERNS:
            for fid in ("f0", "f1"):
                alphabet.append(["reg", t, p, fid])
    return alphabet


def _shrink(events, fails):
    """Greedy one-event-removal minimisation of a failing history."""
    events = list(events)
    changed = True
    while changed:
        changed = False
        for k in range(len(events)):
            shorter = events[:k] + events[k + 1:]
            if fails(shorter):
                events = shorter
                changed = True
                break
    return events


def _eval_history(events):
    return run_history(events, _h_interp, H_TEXTS)


def run_histories(tier, rng):
    plans = _tiers(tier, [(("parse", "re"), 3)],
                   [(("parse", "re"), 4), (("parse", "cfparse", "re"), 3)])
    for switches, max_len in plans:
        alphabet = _h_alphabet(switches)
        for n in range(0, max_len + 1):
            for history in itertools.product(alphabet, repeat=n):
                events = [list(e) for e in history]
                ok, detail = _eval_history(events)
                if ok:
                    yield {"history": events}, True, detail
                    continue
                # -- report the failure by its minimised history (itself evaluated)
                small = _shrink(events, lambda h: not _eval_history(h)[0])
                ok2, detail2 = _eval_history(small)
                assert not ok2
                if small != events:
                    detail2 += " [minimised from %r: %s]" % (events, detail)
                yield {"history": small}, False, detail2


def replay_histories(case):
    ok, detail = _eval_history([list(e) for e in case["history"]])
    return case, ok, detail


# =============================================================================
# CHECK 4: re-registration / ambiguity / precedence over the pattern catalogue
# =============================================================================
SCENARIOS = ("same-again", "same-pattern-other-func", "instance-after",
             "instance-before", "generic-vs-typed", "other-type-list")


def _literal_pattern(kind, text):
    return "^" + text + "$" if kind == "re0" else text


def _scenario_events(kind, elems, scenario):
    pattern = render(kind, elems)
    i0 = instance(elems, 0)
    lit = _literal_pattern(kind, i0)
    use = ["use", kind]
    if scenario == "same-again":
        events = [use, ["reg", "given", pattern, "f0"], ["reg", "given", pattern, "f0"]]
    elif scenario == "same-pattern-other-func":
        events = [use, ["reg", "given", pattern, "f0"], ["reg", "given", pattern, "f1"]]
    elif scenario == "instance-after":
        events = [use, ["reg", "given", pattern, "f0"], ["reg", "given", lit, "f1"]]
    elif scenario == "instance-before":
        events = [use, ["reg", "given", lit, "f1"], ["reg", "given", pattern, "f0"]]
    elif scenario == "generic-vs-typed":
        events = [use, ["reg", "step", pattern, "f0"], ["reg", "given", pattern, "f1"],
                  ["reg", "when", lit, "f1"]]
    elif scenario == "other-type-list":
        events = [use, ["reg", "given", pattern, "f0"], ["reg", "when", pattern, "f0"],
                  ["reg", "then", pattern, "f1"], ["reg", "given", pattern, "f0"]]
    else:
        raise ValueError(scenario)
    return events, pattern, lit, i0


def _usable_as_literal(kind, text):
    # the instance text must itself be plain literal text in the pattern language
    if text == "":
        return False
    if FAMILY[kind] == "regex":
        return set(text) <= (_LITERAL_CHARS - set(".+"))
    return set(text) <= _LITERAL_CHARS


def _eval_scenario(kind, elems, scenario):
    events, pattern, lit, i0 = _scenario_events(kind, elems, scenario)
    i1 = instance(elems, 1)
    table = {pattern: elems, lit: [["L", i0]]} if lit != pattern else {pattern: elems}

    def interp(_kind, p):
        return table[p]
    texts = []
    for t in (i0, i1, "zz " + i0, i0 + " zz", i0.swapcase()):
        if t not in texts:
            texts.append(t)
    with custom_types():
        ok, detail = run_history(events, interp, texts)
    return ok, "%s; events %r" % (detail, events)


def _scenario_space(tier):
    max_fields = _tiers(tier, 1, 2)
    for kind in KINDS4:
        for elems in catalogue(kind, max_fields):
            literal_ok = _usable_as_literal(kind, instance(elems, 0))
            for scenario in SCENARIOS:
                if not literal_ok and scenario in ("instance-after", "instance-before",
                                                   "generic-vs-typed"):
                    continue
                yield kind, elems, scenario


def run_scenarios(tier, rng):
    for kind, elems, scenario in _scenario_space(tier):
        ok, detail = _eval_scenario(kind, elems, scenario)
        yield {"matcher": kind, "elems": elems, "scenario": scenario}, ok, detail


def replay_scenarios(case):
    ok, detail = _eval_scenario(case["matcher"], case["elems"], case["scenario"])
    return case, ok, detail


# =============================================================================
_SPACE_TEXT = (
    "matcher kinds parse, cfparse, re, re0 (re0 patterns written with ^...$) x all patterns of "
    "0..%d field slots joined by ' and ', with/without leading 'I have ' and trailing ' here' "
    "(slots parse: {n},{},{n:d},{:d},{n:w},{:w},{n:f},{n:Color},{n:Number}; cfparse adds "
    "{n:Number+},{n:Number*},{n:Number?},{n:Color?},{n:Color+} -- cfparse has no cardinality "
    "for the builtin d, so a registered Number type stands in; regex: named/unnamed \\w+, \\d+, "
    "named .+, unnamed alternation, optional '(?:maybe (?P<n>\\w+))?' and optional unnamed '(-)?') "
    "x %d value sets x derived texts (exact instance, 'zz ' prefix, ' zz' suffix, last char cut, "
    "each literal swap-cased, each literal with one letter changed, each alphabetic field value "
    "swap-cased); exhaustive, ASCII texts, signed/unsigned decimal values without inner blanks")

CHECKS = [
    BoundedCheck(
        "fulltext-match",
        bound={"quick": _SPACE_TEXT % (2, 2), "thorough": _SPACE_TEXT % (3, 3)},
        run=run_fulltext, replay=replay_fulltext,
        contract="forall kind, pattern p, text t: (matcher_kind(p).match(t) is a Match and not a "
                 "MatchWithError) == (t is a complete case-sensitive instance of p under the harness's "
                 "own backtracking matcher over the abstract pattern)"),
    BoundedCheck(
        "arguments",
        bound={"quick": "the space of fulltext-match restricted to the texts that are instances: "
                        + _SPACE_TEXT % (2, 2),
               "thorough": "the space of fulltext-match restricted to the texts that are instances: "
                           + _SPACE_TEXT % (3, 3)},
        run=run_arguments, replay=replay_arguments,
        contract="forall instance t of p: m = matcher.match(t) is a Match; every argument that took part has "
                 "0 <= start <= end <= len(t) and t[start:end] == original (a non-participating optional regex "
                 "group has original None, value None and an empty span); participating arguments are sorted by "
                 "start; [(start,end,original,value,name)] equals a reference solution (the unique one when "
                 "unambiguous) with value = converted value (int/float/custom/list/None, type-exact) and name set "
                 "iff the field is named; m.run(Context) calls the step function exactly once with that context, "
                 "anonymous values by position in text order and named values by keyword"),
    BoundedCheck(
        "dispatch-histories",
        bound={"quick": "all histories of length <= 3 over 26 events {use parse, use re} + {given,when,then,step} x "
                        "{'a step', 'a {x:w}', 'a (?P<x>\\w+)'} x {f0,f1} (18,279 histories), each followed by all "
                        "24 lookups {given,when,then,step} x 6 texts; exhaustive; a failing history is reported "
                        "by its greedily minimised sub-history",
               "thorough": "all histories of length <= 4 over the 26 events of quick (475,255) plus all of length <= 3 "
                           "over 27 events (adds use cfparse; 20,440), each followed by all 24 lookups; exhaustive; "
                           "a failing history is reported by its greedily minimised sub-history"},
        run=run_histories, replay=replay_histories,
        contract="fresh StepRegistry driven through make_decorator(type)(pattern)(func) and behave.use_step_matcher; "
                 "reference model = one list per type: registering (type,p,f) scans list[type] in order: first "
                 "definition with same (f,p) => ignored (no exception, registry unchanged); first definition whose "
                 "pattern string equals p or that fully matches p taken as a step text => AmbiguousStep, registry "
                 "unchanged; else appended to list[type] only (matcher class = current matcher, func, step_type), "
                 "decorator returns func. Lookup (type,text): first full match in list[type] ++ (list['step'] if "
                 "type != 'step') => find_match returns a Match of that function with the reference arguments and "
                 "find_step_definition returns that matcher object; none => None; lookups leave the lists unchanged"),
    BoundedCheck(
        "ambiguity-catalogue",
        bound={"quick": "4 matcher kinds x catalogue patterns with 0..1 slots x 6 scenarios (same-again, "
                        "same-pattern-other-func, instance-after, instance-before, generic-vs-typed, other-type-list; "
                        "the three instance scenarios only when the instance is plain literal text in the pattern "
                        "language), each followed by lookups {given,when,then,step} x 5 texts; exhaustive",
               "thorough": "as quick with catalogue patterns of 0..2 slots"},
        run=run_scenarios, replay=replay_scenarios,
        contract="same run-time contract as dispatch-histories (registry model + lookups), on scenario histories "
                 "built from a catalogue pattern P, its instance I and functions f0,f1: re-registering (f0,P) is "
                 "ignored; (f1,P) and (f1,I) after (f0,P) raise AmbiguousStep; (f1,I) before (f0,P) are both "
                 "accepted and the earlier wins for I; a given-definition beats a generic step-definition, which "
                 "still serves when/then; the same (f,P) in another type list is accepted"),
]
