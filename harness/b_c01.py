# -*- coding: utf-8 -*-
"""
harness.b_c01 -- bounded stand-ins (kind B) for C01, "Run verdict: no false green, no
false red" (DESIGN.md 5.1).  Real runs: abstract tree -> Gherkin text -> parse_feature ->
ModelRunner.run() with the generic step definition of harness.runlib (behaviour encoded
in the step text), recording hooks with fault injection, raising cleanups registered by
a step (context.add_cleanup).

Oracle (harness.runs_common.Interp, written from the property text; it never looks at a
behave status): "something went wrong in the selected part" <=> one of
  * a selected scenario runs into a step that fails an assertion, raises (also
    KeyboardInterrupt = abort, and a type-conversion error), is undefined, or is pending
    while "wip" is not among the scenario's effective tags; "runs into" = all steps before
    it in (feature background, rule background, own steps) passed (pending under @wip
    counts as passed), no earlier step skipped the scenario, the scenario is selected by the
    tag expression (own evaluator over effective tags), the run is not --dry-run;
  * in --dry-run: a selected scenario contains an undefined step (it is discovered);
  * a hook raises (the k-th hook invocation, every k of the fault-free run);
  * a cleanup raises (registered by an executed step on the scenario / rule / feature /
    testrun layer).
Nothing else is a failure: de-selected scenarios whatever their steps, steps behind a
skip-scenario step, pending under @wip, steps in dry-run other than undefined ones.
--stop and abort only cut the run short *after* a bad event, so they never change the
verdict; they are part of the space because the code paths differ.

Checks:
  verdict-one-scenario   one scenario, all outcome sequences, shapes x flags
  verdict-trees          two outcome slots in 5 layouts x tag expression x flags
  verdict-hook-fault     every hook invocation of the fault-free run raises
  verdict-cleanup-fault  a raising cleanup registered by every step x layer
  exit-code              `python -m behave` in a child process on a scratch directory
"""
from __future__ import print_function
import itertools
import json
import os
import shutil
import subprocess
import sys
import tempfile

from harness.runs_common import (BoundedCheck, OUTCOMES, Interp, run2, flag_args, tag_args,
                                 T, NOT, AND, step, scenario, outline, rule, feature, render,
                                 short)

from harness import runlib as rl

REPO = os.environ.get("VERIF_REPO", "/repo")


# -----------------------------------------------------------------------------
# the run-time contract
# -----------------------------------------------------------------------------
def eval_verdict(case):
    """case: trees, expr, dialect, stop, dry_run, cli_wip, k, exc, cleanup ({sid, layer} or None),
    cafs (Scenario.continue_after_failed_step set on every scenario)."""
    trees = case["trees"]
    expr = case.get("expr")
    stop, dry = bool(case.get("stop")), bool(case.get("dry_run"))
    cli_wip = bool(case.get("cli_wip"))
    k = case.get("k")
    cleanup = case.get("cleanup")
    cafs = bool(case.get("cafs"))
    spec_expr, spec_stop = expr, stop
    if cli_wip:         # documented: only scenarios tagged wip, stop at the first failure
        spec_expr = AND(expr, T("wip")) if expr is not None else T("wip")
        spec_stop = True
    cleanups = {cleanup["sid"]: cleanup["layer"]} if cleanup else {}
    ip = Interp(trees, spec_expr, spec_stop, dry, cleanups=cleanups, cafs=cafs).run()
    expected = ip.bad
    args = flag_args(stop, dry) + (["--wip"] if cli_wip else [])
    if expr is not None:
        args += tag_args(expr, case.get("dialect", "v2"))

    on_step = None
    if cleanup:
        def on_step(context, sid, outcome, _c=cleanup):
            if sid == _c["sid"]:
                def raising_cleanup():
                    raise RuntimeError("cleanup registered by step %s raises" % sid)
                if _c["layer"] == "scenario":
                    context.add_cleanup(raising_cleanup)
                else:
                    context.add_cleanup(raising_cleanup, layer=_c["layer"])
    exc = {"RuntimeError": RuntimeError, "AssertionError": AssertionError}[case.get("exc", "RuntimeError")]
    obs = run2(trees, args, raise_at=[k] if k is not None else (), raise_exc=exc, on_step=on_step, cafs=cafs)
    notes = []
    if k is not None:
        # a raising hook is a bad event as soon as it is invoked, whatever else changes
        invoked = obs.rec.hook_call_no > k
        expected = expected or invoked
        if not invoked:
            notes.append("hook invocation #%d never happened (%d invocations)" % (k, obs.rec.hook_call_no))
    if obs.exception is not None:
        return case, False, "exception escaped run(): %r; expected verdict %s\n%s" % (
            obs.exception, "failed" if expected else "passed", short("\n".join(obs.texts)))
    ok = bool(obs.failed) == bool(expected) and not notes
    detail = "run() -> %r, something went wrong (spec) = %r %s" % (obs.failed, expected, "; ".join(notes))
    if not ok:
        detail += "\nargs=%r\n%s" % (args, short("\n".join(obs.texts), 1500))
    return case, ok, detail


def replay_verdict(case):
    return eval_verdict(case)


# -----------------------------------------------------------------------------
# generators
# -----------------------------------------------------------------------------
def seqs(alphabet, lo, hi):
    for n in range(lo, hi + 1):
        for s in itertools.product(alphabet, repeat=n):
            yield list(s)


def one_scenario_tree(shape, seq, wip):
    """plain: F{S}; nested: F(bg pass){R(bg pass){S}} with @wip on the feature (inherited);
    row: F{Outline{1 row}} with @wip on the outline; split: first outcome in the feature
    background, second (if 3) in the rule background, rest own."""
    wt = ["wip"] if wip else []
    if shape == "plain":
        return [feature("F", [scenario("S", [step("s%d" % i, o) for i, o in enumerate(seq)], wt)])]
    if shape == "nested":
        return [feature("F", [rule("R", [scenario("S", [step("s%d" % i, o) for i, o in enumerate(seq)])],
                                   background=[step("rbg", "pass")])],
                        tags=wt, background=[step("fbg", "pass")])]
    if shape == "row":
        return [feature("F", [outline("O", [step("o<n>_%d" % i, o) for i, o in enumerate(seq)],
                                      [{"name": "E", "tags": [], "headings": ["n"], "rows": [["1"]]}], wt)])]
    if shape == "split":
        assert len(seq) >= 2
        if len(seq) == 2:
            return [feature("F", [scenario("S", [step("s1", seq[1])], wt)], background=[step("fbg", seq[0])])]
        return [feature("F", [rule("R", [scenario("S", [step("s2", seq[2])], wt)],
                                   background=[step("rbg", seq[1])])], background=[step("fbg", seq[0])])]
    raise ValueError(shape)


FLAG8 = [(s, d, w) for s in (False, True) for d in (False, True) for w in (False, True)]
FLAG4 = [(False, False, False), (True, False, False), (False, True, False), (False, False, True)]


def run_one_scenario(tier, rng):
    if tier == "quick":
        plan = [("plain", 1, 3, FLAG4), ("nested", 1, 2, FLAG8), ("row", 1, 2, FLAG8),
                ("split", 2, 2, FLAG4), ("split", 3, 3, [(False, False, False)])]
    else:
        plan = [("plain", 1, 3, FLAG8), ("nested", 1, 3, FLAG8), ("row", 1, 3, FLAG8),
                ("split", 2, 3, FLAG8)]
    for shape, lo, hi, flags in plan:
        for seq in seqs(OUTCOMES, lo, hi):
            for stop, dry, wip in flags:
                case = {"trees": one_scenario_tree(shape, seq, wip), "stop": stop, "dry_run": dry}
                yield eval_verdict(case)
    # continue_after_failed_step: later steps still run after a failure; the verdict must not forget the failure
    for shape, lo, hi in (("plain", 2, 3), ("row", 2, 2)) if tier == "quick" else (("plain", 2, 3), ("nested", 2, 3), ("row", 2, 3)):
        for seq in seqs(OUTCOMES, lo, hi):
            for stop in (False, True):
                case = {"trees": one_scenario_tree(shape, seq, False), "stop": stop, "dry_run": False, "cafs": True}
                yield eval_verdict(case)


# -- nested steps: a step that runs sub-steps through context.execute_steps() ------------------------------------------
SUB_OUTCOMES = ("pass", "fail", "error", "undefined")


def eval_nested(case):
    """case: sub (outcomes of the sub-steps), after (outcome of the calling step itself), stop."""
    sub, after, stop = case["sub"], case.get("after", "pass"), bool(case.get("stop"))
    trees = [feature("F", [scenario("S", [step("outer", after), step("later", "pass")]),
                           scenario("T", [step("t0", "pass")])])]
    text = u"\n".join(u"Given " + rl.step_text(step("n%d" % k, o)) for k, o in enumerate(sub))

    def on_step(context, sid, outcome):
        if sid == "outer":
            context.execute_steps(text)
    # spec: the calling step fails as soon as one sub-step does not pass; otherwise it behaves like `after`
    expected = any(o != "pass" for o in sub) or after != "pass"
    obs = run2(trees, flag_args(stop, False), on_step=on_step)
    if obs.exception is not None:
        return case, False, "exception escaped run(): %r" % (obs.exception,)
    ok = bool(obs.failed) == bool(expected)
    return case, ok, "run() -> %r, something went wrong (spec) = %r; sub-steps %r" % (obs.failed, expected, sub)


def run_nested(tier, rng):
    for n in (1, 2, 3):
        for sub in itertools.product(SUB_OUTCOMES, repeat=n):
            for after in (("pass",) if tier == "quick" and n == 3 else ("pass", "fail")):
                for stop in (False, True):
                    yield eval_nested({"sub": list(sub), "after": after, "stop": stop})


# two outcome slots A (tagged @x) and B (tagged @y)
LAYOUTS = ("siblings", "rule", "two-features", "two-rules", "rows")


def two_slot_trees(layout, a, b, wip):
    wt = ["wip"] if wip else []

    def sc(name, pfx, seq, tag):
        return scenario(name, [step("%s%d" % (pfx, i), o) for i, o in enumerate(seq)], [tag])
    if layout == "siblings":
        return [feature("F", [sc("SA", "a", a, "x"), sc("SB", "b", b, "y")], wt)]
    if layout == "rule":
        return [feature("F", [sc("SA", "a", a, "x"), rule("R", [sc("SB", "b", b, "y")])], wt)]
    if layout == "two-features":
        return [feature("F1", [sc("SA", "a", a, "x")], wt, filename="f1.feature"),
                feature("F2", [sc("SB", "b", b, "y")], wt, filename="f2.feature")]
    if layout == "two-rules":
        return [feature("F", [rule("R1", [sc("SA", "a", a, "x")]), rule("R2", [sc("SB", "b", b, "y")])], wt)]
    if layout == "rows":
        # one outline, two examples blocks tagged @x / @y, the outcome comes from the row
        assert len(a) == 1 and len(b) == 1 and "undefined" not in (a[0], b[0])
        return [feature("F", [outline("O", [step("o<n>", "<o>")],
                                      [{"name": "EA", "tags": ["x"], "headings": ["n", "o"], "rows": [["1", a[0]]]},
                                       {"name": "EB", "tags": ["y"], "headings": ["n", "o"], "rows": [["2", b[0]]]}])],
                        wt)]
    raise ValueError(layout)


EXPRS = [None, T("x"), NOT(T("x")), T("z"), AND(NOT(T("x")), NOT(T("y")))]


def run_trees(tier, rng):
    if tier == "quick":
        slot = [[o] for o in OUTCOMES]
        exprs = EXPRS[:4]
        flagsets = [(False, False, False, False), (True, False, False, False), (False, True, False, False),
                    (False, False, True, False), (False, False, True, True)]
    else:
        slot = [[o] for o in OUTCOMES] + [["pass", o] for o in OUTCOMES] + [["skip", "fail"], ["pending", "fail"]]
        exprs = EXPRS
        flagsets = [(s, d, w, False) for s, d, w in FLAG8] + [(False, False, True, True), (False, True, True, True)]
    for layout in LAYOUTS:
        for a in slot:
            for b in slot:
                if layout == "rows" and (len(a) != 1 or len(b) != 1 or "undefined" in (a[0], b[0])):
                    continue
                for ei, expr in enumerate(exprs):
                    for stop, dry, wip, cli_wip in flagsets:
                        case = {"trees": two_slot_trees(layout, a, b, wip), "expr": expr,
                                "dialect": "v1" if ei % 2 == 0 else "v2",
                                "stop": stop, "dry_run": dry}
                        if cli_wip:
                            case["cli_wip"] = True
                        yield eval_verdict(case)


def hook_trees(tier):
    """Trees with tags on every level so that every kind of hook fires."""
    t1 = feature("F", [
        scenario("S1", [step("a1", "pass"), step("a2", "pass")], ["s"]),
        outline("O", [step("o<n>", "pass")],
                [{"name": "E", "tags": ["e"], "headings": ["n"], "rows": [["1"], ["2"]]}], ["o", "t_<n>"]),
        rule("R", [scenario("S2", [step("b1", "pass")], ["s2"]),
                   scenario("S3", [step("c1", "pass")])], ["r"], background=[step("rbg", "pass")]),
    ], ["f"], background=[step("fbg", "pass")])
    t2a = feature("F1", [scenario("S1", [step("a1", "pass")], ["s"])], ["f1"], filename="f1.feature")
    t2b = feature("F2", [rule("R", [scenario("S2", [step("b1", "pass")])], ["r"])], [], filename="f2.feature")
    t3 = feature("F", [scenario("S1", [step("a1", "pass"), step("a2", "skip"), step("a3", "pass")], ["wip"]),
                       scenario("S2", [step("b1", "pending")], ["x"])], [])
    out = [("all-levels", [t1]), ("two-features", [t2a, t2b]), ("skip-and-pending", [t3])]
    if tier != "quick":
        t4 = feature("F", [scenario("S1", [step("a1", "fail"), step("a2", "pass")], ["s"]),
                           rule("R", [scenario("S2", [step("b1", "pass")], ["s2"])], ["r"])], ["f"])
        out.append(("with-failure", [t4]))
    return out


def run_hook_fault(tier, rng):
    excs = ["RuntimeError"] if tier == "quick" else ["RuntimeError", "AssertionError"]
    for name, trees in hook_trees(tier):
        for expr in (None, T("s"), NOT(T("s"))):
            for stop in (False, True):
                args = flag_args(stop) + (tag_args(expr, "v2") if expr is not None else [])
                n_real = run2(trees, args).rec.hook_call_no     # invocations of the fault-free run
                for k in range(n_real):
                    for exc in excs:
                        case = {"trees": trees, "expr": expr, "stop": stop, "k": k, "exc": exc}
                        yield eval_verdict(case)


def run_cleanup_fault(tier, rng):
    for name, trees in hook_trees(tier):
        ip = Interp(trees).run()
        sids = []
        for s in ip.scen_nodes():
            in_rule = any(a.kind == "rule" for a in s.ancestors())
            for sid, oc, origin in s.steps:
                if oc == "undefined":
                    continue
                for layer in ("scenario", "feature", "testrun") + (("rule",) if in_rule else ()):
                    if (sid, layer) not in sids:
                        sids.append((sid, layer))
        flagsets = [(False, False), (True, False), (False, True)]
        for sid, layer in sids:
            for expr in (None, T("s")):
                for stop, dry in flagsets:
                    case = {"trees": trees, "expr": expr, "stop": stop, "dry_run": dry,
                            "cleanup": {"sid": sid, "layer": layer}}
                    yield eval_verdict(case)


# -----------------------------------------------------------------------------
# process level: exit code of `python -m behave`
# -----------------------------------------------------------------------------
STEPS_PY = '''\
from behave import step
from behave.api.pending_step import StepNotImplementedError


@step("step {sid} {outcome}")
def generic(context, sid, outcome):
    if outcome == "pass":
        return
    if outcome == "fail":
        assert False, "step %s fails" % sid
    if outcome == "error":
        raise RuntimeError("step %s raises" % sid)
    if outcome == "pending":
        raise StepNotImplementedError("step %s pending" % sid)
    if outcome == "skip":
        context.scenario.skip("by step %s" % sid)
        return
    if outcome == "cleanup":
        def raising_cleanup():
            raise RuntimeError("cleanup raises")
        context.add_cleanup(raising_cleanup)
        return
    raise ValueError(outcome)
'''

ENV_PY = '''\
def %s(context, *args):
    raise RuntimeError("hook raises")
'''


def eval_exit_code(case):
    """case: trees, expr, stop, dry_run, hook (name of a raising hook in environment.py or None),
    cleanup_sid (step that registers a raising scenario cleanup, outcome written 'cleanup')."""
    trees = case["trees"]
    expr = case.get("expr")
    hook = case.get("hook")
    spec_trees = json.loads(json.dumps(trees))
    cleanups = {}

    def fix(steps):
        for s in steps or []:
            if s["outcome"] == "cleanup":
                s["outcome"] = "pass"
                cleanups[s["id"]] = "scenario"

    def fix_items(items):
        for it in items:
            if it["kind"] == "rule":
                fix(it.get("background"))
                fix_items(it["items"])
            else:
                fix(it["steps"])
    for t in spec_trees:
        fix(t.get("background"))
        fix_items(t["items"])
    ip = Interp(spec_trees, expr, bool(case.get("stop")), bool(case.get("dry_run")), cleanups=cleanups).run()
    expected_bad = ip.bad
    if hook and not case.get("dry_run"):
        # the named hook raises at every invocation: bad iff it is invoked at least once
        expected_bad = expected_bad or any(h["name"] == hook for h in ip.hooks)
    tmp = tempfile.mkdtemp(dir="/var/tmp", prefix="verif_c01_")
    try:
        fdir = os.path.join(tmp, "features")
        os.makedirs(os.path.join(fdir, "steps"))
        for i, t in enumerate(trees):
            with open(os.path.join(fdir, "f%d.feature" % i), "w") as fh:
                fh.write(render(t))
        with open(os.path.join(fdir, "steps", "steps.py"), "w") as fh:
            fh.write(STEPS_PY)
        if hook:
            with open(os.path.join(fdir, "environment.py"), "w") as fh:
                fh.write(ENV_PY % hook)
        args = [sys.executable, "-m", "behave", "-f", "null", "--no-summary"]
        if case.get("stop"):
            args.append("--stop")
        if case.get("dry_run"):
            args.append("--dry-run")
        if expr is not None:
            args += tag_args(expr, "v2")
        args.append("features")
        env = dict(os.environ)
        env["PYTHONPATH"] = REPO + os.pathsep + env.get("PYTHONPATH", "")
        env["PYTHONDONTWRITEBYTECODE"] = "1"
        p = subprocess.run(args, cwd=tmp, env=env, stdout=subprocess.PIPE, stderr=subprocess.PIPE,
                           timeout=120)
        code = p.returncode
        out = p.stdout.decode("utf-8", "replace")[-600:] + p.stderr.decode("utf-8", "replace")[-600:]
    finally:
        shutil.rmtree(tmp, ignore_errors=True)
    want = 1 if expected_bad else 0
    ok = code == want
    detail = "exit code %r, expected %r (something went wrong (spec) = %r)" % (code, want, expected_bad)
    if not ok:
        detail += "\n" + out.replace(tmp, "<tmp>")
    return case, ok, detail


def exit_code_cases(tier):
    def f(steps, tags=(), name="S"):
        return [feature("F", [scenario(name, [step("s%d" % i, o) for i, o in enumerate(steps)], list(tags))])]
    two = [feature("F", [scenario("SA", [step("a0", "fail")], ["x"]),
                         rule("R", [scenario("SB", [step("b0", "pass")], ["y"])])])]
    cases = []
    if tier != "quick":         # child processes only in the thorough tier
        cases += [
            {"trees": f(["pass", "pass"])},
            {"trees": f(["pass", "fail"])},
            {"trees": f(["error"])},
            {"trees": f(["undefined"])},
            {"trees": f(["undefined"]), "dry_run": True},
            {"trees": f(["fail", "error"]), "dry_run": True},
            {"trees": f(["pending"])},
            {"trees": f(["pending", "pass"], ["wip"])},
            {"trees": f(["skip", "fail"])},
            {"trees": f(["cleanup"])},
            {"trees": f(["pass"]), "hook": "after_scenario"},
            {"trees": f(["pass"]), "hook": "before_all"},
            {"trees": f(["pass"]), "hook": "after_all"},
            {"trees": f(["pass"]), "hook": "before_tag"},           # no tags: never invoked
            {"trees": f(["pass"], ["t"]), "hook": "after_tag"},
            {"trees": f(["pass"]), "hook": "before_step", "dry_run": True},
            {"trees": two},
            {"trees": two, "expr": T("y")},
            {"trees": two, "expr": NOT(T("x"))},
            {"trees": two, "expr": T("x"), "stop": True},
            {"trees": two, "expr": T("z")},
        ]
    return cases


def run_exit_code(tier, rng):
    for case in exit_code_cases(tier):
        yield eval_exit_code(case)


_ONE = ("one scenario; outcome sequences over {pass, fail, error, pending, undefined, skip, kbi}; shapes: "
        "plain (F{S}), nested (feature background + rule + rule background, all background steps pass, @wip "
        "inherited from the feature), row (outline with one row), split (first outcome is the feature-background "
        "step, with 3 outcomes the second is the rule-background step); flags = subsets of {--stop, --dry-run, "
        "@wip}; exhaustive: ")
_TREES = ("two outcome slots A (@x) and B (@y) in 5 layouts (sibling scenarios, scenario + rule, two features, two "
          "rules, two tagged examples blocks of one outline (single non-undefined outcomes only)); exhaustive: ")

CHECKS = [
    BoundedCheck(
        "verdict-nested-steps",
        bound={"quick": "a step calling context.execute_steps() with all 84 sub-step sequences of length 1..3 over {pass, fail, "
                        "error, undefined} x the calling step itself passing/failing afterwards (length 3: passing only) x "
                        "{no flag, --stop}",
               "thorough": "same with the calling step passing/failing for every length"},
        run=run_nested, replay=eval_nested,
        contract="bool(ModelRunner.run()) == (some sub-step does not pass or the calling step fails): a failing sub-step fails "
                 "the calling step whatever runs after it"),
    BoundedCheck(
        "verdict-one-scenario",
        bound={"quick": _ONE + "plain x all 399 sequences of length 1..3 x {none, --stop, --dry-run, @wip}; "
                               "nested and row x all 56 sequences of length 1..2 x all 8 flag subsets; split x 49 "
                               "sequences of length 2 x the 4 single flags, split x 343 sequences of length 3 x no flag; with "
                               "Scenario.continue_after_failed_step on: plain x all 392 sequences of length 2..3 and row x all "
                               "49 of length 2, each x {none, --stop}",
               "thorough": _ONE + "plain, nested, row x all 399 sequences of length 1..3 x all 8 flag subsets; "
                                  "split x all 392 sequences of length 2..3 x all 8 flag subsets; with "
                                  "continue_after_failed_step on: plain, nested, row x all 392 sequences of length 2..3 x {none, --stop}"},
        run=run_one_scenario, replay=replay_verdict,
        contract="bool(ModelRunner.run()) == something_went_wrong(tree, flags) where the right side is computed by "
                 "the harness's interpreter from the step outcomes written in the tree (module docstring); no "
                 "exception escapes run()"),
    BoundedCheck(
        "verdict-trees",
        bound={"quick": _TREES + "slots = the 7 single outcomes (7x7) x tag expression {none, x, not x, z (selects "
                                 "nothing)} (dialect alternating v2/v1) x {no flag, --stop, --dry-run, @wip on the "
                                 "feature, @wip + --wip on the command line}",
               "thorough": _TREES + "slots = 7 single outcomes + [pass, o] for the 7 outcomes + [skip, fail] + "
                                    "[pending, fail] (16x16) x {none, x, not x, z, not x and not y} x all 8 subsets "
                                    "of {--stop, --dry-run, @wip} + 2 combinations with --wip"},
        run=run_trees, replay=replay_verdict,
        contract="as verdict-one-scenario; selection by the harness's own evaluator over effective tags; --wip = "
                 "'and wip' + --stop"),
    BoundedCheck(
        "verdict-hook-fault",
        bound={"quick": "3 trees (all levels tagged incl. outline/examples/rule with backgrounds; two features; a "
                        "scenario with skip + a pending one) x tag expression {none, s, not s} x {no flag, --stop} x "
                        "EVERY hook invocation k of the fault-free run raising RuntimeError; exhaustive",
               "thorough": "4 trees (quick + one with a failing step) x {none, s, not s} x {no flag, --stop} x every "
                           "k x {RuntimeError, AssertionError}; exhaustive"},
        run=run_hook_fault, replay=replay_verdict,
        contract="the k-th hook invocation raises => run() is truthy and nothing escapes; (k beyond the last "
                 "invocation: verdict as without fault)"),
    BoundedCheck(
        "verdict-cleanup-fault",
        bound={"quick": "the trees of verdict-hook-fault x every defined step x layer {scenario, feature, testrun, "
                        "rule when inside a rule} (the step function registers a raising cleanup with "
                        "context.add_cleanup) x {none, s} x {no flag, --stop, --dry-run}; exhaustive",
               "thorough": "as quick with the 4 trees of thorough"},
        run=run_cleanup_fault, replay=replay_verdict,
        contract="run() is truthy iff the registering step is executed (per the interpreter) or something else "
                 "went wrong"),
    BoundedCheck(
        "exit-code",
        bound={"quick": "not run in the quick tier (child processes only in thorough): 0 cases",
               "thorough": "21 scratch directories (features/ + steps/ [+ environment.py]) run with `python -m behave` "
                           "in a child process: outcomes pass/fail/error/undefined/pending/@wip pending/skip, "
                           "dry-run, raising cleanup, raising hooks in environment.py (after_scenario, before_all, "
                           "after_all, before_tag never invoked, after_tag, before_step in dry-run), tag selection "
                           "with --stop"},
        run=run_exit_code, replay=eval_exit_code,
        contract="exit code of `python -m behave` == 1 if something went wrong in the selected part (interpreter) "
                 "else 0"),
]
