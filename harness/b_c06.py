# -*- coding: utf-8 -*-
"""
harness.b_c06 -- bounded stand-ins (kind B) for property C06:

    Scenario Outline expansion: one scenario per examples row, in
    examples-block-then-row order, exact <column> placeholder substitution in
    name / step names / doc-strings / step tables / tags, examples tags added,
    scenario located at the row's line; rows never influence each other or the
    template; text without placeholders is unchanged; name annotation schemas;
    rebuild after the examples table was modified through the Table API.

Everything here is driven by *abstract outline trees* (plain dicts) that are
written to Gherkin by the writer in this file (`write_feature`, which also
records the line number of every line it writes), parsed by the real
``behave.parser.parse_feature`` and expanded by the real
``ScenarioOutline.scenarios``.  The expected value is computed from the tree only
(`expected_scenarios`, `subst`, `fmt_schema`, `tag_expect`): simultaneous
substitution by one left-to-right regex scan, an own formatter for the documented
schema placeholders, an own model of the Table mutators.  No behave function is
used on the oracle side.

Tree format (JSON, canonical)::

    {"name": "O <a>", "tags": ["t_<a>", "plain"],
     "steps": [{"kw": "Given", "name": "s <a>", "text": null | "l1\\nl2",
                "table": null | [[heading...], [cell...], ...]}],
     "examples": [{"name": "E1", "tags": ["e1"], "headings": ["a","b"] | null,
                   "rows": [["1","2"], ...], "gaps": [0, 1, ...]}],
     "layout": {"top_comments": 0, "pre_scenario": false, "in_rule": false,
                "tags_two_lines": false}}

``headings: null`` is an ``Examples:`` keyword without table; ``gaps[i]`` is the
number of comment lines written before row i (so row lines are not contiguous).
"""
from __future__ import print_function
import contextlib
import copy
import io
import itertools
import json
import re

from harness.bounded import BoundedCheck

from behave import model as bmodel
from behave.parser import parse_feature

FILENAME = "c06.feature"
DEFAULT_SCHEMA = u"{name} -- @{row.id} {examples.name}"


# =============================================================================
# the independent spec
# =============================================================================
_PLACEHOLDER = re.compile(u"<([^<>]*)>")


def subst(text, mapping):
    """Simultaneous substitution: one left-to-right scan over the *original* text;
    every ``<name>`` whose name is a key of `mapping` is replaced by its value,
    everything else (including ``<unknown>``) is kept.  Values are never rescanned."""
    return _PLACEHOLDER.sub(lambda m: mapping[m.group(1)] if m.group(1) in mapping else m.group(0), text)


def has_column_placeholder(text, columns):
    return any(m.group(1) in columns for m in _PLACEHOLDER.finditer(text))


_SCHEMA_FIELD = re.compile(r"\{(name|examples\.name|examples\.index|row\.index|row\.id)\}")


def fmt_schema(schema, name, examples_name, examples_index, row_index):
    """Own formatter for the documented annotation placeholders (docs:
    new_and_noteworthy_v1.2.5, "row.id = <examples.index>.<row.index>")."""
    values = {"name": name, "examples.name": examples_name,
              "examples.index": u"%d" % examples_index, "row.index": u"%d" % row_index,
              "row.id": u"%d.%d" % (examples_index, row_index)}
    return _SCHEMA_FIELD.sub(lambda m: values[m.group(1)], schema)


def tag_expect(tag, mapping):
    """Outline tag for one row: the template tag with every <column> replaced.  A tag
    cannot hold whitespace; the documentation says "placeholder values, that are used
    in tags, are transformed to contain no whitespace characters" -- whitespace that
    came in through a value becomes "_" (Tag.make_name docstring)."""
    if not has_column_placeholder(tag, mapping):
        return tag
    return re.sub(u"\\s", u"_", subst(tag, mapping))


def step_types(steps):
    out, last = [], None
    for st in steps:
        kw = st["kw"]
        if kw in ("And", "But", "*"):
            typ = last
        else:
            typ = kw.lower()
            last = typ
        out.append(typ)
    return out


def expected_scenarios(tree, info, schema=DEFAULT_SCHEMA, subst_examples_name=False):
    """One scenario per examples row, blocks in order, rows in order."""
    out = []
    types = step_types(tree["steps"])
    for ei, ex in enumerate(tree["examples"]):
        if ex["headings"] is None:
            continue
        for ri, row in enumerate(ex["rows"]):
            mapping = dict(zip(ex["headings"], row))
            ex_name = ex["name"]
            if subst_examples_name:
                ex_name = subst(ex_name, mapping)
            name = fmt_schema(schema, subst(tree["name"], mapping), ex_name, ei + 1, ri + 1)
            steps = []
            for k, st in enumerate(tree["steps"]):
                steps.append({
                    "kw": st["kw"], "type": types[k], "line": info["step_lines"][k],
                    "name": subst(st["name"], mapping),
                    "text": None if st.get("text") is None else subst(st["text"], mapping),
                    "table": None if not st.get("table") else
                             [[subst(c, mapping) for c in r] for r in st["table"]],
                })
            out.append({
                "name": name, "line": info["row_lines"][ei][ri], "filename": FILENAME,
                "tags": sorted([tag_expect(t, mapping) for t in tree["tags"]] + list(ex["tags"])),
                "steps": steps,
            })
    return out


def expected_template(tree, info):
    return {
        "name": tree["name"], "line": info["outline_line"], "tags": list(tree["tags"]),
        "steps": [{"kw": st["kw"], "line": info["step_lines"][k], "name": st["name"],
                   "text": st.get("text"),
                   "table": None if not st.get("table") else [list(r) for r in st["table"]]}
                  for k, st in enumerate(tree["steps"])],
        "examples": [{"name": ex["name"], "tags": list(ex["tags"]),
                      "headings": None if ex["headings"] is None else list(ex["headings"]),
                      "rows": None if ex["headings"] is None else [list(r) for r in ex["rows"]],
                      "row_lines": None if ex["headings"] is None else list(info["row_lines"][ei])}
                     for ei, ex in enumerate(tree["examples"])],
    }


# =============================================================================
# the Gherkin writer (records line numbers)
# =============================================================================
def write_feature(tree):
    lines = []

    def emit(s):
        lines.append(s)
        return len(lines)

    lay = tree.get("layout") or {}
    for _ in range(lay.get("top_comments", 0)):
        emit(u"# comment before the feature")
    emit(u"Feature: C06 outline expansion")
    emit(u"")
    ind = u"  "
    if lay.get("pre_scenario"):
        emit(u"  Scenario: before")
        emit(u"    Given a plain step")
        emit(u"")
    if lay.get("in_rule"):
        emit(u"  Rule: R")
        emit(u"")
        ind = u"    "
    tags = tree["tags"]
    if tags:
        if lay.get("tags_two_lines") and len(tags) > 1:
            emit(ind + u"@" + tags[0])
            emit(ind + u" ".join(u"@" + t for t in tags[1:]))
        else:
            emit(ind + u" ".join(u"@" + t for t in tags))
    info = {"step_lines": [], "row_lines": []}
    info["outline_line"] = emit(ind + u"Scenario Outline:" + (u" " + tree["name"] if tree["name"] else u""))
    for st in tree["steps"]:
        info["step_lines"].append(emit(ind + u"  " + st["kw"] + u" " + st["name"]))
        if st.get("text") is not None:
            emit(ind + u'    """')
            for ln in st["text"].split(u"\n"):
                emit((ind + u"    " + ln) if ln else u"")
            emit(ind + u'    """')
        if st.get("table"):
            for row in st["table"]:
                emit(ind + u"    | " + u" | ".join(row) + u" |")
    for ex in tree["examples"]:
        emit(u"")
        if ex["tags"]:
            emit(ind + u"  " + u" ".join(u"@" + t for t in ex["tags"]))
        emit(ind + u"  Examples:" + (u" " + ex["name"] if ex["name"] else u""))
        if ex["headings"] is None:
            info["row_lines"].append(None)
            continue
        emit(ind + u"    | " + u" | ".join(ex["headings"]) + u" |")
        rl = []
        gaps = ex.get("gaps") or [0] * len(ex["rows"])
        for row, gap in zip(ex["rows"], gaps):
            for _ in range(gap):
                emit(ind + u"    # comment between rows")
            rl.append(emit(ind + u"    | " + u" | ".join(row) + u" |"))
        info["row_lines"].append(rl)
    return u"\n".join(lines) + u"\n", info


# =============================================================================
# observation of the real model
# =============================================================================
def _u(x):
    return None if x is None else u"%s" % x


def observe_table(table):
    if table is None:
        return None
    return [[_u(c) for c in table.headings]] + [[_u(c) for c in r.cells] for r in table.rows]


def observe_step(st, with_type=True):
    d = {"kw": _u(st.keyword), "line": st.line, "name": _u(st.name), "text": _u(st.text),
         "table": observe_table(st.table)}
    if with_type:
        d["type"] = _u(st.step_type)
    return d


def observe_scenario(s):
    return {"name": _u(s.name), "line": s.line, "filename": _u(s.filename),
            "tags": sorted(_u(t) for t in s.tags),
            "steps": [observe_step(st) for st in s.steps]}


def observe_template(o):
    return {
        "name": _u(o.name), "line": o.line, "tags": [_u(t) for t in o.tags],
        "steps": [observe_step(st, with_type=False) for st in o.steps],
        "examples": [{"name": _u(ex.name), "tags": [_u(t) for t in ex.tags],
                      "headings": None if ex.table is None else [_u(h) for h in ex.table.headings],
                      "rows": None if ex.table is None else [[_u(c) for c in r.cells] for r in ex.table.rows],
                      "row_lines": None if ex.table is None else [r.line for r in ex.table.rows]}
                     for ex in o.examples],
    }


def find_outline(container):
    for it in container.run_items:
        if isinstance(it, bmodel.ScenarioOutline):
            return it
        if isinstance(it, bmodel.Rule):
            r = find_outline(it)
            if r is not None:
                return r
    return None


def parse_tree(tree):
    text, info = write_feature(tree)
    feature = parse_feature(text, filename=FILENAME)
    outline = find_outline(feature)
    return text, info, feature, outline


def get_scenarios(outline):
    """`.scenarios` with behave's NO-TABLE diagnostic print silenced."""
    with contextlib.redirect_stdout(io.StringIO()):
        return outline.scenarios


def diff(expected, observed, path=""):
    """Short list of differing paths between two JSON-like values."""
    if type(expected) != type(observed):
        return ["%s: expected %r, observed %r" % (path or ".", expected, observed)]
    if isinstance(expected, dict):
        out = []
        for k in sorted(set(expected) | set(observed)):
            if k not in expected or k not in observed:
                out.append("%s.%s: expected %r, observed %r" % (path, k, expected.get(k, "<absent>"),
                                                                 observed.get(k, "<absent>")))
            else:
                out.extend(diff(expected[k], observed[k], "%s.%s" % (path, k)))
        return out
    if isinstance(expected, list):
        if len(expected) != len(observed):
            return ["%s: expected %d items %r, observed %d items %r"
                    % (path or ".", len(expected), expected, len(observed), observed)]
        out = []
        for i, (a, b) in enumerate(zip(expected, observed)):
            out.extend(diff(a, b, "%s[%d]" % (path, i)))
        return out
    if expected != observed:
        return ["%s: expected %r, observed %r" % (path or ".", expected, observed)]
    return []


def _verdict(problems):
    if problems:
        return False, "; ".join(problems[:6]) + (" ... (+%d more)" % (len(problems) - 6) if len(problems) > 6 else "")
    return True, "ok"


# =============================================================================
# outline families
# =============================================================================
COLS3 = [u"a", u"b", u"col2"]


def value_pool(col, cols):
    """empty, ascii, unicode, inner whitespace, every column name (own and other) as plain text."""
    return [u"", u"x", u"ü", u"x y"] + [c for c in cols] + [u"Ωmega-3"]


def tmpl_none(cols):
    return {"name": u"plain name a b col2", "tags": [u"plain", u"a", u"b.col2"],
            "steps": [{"kw": u"Given", "name": u"a plain step with a and b", "text": u"doc a\n  b col2\n\nend",
                       "table": None},
                      {"kw": u"When", "name": u"a table", "text": None,
                       "table": [[u"h", u"a"], [u"b", u"x"], [u"", u"col2"]]},
                      {"kw": u"And", "name": u"{name} {0} 100% done", "text": None, "table": None}]}


def tmpl_all(cols):
    c0, cl = cols[0], cols[-1]
    ph = [u"<%s>" % c for c in cols]
    return {"name": u"N " + u" ".join(ph) + u" <%s><%s> {name}" % (c0, c0),
            "tags": [u"t_<%s>" % c for c in cols] + [u"<%s>.<%s>" % (c0, cl), u"plain", c0],
            "steps": [{"kw": u"Given", "name": u"s " + u"-".join(ph) + u" end",
                       "text": u"doc <%s>\n\n  ind <%s> <%s>\n%s" % (c0, cl, c0, c0), "table": None},
                      {"kw": u"When", "name": u"tab <%s>" % cl, "text": None,
                       "table": [[u"h<%s>" % c0, u"k"], [u"<%s>" % c0, u"<%s><%s>" % (cl, c0)], [u"", u"lit " + cl]]},
                      {"kw": u"Then", "name": u"plain then", "text": None, "table": None},
                      {"kw": u"But", "name": u"it <%s> tail <%s>" % (c0, c0), "text": None, "table": None}]}


def tmpl_nametag(cols):
    c0 = cols[0]
    return {"name": u"<%s>" % c0, "tags": [u"<%s>" % c0, u"x<%s>y" % cols[-1]],
            "steps": [{"kw": u"Given", "name": u"no placeholder here", "text": None, "table": None}]}


def tmpl_doc_table(cols):
    c0, cl = cols[0], cols[-1]
    return {"name": u"docs and tables", "tags": [],
            "steps": [{"kw": u"Given", "name": u"both <%s>" % c0,
                       "text": u"<%s>\n  <%s>\n\n<%s>" % (c0, cl, u"><".join(cols)),
                       "table": [[u"<%s>" % c0, u"<%s>" % cl], [u"<%s>" % cl, u"<%s>" % c0], [u"x", u""],
                                 [u"<%s> <%s>" % (c0, c0), cl]]},
                      {"kw": u"*", "name": u"star step <%s>" % cl, "text": None, "table": [[u"only"], [u"<%s>" % c0]]}]}


TEMPLATES = [tmpl_none, tmpl_all, tmpl_nametag, tmpl_doc_table]

LAYOUT0 = {"top_comments": 0, "pre_scenario": False, "in_rule": False, "tags_two_lines": False}


def mk_tree(tmpl, examples, layout=None):
    t = copy.deepcopy(tmpl)
    t["examples"] = examples
    t["layout"] = dict(layout or LAYOUT0)
    return t


def family_single_row(tier):
    """Part A: one examples block, one row, ALL value tuples, every fixed template, both
    column orders (k = 1, 2; k = 3 in thorough)."""
    ks = (1, 2, 3) if tier == "thorough" else (1, 2)
    for k in ks:
        cols = COLS3[:k]
        pools = [value_pool(c, cols) for c in cols]
        orders = [list(range(k)), list(reversed(range(k)))] if k > 1 else [[0]]
        for tf in TEMPLATES:
            tmpl = tf(cols)
            for values in itertools.product(*pools):
                for order in orders:
                    ex = {"name": u"E1", "tags": [u"e1"], "headings": [cols[i] for i in order],
                          "rows": [[values[i] for i in order]], "gaps": [0]}
                    yield mk_tree(tmpl, [ex])


def family_layouts(tier):
    """Part B: ALL sequences of <= 3 examples blocks with row count in {no table, 0, 1, 2}
    (thorough: {no table, 0, 1, 2, 3}), cyclic value filling, alternating column order,
    tags and gaps, two templates, two layouts."""
    counts = (None, 0, 1, 2, 3) if tier == "thorough" else (None, 0, 1, 2)
    cols = COLS3[:2]
    pool = [u"", u"x", u"b", u"ü", u"a", u"x y", u"Ωmega-3"]
    lay2 = {"top_comments": 2, "pre_scenario": True, "in_rule": True, "tags_two_lines": True}
    for nblocks in (1, 2, 3):
        for combo in itertools.product(counts, repeat=nblocks):
            for ti, tf in enumerate((tmpl_all, tmpl_doc_table)):
                cursor = ti
                examples = []
                for bi, cnt in enumerate(combo):
                    heads = cols if bi % 2 == 0 else list(reversed(cols))
                    ex = {"name": [u"", u"E%d" % (bi + 1), u"Grüppe %d" % bi][(bi + ti) % 3],
                          "tags": [[], [u"e%d" % bi], [u"e%d" % bi, u"shared"]][(bi + nblocks) % 3],
                          "headings": None if cnt is None else list(heads), "rows": [], "gaps": []}
                    for r in range(cnt or 0):
                        ex["rows"].append([pool[(cursor + j * 3) % len(pool)] for j in range(len(heads))])
                        ex["gaps"].append((cursor + r) % 3)
                        cursor += 1
                    examples.append(ex)
                yield mk_tree(tf(cols), examples, LAYOUT0 if (nblocks + ti) % 2 == 0 else lay2)


# -- random outlines -------------------------------------------------------------
WORDS = [u"foo", u"a", u"b", u"col2", u"ü", u"{name}", u"{0}", u"100%", u"it's", u"日本", u"x.y"]
TAGWORDS = [u"t", u"a", u"b", u"col2", u"ü", u"x.y", u"k=v", u"n-1"]
ALLCOLS = [u"a", u"b", u"col2", u"my col", u"größe"]


def rnd_text(rng, cols, first_word=False, maxp=5):
    n = rng.randint(1, maxp)
    parts = []
    for i in range(n):
        if (first_word and i == 0) or rng.random() < 0.45:
            parts.append(rng.choice(WORDS))
        else:
            parts.append(u"<%s>" % rng.choice(cols))
        if i < n - 1:
            parts.append(rng.choice([u" ", u" ", u"", u"-", u"_"]))
    return u"".join(parts)


def rnd_tag(rng, cols):
    n = rng.randint(1, 3)
    parts = []
    for i in range(n):
        parts.append(rng.choice(TAGWORDS) if rng.random() < 0.5 else u"<%s>" % rng.choice(cols))
        if i < n - 1:
            parts.append(rng.choice([u"", u".", u"_", u":"]))
    return u"".join(parts)


def rnd_tree(rng):
    k = rng.randint(1, 3)
    cols = rng.sample(ALLCOLS, k)
    tagcols = [c for c in cols if u" " not in c] or None     # docs: placeholder names in tags: no whitespace
    steps = []
    for si in range(rng.randint(1, 4)):
        kw = rng.choice([u"Given", u"When", u"Then"]) if si == 0 else rng.choice([u"Given", u"When", u"Then", u"And", u"But", u"*"])
        st = {"kw": kw, "name": rnd_text(rng, cols, first_word=True), "text": None, "table": None}
        if rng.random() < 0.4:
            lines = []
            for li in range(rng.randint(1, 3)):
                ln = rng.choice([u"", u"  ", u"    "]) + rnd_text(rng, cols)
                lines.append(ln)
            if rng.random() < 0.3 and len(lines) > 1:
                lines.insert(1, u"")
            st["text"] = u"\n".join(lines)
        if rng.random() < 0.4:
            w = rng.randint(1, 3)
            tab = [[rnd_text(rng, cols, maxp=2) for _ in range(w)]]
            for _ in range(rng.randint(0, 3)):
                tab.append([u"" if rng.random() < 0.15 else rnd_text(rng, cols, maxp=3) for _ in range(w)])
            st["table"] = tab
        steps.append(st)
    tags = []
    for _ in range(rng.randint(0, 3)):
        tags.append(rnd_tag(rng, tagcols) if tagcols and rng.random() < 0.7 else rng.choice(TAGWORDS))
    name = u"" if rng.random() < 0.05 else rnd_text(rng, cols)
    examples = []
    for bi in range(rng.randint(1, 3)):
        if rng.random() < 0.1:
            examples.append({"name": rng.choice([u"", u"NoTable"]), "tags": [], "headings": None, "rows": [], "gaps": []})
            continue
        heads = list(cols)
        rng.shuffle(heads)
        if rng.random() < 0.25:
            heads.insert(rng.randint(0, len(heads)), u"unused")
        pool = [u"", u"x", u"ü", u"x y", u"Ωmega-3", u"42", u"Zoë 9"] + cols + [u"unused"]
        rows = [[rng.choice(pool) for _ in heads] for _ in range(rng.choice([0, 1, 1, 2, 2, 3, 4]))]
        examples.append({"name": rng.choice([u"", u"E%d" % bi, u"Some group", u"a"]),
                         "tags": rng.sample([u"e1", u"e2", u"slow", u"a"], rng.randint(0, 2)),
                         "headings": heads, "rows": rows, "gaps": [rng.choice([0, 0, 1, 2]) for _ in rows]})
    layout = {"top_comments": rng.choice([0, 0, 1, 3]), "pre_scenario": rng.random() < 0.3,
              "in_rule": rng.random() < 0.3, "tags_two_lines": rng.random() < 0.3}
    return {"name": name, "tags": tags, "steps": steps, "examples": examples, "layout": layout}


def outline_cases(tier, rng, n_random):
    for t in family_single_row(tier):
        yield t
    for t in family_layouts(tier):
        yield t
    for _ in range(n_random):
        yield rnd_tree(rng)


N_RANDOM_SPEC = {"quick": 3000, "thorough": 40000}
N_RANDOM_FRAME = {"quick": 1000, "thorough": 12000}


# =============================================================================
# check 1: expansion == spec
# =============================================================================
def eval_spec(tree, schema=DEFAULT_SCHEMA, subst_examples_name=False):
    try:
        text, info, feature, o = parse_tree(tree)
    except Exception as e:      # the writer's output must be accepted
        return False, "parse failed: %s: %s" % (type(e).__name__, e)
    if o is None:
        return False, "no ScenarioOutline in the parsed feature"
    problems = []
    pre = diff(expected_template(tree, info), observe_template(o), "template")
    if pre:
        problems.append("PRECONDITION (parser did not return the outline as written): " + "; ".join(pre[:3]))
    try:
        scenarios = get_scenarios(o)
    except Exception as e:
        return False, "ScenarioOutline.scenarios raised %s: %s" % (type(e).__name__, e)
    exp = expected_scenarios(tree, info, schema, subst_examples_name)
    obs = [observe_scenario(s) for s in scenarios]
    if len(exp) != len(obs):
        problems.append("expected %d scenarios (one per row), observed %d: %r"
                        % (len(exp), len(obs), [s["name"] for s in obs]))
    else:
        problems.extend(diff(exp, obs, "scenarios"))
    return _verdict(problems)


def run_spec(tier, rng):
    for tree in outline_cases(tier, rng, N_RANDOM_SPEC[tier]):
        ok, detail = eval_spec(tree)
        yield tree, ok, detail


def replay_spec(case):
    ok, detail = eval_spec(case)
    return case, ok, detail


# =============================================================================
# check 2: frame -- template and other rows untouched, cache identity
# =============================================================================
def _mutate_scenario(s):
    s.tags.append(u"MUT")
    s.name = s.name + u" MUT"
    for st in s.steps:
        st.name = st.name + u" MUT"
        if st.text is not None:
            st.text = bmodel.Text(u"MUT")
        if st.table is not None:
            if st.table.headings:
                st.table.headings[0] = u"MUT"
            for r in st.table.rows:
                if r.cells:
                    r.cells[0] = u"MUT"
            st.table.add_row([u"MUT"] * len(st.table.headings))
    if s.steps:
        del s.steps[-1]


def eval_frame(tree):
    try:
        text, info, feature, o = parse_tree(tree)
    except Exception as e:
        return False, "parse failed: %s: %s" % (type(e).__name__, e)
    problems = []
    before = observe_template(o)
    try:
        s1 = get_scenarios(o)
        after = observe_template(o)
        problems.extend("building changed the template: " + d for d in diff(before, after, "template"))
        s2 = get_scenarios(o)
        if s2 is not s1:
            problems.append("second .scenarios access without modification returned a different list object")
        if [id(x) for x in s2] != [id(x) for x in s1]:
            problems.append("second .scenarios access returned different scenario objects")
        # -- no generated scenario shares step / table / row / cell-list objects with the template or a sibling
        owners = {}
        for st in o.steps:
            owners[id(st)] = "template"
            if st.table is not None:
                owners[id(st.table)] = "template"
                owners[id(st.table.headings)] = "template"
                for r in st.table.rows:
                    owners[id(r)] = "template"
                    owners[id(r.cells)] = "template"
        owners[id(o.tags)] = "template"
        owners[id(o.steps)] = "template"
        for ex in o.examples:
            owners[id(ex.tags)] = "examples"
        for i, s in enumerate(s1):
            objs = [s.tags, s.steps]
            for st in s.steps:
                objs.append(st)
                if st.table is not None:
                    objs.extend([st.table, st.table.headings])
                    for r in st.table.rows:
                        objs.extend([r, r.cells])
            for ob in objs:
                if id(ob) in owners:
                    problems.append("scenario[%d] shares a %s object with %s" % (i, type(ob).__name__, owners[id(ob)]))
            for ob in objs:
                owners[id(ob)] = "scenario[%d]" % i
        # -- mutate each generated scenario in turn: nothing else moves, no rebuild is triggered
        for i, s in enumerate(s1):
            snap = [observe_scenario(x) for x in s1]
            _mutate_scenario(s)
            snap2 = [observe_scenario(x) for x in s1]
            for j in range(len(s1)):
                if j != i:
                    problems.extend("mutating scenario[%d] changed scenario[%d]: %s" % (i, j, d)
                                    for d in diff(snap[j], snap2[j], ""))
            if snap[i] == snap2[i] and s.steps:
                problems.append("VACUOUS: mutation of scenario[%d] was not observable" % i)
            problems.extend("mutating scenario[%d] changed the template: %s" % (i, d)
                            for d in diff(before, observe_template(o), "template"))
            s3 = get_scenarios(o)
            if s3 is not s1:
                problems.append("mutating a generated scenario triggered a rebuild of .scenarios")
    except Exception as e:
        problems.append("raised %s: %s" % (type(e).__name__, e))
    return _verdict(problems)


def run_frame(tier, rng):
    for tree in outline_cases(tier, rng, N_RANDOM_FRAME[tier]):
        ok, detail = eval_frame(tree)
        yield tree, ok, detail


def replay_frame(case):
    ok, detail = eval_frame(case)
    return case, ok, detail


# =============================================================================
# check 3: name annotation schemas
# =============================================================================
SCHEMAS = [
    DEFAULT_SCHEMA,
    u"{name}",
    u"{name} -- @{row.id}",
    u"{examples.name}.{row.index}: {name}",
    u"{name} [{examples.index}/{row.index}]",
    u"{row.id} {name} {examples.name} {examples.index} {row.index} {row.id} {name}",
    u"row {row.index} of group {examples.index}",
]
SCHEMA_NAMES = [u"Wow", u"Wow <a>-<b>", u"{name} {0} }{ <a>", u"<b><a> {examples.name}", u""]
SCHEMA_EXNAMES = [u"", u"Araxas", u"Benares-<a>", u"{row.id}"]
SCHEMA_ROWS = [[u"Alice", u"1985"], [u"", u"ü"], [u"b", u"a"], [u"{x}", u"{name}"], [u"x y", u"{row.id}"]]


def schema_tree(name, exname, rows, second_block=True):
    examples = [{"name": exname, "tags": [], "headings": [u"a", u"b"], "rows": [list(r) for r in rows],
                 "gaps": [0] * len(rows)}]
    if second_block:
        examples.append({"name": u"NoTable", "tags": [], "headings": None, "rows": [], "gaps": []})
        examples.append({"name": exname, "tags": [u"e3"], "headings": [u"b", u"a"],
                         "rows": [list(reversed(r)) for r in rows[:2]], "gaps": [1] * len(rows[:2])})
    return {"name": name, "tags": [], "examples": examples, "layout": dict(LAYOUT0),
            "steps": [{"kw": u"Given", "name": u"an employee <a>", "text": None, "table": None}]}


def eval_schema(case):
    """case = {"schema": text or null (null = leave the class default alone), "tree": tree}"""
    cls = bmodel.ScenarioOutline
    saved = cls.__dict__.get("annotation_schema", None)
    had = "annotation_schema" in cls.__dict__
    try:
        if case["schema"] is not None:
            cls.annotation_schema = case["schema"]
        return eval_spec(case["tree"], case["schema"] if case["schema"] is not None else DEFAULT_SCHEMA,
                         subst_examples_name=True)
    finally:
        if had:
            cls.annotation_schema = saved
        else:
            try:
                del cls.annotation_schema
            except AttributeError:
                pass


def schema_cases(tier):
    for schema in [None] + SCHEMAS:
        for name in SCHEMA_NAMES:
            for exname in SCHEMA_EXNAMES:
                if tier == "thorough":
                    for n in (1, 2, 3):
                        for rows in itertools.combinations(SCHEMA_ROWS, n):
                            yield {"schema": schema, "tree": schema_tree(name, exname, rows)}
                else:
                    yield {"schema": schema, "tree": schema_tree(name, exname, SCHEMA_ROWS)}
                    yield {"schema": schema, "tree": schema_tree(name, exname, SCHEMA_ROWS[:1], second_block=False)}


def run_schema(tier, rng):
    for case in schema_cases(tier):
        ok, detail = eval_schema(case)
        yield case, ok, detail


def replay_schema(case):
    ok, detail = eval_schema(case)
    return case, ok, detail


# =============================================================================
# check 4: Table API history on the examples tables
# =============================================================================
def api_base_trees():
    tmpl = {"name": u"H <a>/<b>/<z>", "tags": [u"t_<a>", u"plain"],
            "steps": [{"kw": u"Given", "name": u"s <a> <b> <z>", "text": u"d <z><b>\n<a>", "table": None},
                      {"kw": u"Then", "name": u"t", "text": None,
                       "table": [[u"h<z>", u"<a>"], [u"<b>", u"<z> <a>"]]}]}
    b1 = mk_tree(tmpl, [
        {"name": u"E1", "tags": [u"e1"], "headings": [u"a", u"b"], "rows": [[u"1", u"z"]], "gaps": [0]},
        {"name": u"", "tags": [], "headings": [u"b", u"a"], "rows": [[u"ü", u""], [u"a", u"b"]], "gaps": [1, 0]},
    ])
    b2 = mk_tree(tmpl, [
        {"name": u"Empty", "tags": [u"e0"], "headings": [u"a", u"b"], "rows": [], "gaps": []},
        {"name": u"NoTable", "tags": [], "headings": None, "rows": [], "gaps": []},
        {"name": u"E3", "tags": [], "headings": [u"a", u"b"], "rows": [[u"x y", u"q"]], "gaps": [2]},
    ])
    return [b1, b2]


def api_alphabet(tree):
    ops = []
    for ei, ex in enumerate(tree["examples"]):
        if ex["headings"] is None:
            continue
        ops.append({"op": "add_row", "ex": ei, "vals": [u"new", u"", u"ü"], "line": 900 + ei})
        ops.append({"op": "add_row", "ex": ei, "vals": [u"b", u"z", u"a"], "line": None})
        ops.append({"op": "add_column", "ex": ei, "name": u"z", "values": None, "default": None})
        ops.append({"op": "add_column", "ex": ei, "name": u"z", "values": None, "default": u"D"})
        ops.append({"op": "add_column", "ex": ei, "name": u"z", "values": [u"v1"], "default": u"a"})
        ops.append({"op": "remove_column", "ex": ei, "name": u"b"})
        ops.append({"op": "remove_column", "ex": ei, "name": u"z"})
    return ops


def api_applicable(state, op):
    ex = state["examples"][op["ex"]]
    if op["op"] == "add_column":
        return op["name"] not in ex["headings"]
    if op["op"] == "remove_column":
        return op["name"] in ex["headings"]
    return True


def api_model_apply(state, lines, op):
    """Own model of the documented Table mutators on the abstract tree."""
    ex = state["examples"][op["ex"]]
    if op["op"] == "add_row":
        ex["rows"].append([op["vals"][j % len(op["vals"])] for j in range(len(ex["headings"]))])
        lines[op["ex"]].append(op["line"])          # None: "whatever line the Table gives the row"
    elif op["op"] == "add_column":
        default = u"" if op["default"] is None else op["default"]
        values = list(op["values"] or [])
        values = values + [default] * (len(ex["rows"]) - len(values))
        ex["headings"].append(op["name"])
        for r, v in zip(ex["rows"], values):
            r.append(v)
    elif op["op"] == "remove_column":
        i = ex["headings"].index(op["name"])
        del ex["headings"][i]
        for r in ex["rows"]:
            del r[i]


def api_real_apply(o, op):
    table = o.examples[op["ex"]].table
    if op["op"] == "add_row":
        cells = [op["vals"][j % len(op["vals"])] for j in range(len(table.headings))]
        if op["line"] is None:
            table.add_row(cells)
        else:
            table.add_row(cells, op["line"])
    elif op["op"] == "add_column":
        kwargs = {}
        if op["values"] is not None:
            kwargs["values"] = list(op["values"])
        if op["default"] is not None:
            kwargs["default_value"] = op["default"]
        table.add_column(op["name"], **kwargs)
    elif op["op"] == "remove_column":
        table.remove_column(op["name"])


def _api_compare(o, state, info, lines, label, problems):
    s = get_scenarios(o)
    info2 = dict(info)
    rl = []
    for ei, ex in enumerate(o.examples):
        if lines[ei] is None:
            rl.append(None)
        else:
            # rows added with line=None: the property only says scenario.line == row.line
            rl.append([ln if ln is not None else ex.table.rows[ri].line for ri, ln in enumerate(lines[ei])])
    info2["row_lines"] = rl
    exp = expected_scenarios(state, info2)
    obs = [observe_scenario(x) for x in s]
    if len(exp) != len(obs):
        problems.append("%s: expected %d scenarios, observed %d %r" % (label, len(exp), len(obs), [x["name"] for x in obs]))
    else:
        problems.extend("%s: %s" % (label, d) for d in diff(exp, obs, "scenarios")[:4])
    s_again = get_scenarios(o)
    if s_again is not s:
        problems.append("%s: next access without modification returned a different list object" % label)
    return s


def eval_api(case):
    """case = {"base": index, "ops": [op...], "access_first": bool, "access_each": bool}"""
    tree = api_base_trees()[case["base"]]
    try:
        text, info, feature, o = parse_tree(tree)
    except Exception as e:
        return False, "parse failed: %s: %s" % (type(e).__name__, e)
    state = copy.deepcopy(tree)
    lines = [None if rl is None else list(rl) for rl in info["row_lines"]]
    problems = []
    try:
        if case["access_first"]:
            _api_compare(o, state, info, lines, "before any op", problems)
        for k, op in enumerate(case["ops"]):
            if not api_applicable(state, op):
                return False, "case not applicable: op %d %r" % (k, op)
            api_model_apply(state, lines, op)
            api_real_apply(o, op)
            if case["access_each"] or k == len(case["ops"]) - 1:
                _api_compare(o, state, info, lines, "after op %d (%s)" % (k, op["op"]), problems)
        if not case["ops"] and not case["access_first"]:
            _api_compare(o, state, info, lines, "first access", problems)
    except Exception as e:
        problems.append("raised %s: %s" % (type(e).__name__, e))
    return _verdict(problems)


def api_cases(tier):
    maxlen = 3 if tier == "thorough" else 2
    for bi, tree in enumerate(api_base_trees()):
        alphabet = api_alphabet(tree)
        for n in range(0, maxlen + 1):
            for seq in itertools.product(alphabet, repeat=n):
                state = copy.deepcopy(tree)
                lines = [None if ex["headings"] is None else [0] * len(ex["rows"]) for ex in tree["examples"]]
                okseq = True
                for op in seq:
                    if not api_applicable(state, op):
                        okseq = False
                        break
                    api_model_apply(state, lines, op)
                if not okseq:
                    continue
                for access_first in (True, False):
                    for access_each in ((True, False) if n > 1 else (True,)):
                        yield {"base": bi, "ops": [dict(op) for op in seq], "access_first": access_first,
                               "access_each": access_each}


def run_api(tier, rng):
    for case in api_cases(tier):
        ok, detail = eval_api(case)
        yield case, ok, detail


def replay_api(case):
    ok, detail = eval_api(case)
    return case, ok, detail


# =============================================================================
# checks 5 + 6: ScenarioOutlineBuilder.render_template directly
# =============================================================================
RT_COLS = [u"col1", u"col2", u"col3"]
RT_VALUES = [u"", u"x", u"ü", u"col2"]


def eval_render(case):
    """case = {"template": text, "headings": [...], "cells": [...]}"""
    row = bmodel.Row(list(case["headings"]), list(case["cells"]), line=1)
    expected = subst(case["template"], dict(zip(case["headings"], case["cells"])))
    try:
        observed = bmodel.ScenarioOutlineBuilder.render_template(case["template"], row)
    except Exception as e:
        return False, "raised %s: %s" % (type(e).__name__, e)
    if _u(observed) != expected:
        return False, "expected %r, observed %r" % (expected, _u(observed))
    return True, "ok"


def render_templates(k, literals, max_placeholders):
    cols = RT_COLS[:k]
    for n in range(0, max_placeholders + 1):
        for phs in itertools.product(cols, repeat=n):
            for lits in itertools.product(literals, repeat=n + 1):
                parts = [lits[0]]
                for p, l in zip(phs, lits[1:]):
                    parts.append(u"<%s>" % p)
                    parts.append(l)
                yield u"".join(parts)


def run_render(tier, rng):
    literals = [u"", u"-", u"col2", u"<nocol>", u"x y"] if tier == "thorough" else [u"", u"col2", u"<nocol>"]
    for k in (1, 2, 3):
        seen = set()
        for template in render_templates(k, literals, 3):
            if template in seen:
                continue
            seen.add(template)
            for cells in itertools.product(RT_VALUES, repeat=k):
                case = {"template": template, "headings": RT_COLS[:k], "cells": list(cells)}
                ok, detail = eval_render(case)
                yield case, ok, detail


ANGLE_OUTLINE_TEXTS = [u"x <<a>> y", u"<<a>>", u"< <a> >", u"<<b>> <a>", u"1 < 2 and <a> > 0"]
ANGLE_OUTLINE_ROWS = [[u"b", u"Q"], [u"x", u""]]


def position_tree(position, text, headings, rows):
    t = {"name": u"N", "tags": [],
         "steps": [{"kw": u"Given", "name": u"a step", "text": None, "table": None}],
         "examples": [{"name": u"E", "tags": [u"e1"], "headings": list(headings),
                       "rows": [list(r) for r in rows], "gaps": [0] * len(rows)}],
         "layout": dict(LAYOUT0)}
    if position == "name":
        t["name"] = text
    elif position == "step":
        t["steps"][0]["name"] = u"s " + text
    elif position == "doc":
        t["steps"][0]["text"] = text
    elif position == "heading":
        t["steps"][0]["table"] = [[text, u"k"], [u"v", u"w"]]
    elif position == "cell":
        t["steps"][0]["table"] = [[u"h", u"k"], [text, u"w"]]
    elif position == "tag":
        t["tags"] = [text]
    return t


def eval_angle_outline(case):
    """case = {"position": ..., "text": ..., "headings": [...], "rows": [[...]]}: the same contract seen
    through a parsed outline (expansion-spec on a one-position outline)."""
    return eval_spec(position_tree(case["position"], case["text"], case["headings"], case["rows"]))


def run_render_angle(tier, rng):
    """Same contract; literal pieces are lone angle brackets and a value may be a lone "<"
    (no value contains a "<...>" pattern)."""
    for position in ("name", "step", "doc", "heading", "cell"):
        for text in ANGLE_OUTLINE_TEXTS:
            case = {"position": position, "text": text, "headings": [u"a", u"b"], "rows": ANGLE_OUTLINE_ROWS}
            ok, detail = eval_angle_outline(case)
            yield case, ok, detail
    literals = [u"", u"<", u">"]
    values = [u"", u"x", u"col2", u"<"]
    maxp = 2 if tier == "thorough" else 1
    for k in (1, 2):
        seen = set()
        for template in render_templates(k, literals, maxp):
            if template in seen:
                continue
            seen.add(template)
            for cells in itertools.product(values, repeat=k):
                case = {"template": template, "headings": RT_COLS[:k], "cells": list(cells)}
                ok, detail = eval_render(case)
                yield case, ok, detail


def replay_render(case):
    ok, detail = eval_angle_outline(case) if "position" in case else eval_render(case)
    return case, ok, detail


# =============================================================================
# check 7: text without <column> placeholders is unchanged (every position)
# =============================================================================
UNCHANGED_TEXTS = {
    # position -> texts that hold no placeholder of a column of the examples table
    "name": [u"plain name", u"a b", u"<nocol>", u"x <nocol> a", u"{name} {row.id}", u"ü 100%"],
    "step": [u"plain step", u"a and b", u"it <nocol> x", u"{0}"],
    "doc": [u"plain doc", u"a\n  b", u"<nocol>\n\n<other one>"],
    "heading": [u"h", u"a", u"<nocol>"],
    "cell": [u"", u"a", u"<nocol>", u"b <nocol>"],
    "tag": [u"plain", u"a", u"a.b-c_d=e:f,g;h(i)", u"ü", u"wip/x", u"a+b", u"c#", u"100%", u"it's",
            u"q?", u"a&b", u"t_<nocol>", u"<nocol>"],
}


def unchanged_tree(position, text):
    t = position_tree(position, text, [u"a", u"b"], [[u"1", u"2"], [u"", u"a"]])
    if position == "step":
        t["steps"][0]["name"] = text
    return t


def eval_unchanged(case):
    """case = {"position": ..., "text": ...}; expectation by the property text: the text comes out unchanged
    in every generated scenario (tags: the outline tag is present, unchanged, next to the examples tag)."""
    tree = unchanged_tree(case["position"], case["text"])
    try:
        text, info, feature, o = parse_tree(tree)
    except Exception as e:
        return False, "parse failed: %s: %s" % (type(e).__name__, e)
    exp = expected_scenarios(tree, info)
    if case["position"] == "tag":
        for e in exp:
            e["tags"] = sorted([case["text"], u"e1"])       # literally unchanged, no normalisation
    try:
        obs = [observe_scenario(s) for s in get_scenarios(o)]
    except Exception as e:
        return False, "raised %s: %s" % (type(e).__name__, e)
    problems = []
    pre = diff(expected_template(tree, info), observe_template(o), "template")
    if pre:
        problems.append("PRECONDITION (parser did not return the outline as written): " + "; ".join(pre[:3]))
    problems.extend(diff(exp, obs, "scenarios"))
    return _verdict(problems)


def run_unchanged(tier, rng):
    for position in ("name", "step", "doc", "heading", "cell", "tag"):
        for text in UNCHANGED_TEXTS[position]:
            case = {"position": position, "text": text}
            ok, detail = eval_unchanged(case)
            yield case, ok, detail


def replay_unchanged(case):
    ok, detail = eval_unchanged(case)
    return case, ok, detail


# =============================================================================
CHECKS = [
    BoundedCheck(
        "expansion-spec",
        bound={
            "quick": "outlines written by the own Gherkin writer, parsed by parse_feature, .scenarios compared with the "
                     "spec. EXHAUSTIVE: (A) 4 fixed templates (no placeholder at all / placeholders in name, step names, "
                     "doc-string, table headings+cells, tags, adjacent and repeated / name+tag only / doc+table) x k in "
                     "{1,2} columns x ALL value tuples of one row over {'', 'x', u-umlaut, 'x y', every column name, "
                     "'Omega-3'} x both column orders; (B) ALL sequences of <= 3 examples blocks with row count in "
                     "{no table, 0, 1, 2} x 2 templates, alternating column order/tags/names/comment gaps, outline at top "
                     "level or inside a Rule. SAMPLED: (C) 3000 random outlines (seeded): 1-3 columns from 5 names incl. "
                     "'my col' and unicode, 1-4 steps, random doc-strings/tables/tags, 1-3 blocks of 0-4 rows, unused "
                     "extra column, Examples without table. Cell values never contain '<' or '>'; literal template text "
                     "never contains a lone '<' or '>' nor <row.id>-style specials; tag placeholders use columns without "
                     "whitespace in the name.",
            "thorough": "as quick, with (A) also k = 3 (ALL 7^3 value triples), (B) row count in {no table, 0, 1, 2, 3}, "
                        "(C) 40000 random outlines.",
        },
        run=run_spec, replay=replay_spec,
        contract="forall outline tree T: let O = outline(parse_feature(write(T))): [observe(s) for s in O.scenarios] == "
                 "[scenario(T, e, r) for e in T.examples if e has a table for r in e.rows] where scenario(T,e,r) has "
                 "name = default_schema(subst(T.name, r), e.name, index(e), index(r)), line = line the writer gave r, "
                 "filename, tags = multiset(subst_tag(t, r) for t in T.tags) + e.tags, steps[k] = T.steps[k] with "
                 "name/doc-string/every table heading and cell simultaneously substituted and keyword, step type and "
                 "line kept; precondition: the parsed template equals T"),
    BoundedCheck(
        "expansion-frame",
        bound={
            "quick": "same families as expansion-spec (A, B exhaustive as there; C = 1000 random outlines); per outline: "
                     "deep snapshot of the template (name, tags, steps, doc-strings, step tables, examples names/tags/"
                     "headings/cells/row lines) before and after the first .scenarios access, identity of the cached list "
                     "and its members on the second access, object-sharing census (step, table, headings list, row, cell "
                     "list, tags list) between template, examples and all generated scenarios, then EVERY generated "
                     "scenario is mutated in turn (tags.append, names, doc-string, table heading/cells in place, "
                     "table.add_row, del steps[-1]) and all other scenarios and the template are compared with their "
                     "snapshots.",
            "thorough": "as quick with the thorough families of expansion-spec and 12000 random outlines.",
        },
        run=run_frame, replay=replay_frame,
        contract="forall T: snapshot(template) is the same before/after building; O.scenarios is O.scenarios; no object "
                 "reachable from a generated scenario's tags/steps/tables is reachable from the template, an examples "
                 "block or another generated scenario; forall i: mutate(O.scenarios[i]) leaves observe(O.scenarios[j]) "
                 "(j != i) and snapshot(template) unchanged and does not trigger a rebuild"),
    BoundedCheck(
        "annotation-schema",
        bound={
            "quick": "ALL of {class default untouched, the 7 listed schemas built from the documented placeholders "
                     "{name} {examples.name} {examples.index} {row.index} {row.id}} x 5 outline names (plain, with "
                     "placeholders, with literal braces, empty) x 4 examples names (empty, plain, with a <column> "
                     "placeholder as documented, brace text) x 2 outlines (3 blocks incl. one without table, 5 rows with "
                     "empty/unicode/brace values; 1 block 1 row); schema set through ScenarioOutline.annotation_schema "
                     "(class attribute, restored afterwards).",
            "thorough": "as quick, with ALL subsets of 1..3 of the 5 rows instead of the 2 fixed outlines.",
        },
        run=run_schema, replay=replay_schema,
        contract="forall schema S, outline T: scenario.name == S with {name} := subst(T.name, row), {examples.name} := "
                 "subst(examples.name, row), {examples.index} := 1-based position of the block among ALL Examples of the "
                 "outline, {row.index} := 1-based position of the row, {row.id} := '<examples.index>.<row.index>'; "
                 "everything else as in expansion-spec"),
    BoundedCheck(
        "table-api-history",
        bound={
            "quick": "2 base outlines (two blocks a,b / b,a with 1 and 2 rows; a zero-row block + an Examples without "
                     "table + a one-row block) x ALL applicable sequences of <= 2 operations from {add_row explicit "
                     "line, add_row default line, add_column z (no values / default 'D' / short values list + default), "
                     "remove_column b, remove_column z} per block with a table x {.scenarios read before the first op or "
                     "not} x {.scenarios read after every op or only at the end}. The parametrised outline tag uses only "
                     "column a, which is never removed.",
            "thorough": "as quick with ALL applicable sequences of <= 3 operations.",
        },
        run=run_api, replay=replay_api,
        contract="forall history h of Table mutators on the examples tables: after h, O.scenarios == "
                 "expansion-spec(model(h)(T)) (rows added with line=None: scenario.line == row.line as assigned by the "
                 "Table), and the access directly after it returns the same list object"),
    BoundedCheck(
        "render-template",
        bound={
            "quick": "EXHAUSTIVE: k in {1,2,3} columns col1..col3, ALL rows over {'', 'x', u-umlaut, 'col2'}^k, ALL "
                     "templates L0 P1 L1 .. Pn Ln with n <= 3 placeholders Pi in the k columns and literals Li in "
                     "{'', 'col2', '<nocol>'}; row passed as a real model.Row, params=None.",
            "thorough": "as quick with literals Li in {'', '-', 'col2', '<nocol>', 'x y'}.",
        },
        run=run_render, replay=replay_render,
        contract="forall template t, row r (no cell contains '<' or '>'): ScenarioOutlineBuilder.render_template(t, r) "
                 "== subst(t, r) (simultaneous substitution; unknown <name> kept)"),
    BoundedCheck(
        "render-template-angle-literals",
        bound={
            "quick": "25 one-position outlines through the parser (5 texts with lone angle brackets next to placeholders "
                     "x positions name/step/doc-string/table heading/table cell, rows (b,Q) and (x,'')), then EXHAUSTIVE "
                     "on render_template: k in {1,2} columns, ALL rows over {'', 'x', 'col2', '<'}^k (no value contains a "
                     "'<...>' pattern), ALL templates with n <= 1 placeholder and literals Li in {'', '<', '>'} "
                     "(lone angle brackets around placeholders).",
            "thorough": "as quick with n <= 2 placeholders.",
        },
        run=run_render_angle, replay=replay_render,
        contract="same as render-template: render_template(t, r) == subst(t, r); a value is never rescanned for "
                 "placeholders, also when it lands between literal '<' and '>'"),
    BoundedCheck(
        "non-placeholder-text-unchanged",
        bound={
            "quick": "ALL listed (position, text) pairs: 6 outline names, 4 step names, 3 doc-strings, 3 table headings, "
                     "4 table cells, 13 tags -- texts without any placeholder of a column of the examples table (a, b): "
                     "plain words, column names as plain words, an unknown <nocol>, brace text, and for tags the "
                     "characters . - _ = : , ; ( ) / + # % ' ? & ; one block, two rows.",
            "thorough": "same as quick (the space is a fixed list).",
        },
        run=run_unchanged, replay=replay_unchanged,
        contract="forall position p, text x without <column> placeholder: every generated scenario carries x unchanged "
                 "at p (tags: scenario.tags == multiset{x} + examples tags)"),
]
