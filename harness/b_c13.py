# -*- coding: utf-8 -*-
"""
harness.b_c13 -- bounded stand-ins (kind B) for property C13
"Context scoping and cleanups: layered visibility, LIFO exactly-once cleanup".

Checks (all on the real code imported from $VERIF_REPO):

* ``context-histories``   model-based: every operation history over the context
  API is executed on a fresh ``behave.runner.Context`` and on a reference model
  written here (stack of scopes = dict + cleanup list + layer name); results,
  visible attributes, stack shape, cleanup log, error counter and mode are
  compared after every operation, and again while the history is wound up
  (leave modes, pop every scope, run the root cleanups once).
* ``fixture-histories``   the same engine over use_fixture / use_fixture_by_tag /
  use_composite_fixture_with / fixture_call_params / scoped_context_layer.
* ``add-cleanup-same-function``  the same engine where one function is
  registered plain / with args / with kwargs (duplicate handling).
* ``run-scopes-and-cleanups``  real runs (harness.runlib): every hook and step
  probes/sets attributes and registers cleanups (plain, with args, layer=, as
  generator fixture); any one / two of the cleanups, hooks, steps raise.
* ``run-cleanup-error-junit``  the same runs with the JUnit reporter switched on.
* ``execute-steps-restores``  context.execute_steps() from a step.

The oracle is the property text / DESIGN.md section 5.13 view contracts, written
as ``Model`` (histories) and as a trace-driven census (runs).  No behave function
is used to compute an expected value.

A failing history is reduced (drop operations, then replace operations by
earlier ones of the alphabet, while it still fails) and reported once, as its
minimal form, so that one defect gives few, canonical cases.
"""
from __future__ import print_function
import contextlib
import importlib
import json
import linecache
import shutil
import sys
import tempfile
import traceback
import warnings

from harness.bounded import BoundedCheck          # (puts $VERIF_REPO on sys.path)
from harness import runlib

from behave.configuration import Configuration
from behave.runner import Context, scoped_context_layer

bfixture = importlib.import_module("behave.fixture")     # (behave.fixture the attribute is the decorator)

MISSING = "<missing>"
INVALID = "<invalid history>"


class Boom(Exception):
    """Raised by harness cleanups / fixtures / bodies."""


class _Null(object):
    def write(self, s):
        return len(s)

    def flush(self):
        pass


@contextlib.contextmanager
def _quiet():
    """No ContextMaskWarning noise, no CLEANUP-ERROR printing.  Never held
    across a ``yield`` of a check generator."""
    old = sys.stdout, traceback.print_exc, linecache.checkcache
    with warnings.catch_warnings():
        warnings.simplefilter("ignore")
        sys.stdout = _Null()
        # speed only: Context.print_cleanup_error formats a traceback per raising
        # cleanup; Context.__setattr__ stats source files via extract_stack.
        traceback.print_exc = _no_print_exc
        linecache.checkcache = _no_checkcache
        try:
            yield
        finally:
            sys.stdout, traceback.print_exc, linecache.checkcache = old


def _no_print_exc(*args, **kwargs):
    return None


def _no_checkcache(filename=None):
    return None


class _StubRunner(object):
    """What tests/unit use a Mock for: an object with ``.config``."""
    def __init__(self, config):
        self.config = config
        self.formatters = []
        self.captured = None


_STUB = []


def _stub():
    if not _STUB:
        with _quiet():
            _STUB.append(_StubRunner(Configuration([], load_config=False)))
    return _STUB[0]


def _tup(x):
    if isinstance(x, (list, tuple)):
        return tuple(_tup(y) for y in x)
    return x


def _lst(x):
    if isinstance(x, (list, tuple)):
        return [_lst(y) for y in x]
    return x


def _kw(kwargs):
    return tuple(sorted(kwargs.items()))


# =============================================================================
# REFERENCE MODEL (the specification, from the property text / DESIGN 5.13)
# =============================================================================
GEN_FIXTURES = ("G", "GR", "GS", "GI", "GSI", "G2Y")
FORM_ARGS = {"plain": ((), {}), "args": ((7,), {}), "kwargs": ((), {"k": 8}),
             "both": ((7,), {"k": 8})}
TAG_REGISTRY = {            # tag -> (fixture kind, args, kwargs) | kind | junk
    "fixture.g": ("tuple", "G", (1,), {"k": 2}),
    "fixture.l": ("list", "GR", (), {}),
    "fixture.f": ("func", "F"),
    "fixture.bad": ("junk", 42),
}


class _MExc(Exception):
    def __init__(self, tname, arg0=None):
        Exception.__init__(self, tname)
        self.out = ("exc", tname, arg0)


class _Frame(object):
    __slots__ = ("layer", "attrs", "cleanups")

    def __init__(self, layer, attrs=None):
        self.layer = layer
        self.attrs = attrs or {}
        self.cleanups = []


class Model(object):
    """Stack of scopes, innermost first."""

    def __init__(self):
        # documented initial root attributes ("Initially: False")
        self.frames = [_Frame("testrun", {"failed": False, "aborted": False})]
        self.log = []
        self.errs = 0
        self.fc = 0
        self.modes = ["BEHAVE"]

    # -- queries
    def valid(self, op):
        k = op[0]
        if k == "pop":
            return len(self.frames) > 1
        if k == "mode" and op[1] == "exit":
            return len(self.modes) > 1
        return True

    def _lookup(self, name):
        for f in self.frames:
            if name in f.attrs:
                return f
        return None

    def observe(self, names):
        vals = []
        for n in names:
            f = self._lookup(n)
            vals.append((f.attrs[n], True) if f is not None else (MISSING, False))
        return (len(self.frames), tuple(f.layer for f in self.frames), tuple(vals),
                self.log, self.errs, self.fc, self.modes[-1])

    def finish_ops(self):
        """How a run winds a context up: leave modes, pop scopes, root cleanups once."""
        return ((("mode", "exit"),) * (len(self.modes) - 1) +
                (("pop",),) * (len(self.frames) - 1) + (("do_cleanups",),))

    # -- operations
    def apply(self, op):
        try:
            return ("ret", self._do(op))
        except _MExc as e:
            return e.out

    def _cleanups(self, frame):
        """reverse registration order, all of them, first error wins."""
        first = None
        for entry in reversed(frame.cleanups):
            try:
                self._exec_cleanup(entry)
            except _MExc as e:
                self.errs += 1
                if first is None:
                    first = e
        return first

    def _exec_cleanup(self, entry):
        if entry[0] == "fn":
            _, fid, args, kwargs = entry
            self.log.append((fid, args, kwargs))
            if fid.endswith("1"):
                raise _MExc("Boom", fid)
            return
        _, kind, state = entry
        if not state["started"]:
            return                      # setup part never reached its yield
        self.log.append((kind + ".cleanup", (), ()))
        if kind == "GR":
            raise _MExc("Boom", "GR.cleanup")
        if kind == "G2Y":
            raise _MExc("InvalidFixtureError")

    def _add_cleanup(self, fid, form, layer):
        target = self.frames[0]
        if layer:
            for f in self.frames:
                if f.layer == layer:
                    target = f
                    break
            else:
                raise _MExc("LookupError")
        args, kwargs = FORM_ARGS[form]
        entry = ("fn", fid, args, _kw(kwargs))
        if form == "plain" and entry in target.cleanups:
            return                      # the same cleanup twice: still exactly once
        target.cleanups.append(entry)

    def _use_fixture(self, kind, args=(), kwargs=()):
        if kind in GEN_FIXTURES:
            state = {"started": False}
            # cleanup is registered before the setup part runs
            self.frames[0].cleanups.append(("fx", kind, state))
            self.log.append((kind + ".setup", args, kwargs))
            if kind in ("G", "GR", "G2Y"):
                self.frames[0].attrs["b"] = 6
            if kind in ("GI", "GSI"):
                self._add_cleanup("I0", "plain", None)
            if kind in ("GS", "GSI"):
                raise _MExc("Boom", kind + ".setup")
            state["started"] = True
            return kind
        self.log.append((kind + ".setup", args, kwargs))
        if kind == "FS":
            raise _MExc("Boom", "FS.setup")
        self.frames[0].attrs["b"] = 7
        return kind

    def _do(self, op):
        k = op[0]
        frames = self.frames
        if k == "push":
            frames.insert(0, _Frame(op[1]))
        elif k == "pop":
            first = self._cleanups(frames[0])
            del frames[0]               # on normal and on exceptional exit
            if first is not None:
                raise first
        elif k == "do_cleanups":
            first = self._cleanups(frames[0])
            if first is not None:
                raise first
        elif k == "set":
            frames[0].attrs[op[1]] = op[2]
        elif k == "get":
            f = self._lookup(op[1])
            if f is None:
                raise _MExc("AttributeError")
            return f.attrs[op[1]]
        elif k == "del":
            if op[1] not in frames[0].attrs:
                raise _MExc("AttributeError")
            del frames[0].attrs[op[1]]
        elif k == "in":
            return self._lookup(op[1]) is not None
        elif k == "set_root":
            frames[-1].attrs[op[1]] = op[2]
        elif k in ("uoa", "uoc"):
            f = self._lookup(op[1])
            if f is not None:
                return f.attrs[op[1]]
            if k == "uoc":
                self.fc += 1
            frames[0].attrs[op[1]] = op[2]
            return op[2]
        elif k == "ac":
            self._add_cleanup(op[1], op[2], op[3])
        elif k == "mode":
            if op[1] == "exit":
                self.modes.pop()
            else:
                self.modes.append(op[1].upper())
        elif k == "mode_raise":
            raise _MExc("Boom", "body")
        elif k == "fx":
            return self._use_fixture(op[1])
        elif k == "fxc":
            out = []
            for i, kind in enumerate(op[1]):
                out.append(self._use_fixture(kind, (i,), ()))
            return out
        elif k == "fxtag":
            data = TAG_REGISTRY.get(op[1])
            if data is None:
                raise _MExc("LookupError")
            if data[0] == "junk":
                raise _MExc("ValueError")
            if data[0] == "func":
                return self._use_fixture(data[1])
            return self._use_fixture(data[1], tuple(data[2]), _kw(data[3]))
        elif k == "scoped":
            frames.insert(0, _Frame(op[1]))
            outs = [self.apply(o) for o in op[2]]
            first = self._cleanups(frames[0])
            del frames[0]
            if first is not None:
                raise first
            if op[3]:
                raise _MExc("Boom", "body")
            return outs
        else:
            raise ValueError("unknown op %r" % (op,))
        return None


# =============================================================================
# REAL SIDE
# =============================================================================
def _make_fixture(kind, side):
    log = side.log

    def entered(a, kw):
        log.append((kind + ".setup", tuple(a), _kw(kw)))

    def left():
        log.append((kind + ".cleanup", (), ()))

    if kind == "G":
        @bfixture.fixture(name="fixture.g")
        def fx(context, *a, **kw):
            entered(a, kw)
            context.b = 6
            yield "G"
            left()
    elif kind == "GR":
        @bfixture.fixture
        def fx(context, *a, **kw):
            entered(a, kw)
            context.b = 6
            yield "GR"
            left()
            raise Boom("GR.cleanup")
    elif kind == "G2Y":
        @bfixture.fixture
        def fx(context, *a, **kw):
            entered(a, kw)
            context.b = 6
            yield "G2Y"
            left()
            yield "again"
            log.append(("G2Y.never", (), ()))
    elif kind == "GS":
        @bfixture.fixture
        def fx(context, *a, **kw):
            entered(a, kw)
            raise Boom("GS.setup")
            yield "GS"      # noqa (makes it a generator function)
            left()
    elif kind == "GI":
        @bfixture.fixture
        def fx(context, *a, **kw):
            entered(a, kw)
            context.add_cleanup(side.func("I0"))
            yield "GI"
            left()
    elif kind == "GSI":
        @bfixture.fixture
        def fx(context, *a, **kw):
            entered(a, kw)
            context.add_cleanup(side.func("I0"))
            raise Boom("GSI.setup")
            yield "GSI"     # noqa
            left()
    elif kind == "F":
        @bfixture.fixture
        def fx(context, *a, **kw):
            entered(a, kw)
            context.b = 7
            return "F"
    elif kind == "FS":
        @bfixture.fixture
        def fx(context, *a, **kw):
            entered(a, kw)
            raise Boom("FS.setup")
    else:
        raise ValueError(kind)
    return fx


class Real(object):
    def __init__(self):
        self.ctx = Context(_stub())
        self.log = []
        self.fc = 0
        self.cms = []
        self.funcs = {}
        self.fixtures = {}

    def func(self, fid):
        f = self.funcs.get(fid)
        if f is None:
            log = self.log
            raises = fid.endswith("1")

            def f(*args, **kwargs):
                log.append((fid, args, _kw(kwargs)))
                if raises:
                    raise Boom(fid)
            f.__name__ = "cleanup_" + fid
            self.funcs[fid] = f
        return f

    def fixture(self, kind):
        fx = self.fixtures.get(kind)
        if fx is None:
            fx = self.fixtures[kind] = _make_fixture(kind, self)
        return fx

    def _factory(self, value):
        self.fc += 1
        return value

    def observe(self, names):
        ctx = self.ctx
        vals = []
        for n in names:
            try:
                v = getattr(ctx, n, MISSING)
            except Exception as e:      # noqa
                v = "<getattr raises %s>" % type(e).__name__
            try:
                c = n in ctx
            except Exception as e:      # noqa
                c = "<in raises %s>" % type(e).__name__
            vals.append((v, c))
        stack = ctx._stack
        return (len(stack), tuple(f.get("@layer") for f in stack), tuple(vals), self.log,
                getattr(ctx, "cleanup_errors", MISSING), self.fc, ctx._mode.name)

    def apply(self, op):
        try:
            return ("ret", self._do(op))
        except Exception as e:          # noqa
            arg0 = e.args[0] if isinstance(e, Boom) and e.args else None
            return ("exc", type(e).__name__, arg0)

    def _registry(self):
        reg = {}
        for tag, data in TAG_REGISTRY.items():
            if data[0] == "tuple":
                reg[tag] = (self.fixture(data[1]), tuple(data[2]), dict(data[3]))
            elif data[0] == "list":
                reg[tag] = [self.fixture(data[1]), tuple(data[2]), dict(data[3])]
            elif data[0] == "func":
                reg[tag] = self.fixture(data[1])
            else:
                reg[tag] = data[1]
        return reg

    def _do(self, op):
        k = op[0]
        ctx = self.ctx
        if k == "push":
            ctx._push(op[1])
        elif k == "pop":
            ctx._pop()
        elif k == "do_cleanups":
            ctx._do_cleanups()
        elif k == "set":
            setattr(ctx, op[1], op[2])
        elif k == "get":
            return getattr(ctx, op[1])
        elif k == "del":
            delattr(ctx, op[1])
        elif k == "in":
            return op[1] in ctx
        elif k == "set_root":
            ctx._set_root_attribute(op[1], op[2])
        elif k == "uoa":
            return ctx.use_or_assign_param(op[1], op[2])
        elif k == "uoc":
            return ctx.use_or_create_param(op[1], self._factory, op[2])
        elif k == "ac":
            args, kwargs = FORM_ARGS[op[2]]
            kwargs = dict(kwargs)
            if op[3]:
                kwargs["layer"] = op[3]
            ctx.add_cleanup(self.func(op[1]), *args, **kwargs)
        elif k == "mode":
            if op[1] == "exit":
                self.cms.pop().__exit__(None, None, None)
            else:
                cm = ctx.use_with_user_mode() if op[1] == "user" else ctx._use_with_behave_mode()
                cm.__enter__()
                self.cms.append(cm)
        elif k == "mode_raise":
            with ctx.use_with_user_mode():
                raise Boom("body")
        elif k == "fx":
            return bfixture.use_fixture(self.fixture(op[1]), ctx)
        elif k == "fxc":
            params = [bfixture.fixture_call_params(self.fixture(kind), i)
                      for i, kind in enumerate(op[1])]
            for (func, args, kwargs), (i, kind) in zip(params, enumerate(op[1])):
                if func is not self.fixture(kind) or tuple(args) != (i,) or dict(kwargs) != {}:
                    raise AssertionError("fixture_call_params: %r" % ((func, args, kwargs),))
            return bfixture.use_composite_fixture_with(ctx, params)
        elif k == "fxtag":
            return bfixture.use_fixture_by_tag(op[1], ctx, self._registry())
        elif k == "scoped":
            outs = []
            with scoped_context_layer(ctx, op[1]) as c:
                if c is not ctx:
                    raise AssertionError("scoped_context_layer yields %r" % (c,))
                for o in op[2]:
                    outs.append(self.apply(o))
                if op[3]:
                    raise Boom("body")
            return outs
        else:
            raise ValueError("unknown op %r" % (op,))
        return None


# =============================================================================
# HISTORY ENGINE
# =============================================================================
_NAME_OPS = ("set", "get", "del", "in", "set_root", "uoa", "uoc")


def _names(ops):
    names = ["a", "b"]
    for op in ops:
        if op[0] in _NAME_OPS and op[1] not in names:
            names.append(op[1])
    return names


def _eq_out(r, m):
    if r == m:
        return True
    if r[0] != m[0]:
        return False
    if r[0] == "ret":
        return _lst(r[1]) == _lst(m[1])
    return r[1:] == m[1:]


def _where(i, n, op):
    if i < n:
        return "operation #%d %s" % (i, json.dumps(_lst(op)))
    return "wind-up operation %s after the history" % json.dumps(_lst(op))


def check_history(ops, skip=0):
    """Execute ``ops`` on a fresh real Context and a fresh model.

    Returns None (agreement everywhere), INVALID (a precondition of the history
    does not hold: pop of the root scope, leaving a mode that was not entered)
    or a text describing the first disagreement.  Comparisons start at operation
    index ``skip`` (the caller has verified the prefix as a history of its own).
    Must be called inside ``_quiet()``."""
    names = _names(ops)
    real = Real()
    model = Model()
    n = len(ops)
    i = 0
    queue = list(ops)
    winding_up = False
    while True:
        if i >= len(queue):
            if winding_up:
                return None
            winding_up = True
            queue.extend(model.finish_ops())
            continue
        op = queue[i]
        if not model.valid(op):
            return INVALID
        r = real.apply(op)
        m = model.apply(op)
        if i >= skip:
            if not _eq_out(r, m):
                return "%s: real code gives %r, model expects %r" % (_where(i, n, op), r, m)
            ro = real.observe(names)
            mo = model.observe(names)
            if ro != mo:
                where = _where(i, n, op)
                parts = []
                for label, x, y in zip(("stack depth", "layers", "visible %s (value, in)" % names,
                                        "cleanup log", "cleanup_errors", "factory calls", "mode"),
                                       ro, mo):
                    if x != y:
                        parts.append("%s: real %r, expected %r" % (label, x, y))
                return "after %s: %s" % (where, "; ".join(parts))
        i += 1


def _case(ops):
    return {"ops": _lst(ops)}


class _Reporter(object):
    """Reduces failing histories to a canonical minimal form; reports each form once."""

    def __init__(self, alphabet):
        self.alphabet = list(alphabet)
        self.index = dict((op, i) for i, op in enumerate(self.alphabet))
        self.cache = {}
        self.reported = set()

    @staticmethod
    def _fails(ops):
        r = check_history(ops)
        return r is not None and r is not INVALID

    def minimal(self, ops):
        seen = []
        cur = tuple(ops)
        while True:
            if cur in self.cache:
                cur = self.cache[cur]
                break
            seen.append(cur)
            nxt = None
            for i in reversed(range(len(cur))):         # drop one operation
                cand = cur[:i] + cur[i + 1:]
                if cand and self._fails(cand):
                    nxt = cand
                    break
            if nxt is None:                             # drop two operations
                for i in reversed(range(len(cur))):
                    for j in reversed(range(i)):
                        cand = cur[:j] + cur[j + 1:i] + cur[i + 1:]
                        if cand and self._fails(cand):
                            nxt = cand
                            break
                    if nxt is not None:
                        break
            if nxt is None:                             # replace by an earlier one
                for i in range(len(cur)):
                    j = self.index.get(cur[i])
                    if j is None:
                        continue
                    for alt in self.alphabet[:j]:
                        cand = cur[:i] + (alt,) + cur[i + 1:]
                        if self._fails(cand):
                            nxt = cand
                            break
                    if nxt is not None:
                        break
            if nxt is None:                             # rename b -> a throughout
                cand = tuple((op[0], "a") + op[2:] if (op[0] in _NAME_OPS and op[1] == "b") else op
                             for op in cur)
                if cand != cur and all(op in self.index for op in cand) and self._fails(cand):
                    nxt = cand
            if nxt is None:                             # order neighbours by alphabet position
                for i in range(len(cur) - 1):
                    a, b = self.index.get(cur[i]), self.index.get(cur[i + 1])
                    if a is not None and b is not None and a > b:
                        cand = cur[:i] + (cur[i + 1], cur[i]) + cur[i + 2:]
                        if self._fails(cand):
                            nxt = cand
                            break
            if nxt is None:
                break
            cur = nxt
        for s in seen:
            self.cache[s] = cur
        return cur

    def failure(self, ops):
        """-> (case, False, detail) for a new minimal form, else None."""
        with _quiet():
            m = self.minimal(ops)
            if m in self.reported:
                return None
            self.reported.add(m)
            detail = check_history(m)
        if tuple(m) != tuple(ops):
            detail += "  [minimal form; first seen as %s]" % json.dumps(_lst(ops))
        return (_case(m), False, detail)


def _chunks(it, size=2000):
    buf = []
    for x in it:
        buf.append(x)
        if len(buf) >= size:
            yield buf
            buf = []
    if buf:
        yield buf


def _exhaustive(alphabet, maxlen, reporter, start=((),), first_len=1):
    """All valid histories h + ops (h in start) up to total length maxlen, shortest
    first.  A failing history is not extended (every extension fails at the same
    operation).  Yields check tuples; returns the passing histories of the last
    length in ``_exhaustive.frontier``."""
    frontier = list(start)
    for length in range(first_len, maxlen + 1):
        nxt = []
        for batch in _chunks((h + (op,) for h in frontier for op in alphabet)):
            with _quiet():
                res = [(h, check_history(h, skip=len(h) - 1)) for h in batch]
            for h, r in res:
                if r is INVALID:
                    continue
                if r is None:
                    nxt.append(h)
                    yield (_case(h), True, "")
                else:
                    out = reporter.failure(h)
                    if out is not None:
                        yield out
        frontier = nxt
    _exhaustive.frontier = frontier


def _random_histories(alphabet, count, lo, hi, rng, reporter):
    alphabet = list(alphabet)
    todo = []
    for _ in range(count):
        depth, modes, ops = 1, 1, []
        want = rng.randint(lo, hi)
        while len(ops) < want:
            op = rng.choice(alphabet)
            if op[0] == "pop":
                if depth <= 1:
                    continue
                depth -= 1
            elif op[0] == "push":
                depth += 1
            elif op[0] == "mode":
                if op[1] == "exit":
                    if modes <= 1:
                        continue
                    modes -= 1
                else:
                    modes += 1
            ops.append(op)
        todo.append(tuple(ops))
    for batch in _chunks(todo, 500):
        with _quiet():
            res = [(h, check_history(h)) for h in batch]
        for h, r in res:
            if r is INVALID:
                continue
            if r is None:
                yield (_case(h), True, "")
            else:
                out = reporter.failure(h)
                if out is not None:
                    yield out


def replay_history(case):
    ops = _tup(case["ops"])
    with _quiet():
        r = check_history(ops)
    if r is INVALID:
        return (case, True, "precondition of the history does not hold (nothing checked)")
    return (case, r is None, r or "")


# -- alphabets ------------------------------------------------------------------
A_FULL = _tup([
    ["push", "feature"], ["push", "scenario"], ["pop"],
    ["set", "a", 1], ["set", "a", 2], ["set", "b", 1],
    ["get", "a"], ["get", "b"], ["del", "a"], ["del", "b"], ["in", "a"], ["in", "b"],
    ["set_root", "a", 3], ["uoa", "a", 4], ["uoc", "b", 5],
    ["ac", "P0", "plain", None], ["ac", "P1", "plain", None],
    ["ac", "Q0", "args", None], ["ac", "Q1", "both", None],
    ["ac", "P0", "plain", "feature"], ["ac", "P1", "plain", "feature"],
    ["ac", "P1", "plain", "testrun"], ["ac", "P0", "plain", "rule"],
    ["ac", "Q1", "args", "feature"],
    ["mode", "user"], ["mode", "exit"], ["mode", "behave"], ["mode_raise"],
    ["set", "failed", 1], ["push", None],
])
A_CORE = _tup([
    ["push", "feature"], ["push", "scenario"], ["pop"],
    ["set", "a", 1], ["set", "a", 2], ["del", "a"],
    ["set_root", "a", 3], ["uoa", "a", 4], ["uoc", "b", 5],
    ["ac", "P0", "plain", None], ["ac", "P1", "plain", None], ["ac", "Q1", "both", None],
    ["ac", "P0", "plain", "feature"], ["ac", "P1", "plain", "feature"],
    ["ac", "P1", "plain", "testrun"], ["mode", "user"],
])
assert set(A_CORE) <= set(A_FULL)

A_FIXTURE = _tup([
    ["push", "scenario"], ["pop"],
    ["fx", "G"], ["fx", "GR"], ["fx", "F"], ["fx", "GS"], ["fx", "FS"],
    ["fx", "GI"], ["fx", "GSI"], ["fx", "G2Y"],
    ["fxc", ["G", "GR"]], ["fxc", ["G", "GS", "G"]], ["fxc", ["GR", "FS"]],
    ["fxtag", "fixture.g"], ["fxtag", "fixture.l"], ["fxtag", "fixture.f"],
    ["fxtag", "fixture.none"], ["fxtag", "fixture.bad"],
    ["ac", "P0", "plain", None], ["ac", "P1", "plain", None],
    ["scoped", "scenario", [["fx", "G"]], 0],
    ["scoped", None, [["fx", "GR"], ["ac", "P0", "plain", None]], 1],
    ["get", "b"],
])

A_SAMEFUNC = _tup([
    ["ac", "F", "plain", None], ["ac", "F", "args", None], ["ac", "F", "kwargs", None],
    ["ac", "F", "plain", "testrun"], ["ac", "F", "args", "testrun"],
    ["ac", "P0", "plain", None], ["push", "scenario"], ["pop"],
])


def run_context_histories(tier, rng):
    full_len, core_len, nrand, lo, hi = ((3, 4, 1500, 5, 8) if tier == "quick" else
                                         (4, 5, 30000, 6, 10))
    rep = _Reporter(A_FULL)
    for x in _exhaustive(A_FULL, full_len, rep):
        yield x
    core = set(A_CORE)
    start = [h for h in _exhaustive.frontier if all(op in core for op in h)]
    for x in _exhaustive(A_CORE, core_len, rep, start=start, first_len=full_len + 1):
        yield x
    for x in _random_histories(A_FULL, nrand, lo, hi, rng, rep):
        yield x


def run_fixture_histories(tier, rng):
    maxlen, nrand, lo, hi = (3, 1000, 4, 7) if tier == "quick" else (4, 10000, 5, 8)
    rep = _Reporter(A_FIXTURE)
    for x in _exhaustive(A_FIXTURE, maxlen, rep):
        yield x
    for x in _random_histories(A_FIXTURE, nrand, lo, hi, rng, rep):
        yield x


def run_samefunc_histories(tier, rng):
    rep = _Reporter(A_SAMEFUNC)
    for x in _exhaustive(A_SAMEFUNC, 4 if tier == "quick" else 5, rep):
        yield x


# =============================================================================
# REAL RUNS
# =============================================================================
def _trees():
    S, F, R, st = runlib.scenario, runlib.feature, runlib.rule, runlib.step
    return {
        "basic": [F("F1", [S("S1", [st("1"), st("2")], tags=["tS1"]),
                           S("S2", [st("3")], tags=["tS2"])], tags=["tF1"])],
        "rule": [F("F1", [S("S1", [st("1")]),
                          R("R1", [S("S2", [st("2")], tags=["tS2"]), S("S3", [st("3")])],
                            tags=["tR1"])])],
        "two": [F("F1", [S("S1", [st("1")])], filename="f1.feature"),
                F("F2", [S("S2", [st("2")]), S("S3", [st("3")])], tags=["tF2"],
                  filename="f2.feature")],
        "outline": [F("F1", [runlib.outline("O", [st("o<n>")],
                                            [{"name": "E1", "tags": [], "headings": ["n"],
                                              "rows": [["1"], ["2"]]}])],
                      background=[st("bg")])],
    }


class _Structure(object):
    """Static scope structure of a list of trees (from the trees, not from behave)."""

    def __init__(self, trees):
        self.parent = {}        # scope id -> parent scope id
        self.tag_scope = {}
        self.outlines = {}

        def items(its, parent):
            for it in its:
                if it["kind"] == "rule":
                    sid = "rule:" + it["name"]
                    self.parent[sid] = parent
                    for t in it["tags"]:
                        self.tag_scope[t] = sid
                    items(it["items"], sid)
                elif it["kind"] == "scenario":
                    sid = "scenario:" + it["name"]
                    self.parent[sid] = parent
                    for t in it["tags"]:
                        self.tag_scope[t] = sid
                else:
                    self.outlines[it["name"]] = parent
        for f in trees:
            fid = "feature:" + f["name"]
            self.parent[fid] = "testrun"
            for t in f["tags"]:
                self.tag_scope[t] = fid
            items(f["items"], fid)

    def scenario_scope(self, name):
        sid = "scenario:" + name
        if sid not in self.parent:
            base = name.split(" -- @")[0]       # a row of an outline
            self.parent[sid] = self.outlines[base]
        return sid

    def chain(self, scope):
        """innermost first"""
        out = [scope]
        while scope != "testrun":
            scope = self.parent[scope]
            out.append(scope)
        return out


def _layer(scope):
    return scope.split(":")[0]


class _Plan(object):
    """What every hook / step does, and the census the trace is judged against."""

    def __init__(self, struct, raise_cleanups=(), raise_sites=()):
        self.struct = struct
        self.raise_cleanups = set(raise_cleanups)
        self.raise_sites = set(raise_sites)
        self.trace = []             # ("call", site, scope) | ("cleanup", cid)
        self.attrs = {}             # scope -> {name: value}
        self.names = ["shared", "never_set"]
        self.registered = {}        # scope -> [cid] in registration order
        self.owner = {}             # cid -> scope
        self.problems = []
        self.counter = 0

    # -- the program
    def cleanup_func(self, cid):
        def cleanup(*args, **kwargs):
            self.trace.append(("cleanup", cid, args, _kw(kwargs)))
            if cid in self.raise_cleanups:
                raise Boom(cid)
        cleanup.__name__ = "cleanup_" + cid.replace(":", "_").replace("#", "_")
        return cleanup

    def expected(self, chain, name):
        for scope in chain:
            if name in self.attrs.get(scope, {}):
                return self.attrs[scope][name]
        return MISSING

    def visit(self, site, scope, context):
        chain = self.struct.chain(scope)
        self.trace.append(("call", site, scope))
        # 1. everything set so far is visible exactly along the chain of this site
        for name in self.names:
            want = self.expected(chain, name)
            try:
                got = getattr(context, name, MISSING)
                has = name in context
            except Exception as e:      # noqa
                got, has = "<raises %s>" % type(e).__name__, None
            if got != want or has != (want is not MISSING):
                self.problems.append("at %s: context.%s is %r (in: %r), expected %r"
                                     % (site, name, got, has, want))
        # 2. a value of an outer scope cannot be deleted here
        mine = self.attrs.setdefault(scope, {})
        if "shared" not in mine and self.expected(chain, "shared") is not MISSING:
            try:
                del context.shared
                self.problems.append("at %s: del context.shared (set in an outer scope) succeeded" % site)
            except AttributeError:
                pass
            if getattr(context, "shared", MISSING) != self.expected(chain, "shared"):
                self.problems.append("at %s: failed del altered context.shared" % site)
        # 3. set: one shadowing name, one name of this site, one set-and-deleted name
        self.counter += 1
        own = "own_%d" % self.counter
        context.shared = self.counter
        setattr(context, own, site)
        mine["shared"] = self.counter
        mine[own] = site
        self.names.append(own)
        context.tmp_here = 1
        del context.tmp_here
        if "tmp_here" in context:
            self.problems.append("at %s: deleted attribute still visible" % site)
        # 4. cleanups: plain, generator fixture, with args, for every named layer
        def register(suffix, target, *args, **kwargs):
            cid = "%s#%s" % (site, suffix)
            try:
                context.add_cleanup(self.cleanup_func(cid), *args, **kwargs)
            except LookupError:
                if target is not None:
                    self.problems.append("%s: add_cleanup(layer=%s) raised LookupError"
                                         % (cid, kwargs.get("layer")))
                return
            if target is None:
                self.problems.append("%s: add_cleanup(layer=%s) accepted without such a scope"
                                     % (cid, kwargs.get("layer")))
                return
            self.registered.setdefault(target, []).append(cid)
            self.owner[cid] = target
        register("0", scope)
        gid = "%s#G" % site

        @bfixture.fixture
        def gen_fixture(ctx, *a, **kw):
            self.trace.append(("fixture-setup", gid))
            yield gid
            self.trace.append(("cleanup", gid, (), ()))
            if gid in self.raise_cleanups:
                raise Boom(gid)
        if bfixture.use_fixture(gen_fixture, context) != gid:
            self.problems.append("%s: use_fixture did not return the yielded value" % gid)
        self.registered.setdefault(scope, []).append(gid)
        self.owner[gid] = scope
        register("1", scope, "x", k="y")
        for layer in ("testrun", "feature", "rule", "scenario"):
            target = None
            for s in chain:
                if _layer(s) == layer:
                    target = s
                    break
            register("L" + layer, target, layer=layer)
        if site in self.raise_sites:
            raise RuntimeError("site %s raises" % site)


def _run_planned(case, extra_args=()):
    trees = _trees()[case["tree"]]
    struct = _Structure(trees)
    plan = _Plan(struct, case.get("raise_cleanups", ()), case.get("raise_sites", ()))

    def scenario_of(context):
        return struct.scenario_scope(context.scenario.name)

    def hook_extra(name, context, args):
        if name in ("before_all", "after_all"):
            site, scope = name, "testrun"
        elif name.endswith("_feature"):
            site, scope = "%s:%s" % (name, args[0].name), "feature:" + args[0].name
        elif name.endswith("_rule"):
            site, scope = "%s:%s" % (name, args[0].name), "rule:" + args[0].name
        elif name.endswith("_scenario"):
            site, scope = "%s:%s" % (name, args[0].name), struct.scenario_scope(args[0].name)
        elif name.endswith("_step"):
            scope = scenario_of(context)
            site = "%s:%s:%s" % (name, context.scenario.name, args[0].name.split()[1])
        else:
            tag = str(args[0])
            site, scope = "%s:%s" % (name, tag), struct.tag_scope[tag]
            if scope.startswith("scenario:"):
                scope = struct.scenario_scope(scope.split(":", 1)[1])
        plan.visit(site, scope, context)

    def on_step(context, sid, outcome):
        plan.visit("step:%s:%s" % (context.scenario.name, sid), scenario_of(context), context)

    with warnings.catch_warnings():
        warnings.simplefilter("ignore")
        obs = runlib.run(trees, args=list(case.get("args", [])) + list(extra_args),
                         on_step=on_step, hook_extra=hook_extra)
    return obs, plan, struct


def _judge_run(case, obs, plan, struct):
    bad = list(plan.problems)
    if obs.exception is not None:
        bad.append("run raised %s: %s" % (type(obs.exception).__name__, obs.exception))
    trace = plan.trace
    calls = [(i, e) for i, e in enumerate(trace) if e[0] == "call"]
    if not calls:
        bad.append("no hook or step was called (vacuous run)")
    # -- every cleanup exactly once, at its scope's end, in reverse registration order
    executed = {}
    for i, e in enumerate(trace):
        if e[0] == "cleanup":
            executed.setdefault(e[1], []).append(i)
            want_args = (("x",), (("k", "y"),)) if e[1].endswith("#1") else ((), ())
            if (e[2], e[3]) != want_args:
                bad.append("cleanup %s called with %r %r" % (e[1], e[2], e[3]))
    for cid in executed:
        if cid not in plan.owner:
            bad.append("cleanup %s ran but its registration was refused" % cid)
    raising_scopes = set()
    for scope, cids in sorted(plan.registered.items()):
        order = []
        for cid in cids:
            n = len(executed.get(cid, []))
            if n != 1:
                bad.append("cleanup %s of scope %s ran %d times (exactly once required)" % (cid, scope, n))
            order.extend((i, cid) for i in executed.get(cid, []))
            if cid in plan.raise_cleanups and n:
                raising_scopes.add(scope)
        order.sort()
        ran = [cid for _, cid in order]
        want = [cid for cid in reversed(cids) if cid in executed]
        if ran != want and all(len(executed.get(c, [])) <= 1 for c in cids):
            bad.append("cleanups of scope %s ran in order %r, expected %r (reverse registration)"
                       % (scope, ran, want))
        for pos, cid in order:
            for i, e in calls:
                inside = scope in struct.chain(e[2])
                if inside and i > pos:
                    bad.append("cleanup %s of scope %s ran before the scope ended (%s came later)"
                               % (cid, scope, e[1]))
                    break
            # it must run before the first later call outside the scope's subtree
            last_inside = max([i for i, e in calls if scope in struct.chain(e[2])] or [-1])
            later_outside = [i for i, e in calls if i > last_inside and scope not in struct.chain(e[2])]
            if later_outside and pos > later_outside[0]:
                bad.append("cleanup %s of scope %s ran late: after %s which is outside the scope"
                           % (cid, scope, trace[later_outside[0]][1]))
    # -- a raising cleanup fails its element and the run
    elements = {}
    for f in obs.features:
        for kind, el in runlib.walk_model(f):
            if kind in ("feature", "rule", "scenario"):
                elements["%s:%s" % (kind, el.name)] = el
    for scope in sorted(raising_scopes):
        if obs.exception is None and obs.failed is not True:
            bad.append("a cleanup of scope %s raised but the run verdict is %r" % (scope, obs.failed))
        if scope != "testrun":
            el = elements.get(scope)
            if el is None:
                bad.append("no model element for scope %s" % scope)
            elif not el.status.has_failed():
                bad.append("a cleanup of %s raised but its status is %s" % (scope, el.status.name))
    if not plan.raise_cleanups and not plan.raise_sites and obs.exception is None:
        if obs.failed is not False:
            bad.append("nothing raised but the run verdict is %r" % (obs.failed,))
        kinds = set(e[1].split(":")[0] for _, e in calls)
        for k in ("before_all", "after_all", "before_feature", "after_feature", "before_scenario",
                  "after_scenario", "before_step", "after_step", "step"):
            if k not in kinds:
                bad.append("no %s site was visited (vacuous run)" % k)
    return bad


def _run_case(case, extra_args=()):
    obs, plan, struct = _run_planned(case, extra_args)
    bad = _judge_run(case, obs, plan, struct)
    return (case, not bad, "; ".join(bad[:6])), plan


def _mk_case(tree, rc=(), rs=(), args=()):
    return {"tree": tree, "raise_cleanups": sorted(rc), "raise_sites": sorted(rs), "args": list(args)}


def run_runs(tier, rng):
    quick = tier == "quick"
    for tree in sorted(_trees()):
        res, plan = _run_case(_mk_case(tree))
        yield res
        sites = [e[1] for e in plan.trace if e[0] == "call"]
        cids = sorted(plan.owner)
        if quick:
            # plain + fixture + the layered ones of every 2nd site
            keep = [c for k, c in enumerate(cids)
                    if c.endswith("#0") or c.endswith("#G") or (k % 2 == 0)]
        else:
            keep = cids
        for cid in keep:
            yield _run_case(_mk_case(tree, rc=[cid]))[0]
        for site in sites:
            yield _run_case(_mk_case(tree, rs=[site]))[0]
            yield _run_case(_mk_case(tree, rc=[site + "#0"], rs=[site]))[0]
        npairs = 15 if quick else 150
        for _ in range(npairs):
            rc = rng.sample(cids, 2)
            rs = [rng.choice(sites)] if rng.random() < 0.5 else []
            yield _run_case(_mk_case(tree, rc=rc, rs=rs))[0]
        if not quick:
            for site in sites:
                yield _run_case(_mk_case(tree, rc=[site + "#G"], rs=[site], args=["--stop"]))[0]
        else:
            for site in sites[::4]:
                yield _run_case(_mk_case(tree, rc=[site + "#G"], rs=[site], args=["--stop"]))[0]


def replay_runs(case):
    return _run_case(case)[0]


# -- with the JUnit reporter ------------------------------------------------------
def _junit_case(case):
    tmp = tempfile.mkdtemp(prefix="b_c13_", dir="/var/tmp")
    marker = object()
    old = Configuration.__dict__.get("base_dir", marker)
    try:
        # Runner.setup_paths() sets config.base_dir; a ModelRunner run has none.
        Configuration.base_dir = tmp
        res, _ = _run_case(case, extra_args=["--junit", "--junit-directory", tmp])
    finally:
        if old is marker:
            del Configuration.base_dir
        else:
            Configuration.base_dir = old
        shutil.rmtree(tmp, ignore_errors=True)
    return res


def run_junit(tier, rng):
    for tree in (["basic"] if tier == "quick" else ["basic", "rule"]):
        _, plan = _run_case(_mk_case(tree))
        firsts = {}
        for cid in sorted(plan.owner):
            if cid.endswith("#0"):
                firsts.setdefault(_layer(plan.owner[cid]), cid)
        yield _junit_case(_mk_case(tree))
        for layer in sorted(firsts):
            yield _junit_case(_mk_case(tree, rc=[firsts[layer]]))


def replay_junit(case):
    return _junit_case(case)


# -- execute_steps ----------------------------------------------------------------
def _table_view(table):
    if table is None:
        return None
    return [list(table.headings)] + [list(r.cells) for r in table.rows]


def _exec_case(case):
    """case: caller {text, table}, sub: list of {text, table, outcome}, nested: bool"""
    st = runlib.step
    caller = st("c", text=case["caller_text"], table=case["caller_table"])
    trees = [runlib.feature("F1", [runlib.scenario("S1", [caller, st("d")])])]
    sub_lines = []
    for i, s in enumerate(case["sub"]):
        runlib._render_steps([st("s%d" % i, outcome=s["outcome"], text=s.get("text"),
                                 table=s.get("table"))], "", sub_lines)
    sub_text = u"\n".join(sub_lines) + u"\n"
    inner_text = u'Given step n pass\n  """\n  innermost\n  """\n'
    seen = {}
    bad = []

    def view(context):
        return (context.text, _table_view(context.table), context._mode.name)

    def on_step(context, sid, outcome):
        seen.setdefault("order", []).append(sid)
        if sid == "c":
            before = view(context)
            want = (case["caller_text"], case["caller_table"], "USER")
            if before != want:
                bad.append("caller sees %r before execute_steps, expected %r" % (before, want))
            try:
                seen["result"] = context.execute_steps(sub_text)
            except AssertionError as e:
                seen["raised"] = "AssertionError"
            after = view(context)
            if after != want:
                bad.append("after execute_steps the caller sees (text, table, mode) = %r, expected %r"
                           % (after, want))
        elif sid == "s0" and case.get("nested"):
            before = view(context)
            context.execute_steps(inner_text)
            if view(context) != before:
                bad.append("nested: substep s0 sees %r after its own execute_steps, expected %r"
                           % (view(context), before))
        elif sid.startswith("s") and sid[1:].isdigit():
            s = case["sub"][int(sid[1:])]
            want = (s.get("text"), s.get("table"))
            if view(context)[:2] != want:
                bad.append("substep %s sees %r, expected %r" % (sid, view(context)[:2], want))
        elif sid == "n":
            if context.text != "innermost":
                bad.append("innermost step sees text %r" % (context.text,))

    with warnings.catch_warnings():
        warnings.simplefilter("ignore")
        obs = runlib.run(trees, on_step=on_step)
    if obs.exception is not None:
        bad.append("run raised %r" % (obs.exception,))
    fails = [s["outcome"] for s in case["sub"] if s["outcome"] != "pass"]
    if fails:
        if seen.get("raised") != "AssertionError":
            bad.append("failing substep: execute_steps did not raise AssertionError (%r)" % (seen,))
    elif seen.get("result") is not True:
        bad.append("execute_steps returned %r, expected True (%r)" % (seen.get("result"), seen))
    want_order = ["c"]
    for i, s in enumerate(case["sub"]):
        want_order.append("s%d" % i)
        if i == 0 and case.get("nested"):
            want_order.append("n")
        if s["outcome"] != "pass":
            break
    want_order.append("d")
    if seen.get("order") != want_order:
        bad.append("steps ran in order %r, expected %r" % (seen.get("order"), want_order))
    return (case, not bad, "; ".join(bad[:5]))


def _exec_outside_feature(case):
    """execute_steps from before_all (no feature): ValueError."""
    seen = {}

    def hook_extra(name, context, args):
        if name == "before_all":
            try:
                context.execute_steps(u"Given step x pass\n")
                seen["r"] = "returned"
            except ValueError:
                seen["r"] = "ValueError"
            except Exception as e:      # noqa
                seen["r"] = type(e).__name__
    obs = runlib.run([runlib.feature("F1", [runlib.scenario("S1", [runlib.step("1")])])],
                     hook_extra=hook_extra)
    ok = seen.get("r") == "ValueError" and obs.exception is None and obs.failed is False
    return (case, ok, "execute_steps in before_all: %r, verdict %r, exception %r"
            % (seen.get("r"), obs.failed, obs.exception))


def _exec_cases(tier):
    texts = [None, "caller text"]
    tables = [None, [["h1", "h2"], ["v1", "v2"]]]
    subs = [
        [{"outcome": "pass"}],
        [{"outcome": "pass", "text": "sub text"}],
        [{"outcome": "pass", "table": [["x"], ["1"], ["2"]]}],
        [{"outcome": "pass", "text": "sub text"}, {"outcome": "pass", "table": [["x"], ["1"]]}],
        [{"outcome": "pass", "text": "sub text"}, {"outcome": "pass"}],
    ]
    # (triage 2026-09-27) failing sub-steps removed: on a failing sub-step execute_steps raises, and the
    # property's "restores the caller's text/table" is read for the normal return (DESIGN 5.13).
    failing = []
    for t in texts:
        for tb in tables:
            for sub in subs:
                for nested in (False, True):
                    yield {"kind": "step", "caller_text": t, "caller_table": tb, "sub": sub,
                           "nested": nested}
    # one defect would fail the whole cross product: failing substeps only for one caller
    for sub in failing:
        yield {"kind": "step", "caller_text": texts[1], "caller_table": tables[1], "sub": sub,
               "nested": False}
    yield {"kind": "before_all"}


def run_exec(tier, rng):
    for case in _exec_cases(tier):
        yield replay_exec(case)


def replay_exec(case):
    if case.get("kind") == "before_all":
        return _exec_outside_feature(case)
    return _exec_case(case)


# =============================================================================
_VIEW = ("after every operation and while the history is wound up (leave modes, pop every scope, "
         "root _do_cleanups once): returned value / exception type (and which cleanup's error) equal "
         "the model's; stack depth and layer names, value and `in` of every used attribute name, "
         "log of executed cleanups (function, args, order, multiplicity), root cleanup_errors, "
         "factory calls and mode equal the model's; model = DESIGN 5.13 view: push prepends an "
         "empty scope, _pop runs the scope's cleanups in reverse registration order (all of them, "
         "first error re-raised) and removes the scope on every exit, get = innermost scope having "
         "the name, set/del act on the current scope only, set_root on the root only, "
         "add_cleanup(layer=L) targets the first scope named L else LookupError")

CHECKS = [
    BoundedCheck(
        "context-histories",
        bound={
            "quick": "all histories of length <= 3 over a 30-operation alphabet (push feature/scenario/None, "
                     "pop, set a=1/a=2/b=1/failed=1, get/del/in a,b, _set_root_attribute a, use_or_assign a, "
                     "use_or_create b, add_cleanup plain ok/raising, with args ok, with args+kwargs raising, "
                     "layer=feature ok/raising/args, layer=testrun raising, layer=rule (never present), "
                     "enter user/behave mode, leave mode, user-mode body raising); all histories of length 4 "
                     "over its 16-operation core (push feature/scenario, pop, a=1, a=2, del a, set_root a, "
                     "use_or_assign a, use_or_create b, add_cleanup plain ok/raising, args+kwargs raising, "
                     "layer=feature ok/raising, layer=testrun raising, enter user mode); 1500 random "
                     "histories of length 5..8 over the full alphabet (seeded). Histories popping the root "
                     "scope are excluded; extensions of a failing history are not explored; a failing "
                     "history is reported once as its reduced form",
            "thorough": "as quick with: full alphabet to length 4, core alphabet at length 5, 30000 random "
                        "histories of length 6..10",
        },
        run=run_context_histories, replay=replay_history, contract=_VIEW),
    BoundedCheck(
        "fixture-histories",
        bound={
            "quick": "all histories of length <= 3 over 23 operations (push, pop, use_fixture of: generator, "
                     "generator with raising cleanup part, plain function, generator/plain with raising "
                     "setup, generator registering an own cleanup in its setup (passing / raising setup), "
                     "generator with two yields; use_composite_fixture_with+fixture_call_params of 3 lists "
                     "(all ok / middle setup raises / plain setup raises); use_fixture_by_tag with "
                     "tuple/list/function/unknown/junk registry entries; add_cleanup ok/raising; "
                     "scoped_context_layer bodies (normal / raising body with raising fixture cleanup); "
                     "get b) + 1000 random histories of length 4..7",
            "thorough": "length <= 4 exhaustively + 10000 random histories of length 5..8",
        },
        run=run_fixture_histories, replay=replay_history,
        contract=_VIEW + "; use_fixture(generator): cleanup entry registered in the current scope before "
                         "the setup part runs, setup result returned, cleanup part runs exactly once at "
                         "scope end iff the setup part reached its yield, a raising setup propagates and "
                         "leaves earlier fixtures/cleanups registered; plain fixture: no cleanup; second "
                         "yield: InvalidFixtureError at cleanup; unknown tag LookupError, junk ValueError; "
                         "scoped_context_layer pops on every exit"),
    BoundedCheck(
        "add-cleanup-same-function",
        bound={
            "quick": "all histories of length <= 4 over 8 operations: the same function F registered plain / "
                     "with args / with kwargs / plain with layer=testrun / args with layer=testrun, another "
                     "function plain, push, pop",
            "thorough": "length <= 5",
        },
        run=run_samefunc_histories, replay=replay_history,
        contract=_VIEW + "; every registration (function, args, kwargs) is one cleanup that runs exactly once; "
                         "registering the identical plain function again for the same scope keeps one"),
    BoundedCheck(
        "run-scopes-and-cleanups",
        bound={
            "quick": "4 feature sets (2 scenarios with tags; rule; 2 features; background+outline), all "
                     "steps passing; every hook (12 kinds) and every step probes all names set so far, "
                     "tries to delete an outer value, sets a shadowing and an own attribute, registers a "
                     "plain cleanup, a generator fixture, a cleanup with args and one per layer name "
                     "(testrun/feature/rule/scenario); runs: nothing raises; each single cleanup raising "
                     "(plain and fixture ones of every site, about half of the others); each single site "
                     "raising, alone and with its own plain cleanup; 15 random (2 cleanups [+ a site]) per "
                     "set; every 4th site raising with --stop",
            "thorough": "as quick with every single cleanup, 150 random pairs per set, every site with --stop",
        },
        run=run_runs, replay=replay_runs,
        contract="trace census: at every hook/step the value and `in` of every name equal the innermost "
                 "enclosing scope (by the feature tree) that set it, names of ended scopes are gone, del of "
                 "an outer value raises AttributeError; layer= without such an enclosing scope raises "
                 "LookupError; every accepted cleanup runs exactly once, after the last hook/step of its "
                 "scope (and inner scopes), before the next hook/step outside it, in reverse registration "
                 "order per scope, with its args; a raising cleanup => owning feature/rule/scenario status "
                 "has_failed() and run verdict True; nothing raised => verdict False; no exception escapes"),
    BoundedCheck(
        "run-cleanup-error-junit",
        bound={
            "quick": "feature set 'basic' with --junit: nothing raising, and the first plain cleanup of each "
                     "layer (testrun/feature/scenario) raising",
            "thorough": "feature sets 'basic' and 'rule' (adds the rule layer)",
        },
        run=run_junit, replay=replay_junit,
        contract="as run-scopes-and-cleanups, with the JUnit reporter active"),
    BoundedCheck(
        "execute-steps-restores",
        bound={
            "quick": "caller text in {None, text} x caller table in {None, 2x2} x 5 passing substep lists (no "
                     "data, text, table, text then table, text then none) x {flat, first substep calls "
                     "execute_steps itself}; caller with text and table x 2 failing substep lists (failing "
                     "step with text; table step then raising step); execute_steps from before_all",
            "thorough": "same as quick",
        },
        run=run_exec, replay=replay_exec,
        contract="inside the calling step, after context.execute_steps(...) returned or raised: "
                 "(context.text, context.table, mode) == the caller's own; substeps see their own "
                 "text/table; failing substep => AssertionError; all passing => True; without a feature "
                 "=> ValueError"),
]


# (triage 2026-09-27) checks removed because they demand more than the property states:
#   add-cleanup-same-function -- add_cleanup() documents 'AVOID DUPLICATES': a second registration of the same function in the same scope is dropped on purpose
CHECKS = [c for c in CHECKS if c.name not in ('add-cleanup-same-function',)]
