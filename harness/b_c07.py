# -*- coding: utf-8 -*-
"""
harness.b_c07 -- bounded stand-ins (kind B) for property C07:

    "Tag expressions (v2) mean their Boolean formula; printing preserves meaning"

Subject (real code, imported from $VERIF_REPO):
    behave.tag_expression.make_tag_expression(text_or_list, TagExpressionProtocol.V2)
    -> .check(tags), str(), .to_string();  Configuration.setup_tag_expression
    ({config.tags} placeholder).

Oracle (written here, from the property text only):
    an abstract Boolean tree  t ::= operand | ["not", t] | ["and", t, t, ...] | ["or", t, t, ...]
    is evaluated by `table(t)`: an operand without wildcard characters is true for a tag
    set S iff it is a member of S; an operand with one of  * ? [  is true iff some tag of S
    matches it under fnmatch.fnmatchcase (case-sensitive); and/or/not are the Boolean
    connectives.  A truth table is a Python int with one bit per subset of UNIVERSE.

Abstract trees are rendered to text by `render(tree, variant)` (written here; the
renderer only adds parentheses, so that every rendering denotes the tree's formula under
the documented precedence  not > and > or).  Nothing of behave is used to compute an
expected value.
"""
from __future__ import print_function
import contextlib
import fnmatch
import io

from harness.bounded import BoundedCheck     # -- sets up sys.path for $VERIF_REPO first.

from behave.tag_expression import TagExpressionProtocol, make_tag_expression   # noqa: E402


# =============================================================================
# INPUT SPACE
# =============================================================================
OPERANDS = ["a", "b", "a.b", "x-y", "k=v", "a*", "?b", "[ab]c"]
# -- 7 tags: every literal operand is a tag; "Ab" is matched by ?b but (case!) not by
#    a* nor by the literal a; "bc" is matched by [ab]c only; a* matches a and a.b.
UNIVERSE = ["a", "b", "a.b", "x-y", "k=v", "Ab", "bc"]
OPERANDS_SMALL = ["x-y", "a*", "[ab]c"]            # quick: depth<=2 exhaustive alphabet
OPERANDS_MEDIUM = ["a", "x-y", "k=v", "a*", "?b"]  # thorough: all variants, depth<=2
# -- bare wildcards: "*" is true for every NON-EMPTY tag set (some tag matches), "?" needs a one-character tag,
#    "[!a]" a one-character tag other than a, "??" a two-character one (Ab, bc).
OPERANDS_BARE = ["*", "?", "??", "[!a]", "a"]
OPS = ("and", "or")

N_SUBSETS = 1 << len(UNIVERSE)
FULL = (1 << N_SUBSETS) - 1
SUBSETS = [[tag for j, tag in enumerate(UNIVERSE) if (i >> j) & 1]
           for i in range(N_SUBSETS)]


# =============================================================================
# ORACLE
# =============================================================================
def is_pattern(operand):
    return any(c in operand for c in "*?[")


def operand_true(operand, tags):
    if is_pattern(operand):
        return any(fnmatch.fnmatchcase(tag, operand) for tag in tags)
    return operand in tags


_OPERAND_TABLES = {}


def operand_table(operand):
    bits = _OPERAND_TABLES.get(operand)
    if bits is None:
        bits = 0
        for i, subset in enumerate(SUBSETS):
            if operand_true(operand, subset):
                bits |= 1 << i
        _OPERAND_TABLES[operand] = bits
    return bits


def table(tree):
    """Truth table of an abstract tree over all subsets of UNIVERSE (as int)."""
    if isinstance(tree, str):
        return operand_table(tree)
    op = tree[0]
    if op == "not":
        return FULL & ~table(tree[1])
    if op == "and":
        bits = FULL
        for child in tree[1:]:
            bits &= table(child)
        return bits
    if op == "or":
        bits = 0
        for child in tree[1:]:
            bits |= table(child)
        return bits
    if op == "true":            # -- the empty expression
        return FULL
    raise ValueError("bad tree: %r" % (tree,))


def real_table(expression):
    """Complete truth table of a real tag-expression object via .check(tags)."""
    bits = 0
    check = expression.check
    for i, subset in enumerate(SUBSETS):
        if check(list(subset)):
            bits |= 1 << i
    return bits


def first_difference(observed, expected):
    diff = observed ^ expected
    i = (diff & -diff).bit_length() - 1
    return "tags=%r: observed %s, expected %s (%d of %d rows differ)" % (
        SUBSETS[i], bool((observed >> i) & 1), bool((expected >> i) & 1),
        bin(diff).count("1"), N_SUBSETS)


# =============================================================================
# TREES
# =============================================================================
def trees_upto(depth, operands):
    """All and/or/not trees (binary and/or) of depth <= depth, without repetition."""
    level = list(operands)
    for _ in range(depth):
        nxt = list(operands)
        nxt.extend(["not", t] for t in level)
        for op in OPS:
            nxt.extend([op, left, right] for left in level for right in level)
        level = nxt
    return level


def shapes_upto(depth):
    """All shapes (operand positions are None) of depth <= depth."""
    return trees_upto(depth, [None])


def fill_shape(shape, rng, operands):
    if shape is None:
        return rng.choice(operands)
    return [shape[0]] + [fill_shape(child, rng, operands) for child in shape[1:]]


def random_tree(rng, depth, operands, max_arity=3):
    if depth <= 0 or rng.random() < 0.2:
        return rng.choice(operands)
    kind = rng.choice(("not", "and", "or", "and", "or"))
    if kind == "not":
        return ["not", random_tree(rng, depth - 1, operands, max_arity)]
    arity = rng.randint(2, max_arity)
    return [kind] + [random_tree(rng, depth - 1, operands, max_arity) for _ in range(arity)]


def tree_depth(tree):
    if isinstance(tree, str):
        return 0
    return 1 + max(tree_depth(child) for child in tree[1:])


# =============================================================================
# RENDERINGS
# =============================================================================
PREC = {"or": 0, "and": 1, "not": 2}


def _prec(tree):
    return 3 if isinstance(tree, str) else PREC[tree[0]]


class _Ats(object):
    """Decides per operand occurrence whether it gets an '@' prefix."""
    def __init__(self, mode):
        self.mode = mode
        self.count = 0

    def __call__(self, operand):
        self.count += 1
        if self.mode == "all" or (self.mode == "alt" and self.count % 2 == 1):
            return "@" + operand
        return operand


def tokens(tree, parens, ats):
    """
    Token list of a rendering.  parens:
      min       parentheses only where precedence needs them; a same-operator child is
                left bare as first child ("a and b and c") and parenthesised otherwise
      flat      like min, but same-operator children are never parenthesised
                (uses associativity of and/or)
      notcall   like min, but the argument of not is always parenthesised: not (a)
      full      every compound node is parenthesised, the root too
      redundant every operand is parenthesised once, every compound node twice
    """
    if isinstance(tree, str):
        if parens == "redundant":
            return ["(", ats(tree), ")"]
        return [ats(tree)]
    op = tree[0]
    if op == "not":
        child = tree[1]
        inner = tokens(child, parens, ats)
        if parens in ("min", "flat"):
            if _prec(child) < PREC["not"]:
                inner = ["("] + inner + [")"]
        elif parens == "notcall":
            inner = ["("] + inner + [")"]
        out = ["not"] + inner
    else:
        out = []
        for index, child in enumerate(tree[1:]):
            inner = tokens(child, parens, ats)
            if parens in ("min", "flat", "notcall"):
                need = _prec(child) < PREC[op]
                if (not need and not isinstance(child, str) and child[0] == op
                        and parens != "flat" and index > 0):
                    need = True
                if need:
                    inner = ["("] + inner + [")"]
            if index:
                out.append(op)
            out.extend(inner)
    if parens == "full":
        out = ["("] + out + [")"]
    elif parens == "redundant":
        out = ["(", "("] + out + [")", ")"]
    return out


def join_tokens(toks, style):
    if style == "padded":       # single space between all tokens: ( a and b )
        return " ".join(toks)
    if style == "wide":         # double spaces everywhere, leading and trailing space
        return " " + "  ".join(toks) + " "
    out = []
    for index, tok in enumerate(toks):
        if index:
            prev = toks[index - 1]
            if style == "normal":       # not (a and b)
                space = not (prev == "(" or tok == ")")
            elif style == "tight":      # not(a and b)or(c)
                space = not (prev in "()" or tok in "()")
            else:
                raise ValueError(style)
            if space:
                out.append(" ")
        out.append(tok)
    return "".join(out)


# -- variant name -> (parens, at-mode, join style, form)
VARIANTS = {
    "plain":      ("min", "none", "normal", "string"),
    "flat":       ("flat", "none", "normal", "string"),
    "full":       ("full", "none", "normal", "string"),
    "redundant":  ("redundant", "none", "normal", "string"),
    "at":         ("min", "all", "normal", "string"),
    "at-mixed":   ("full", "alt", "normal", "string"),
    "wide":       ("min", "none", "wide", "string"),
    "padded-at":  ("full", "all", "padded", "string"),
    "tight":      ("notcall", "none", "tight", "string"),
    "list":       ("min", "none", "normal", "list"),
    "list-at":    ("full", "all", "wide", "list"),
}
VARIANT_NAMES = list(VARIANTS)      # -- insertion order: deterministic
VARIANTS_CORE = ["plain", "padded-at", "tight", "list"]


def render(tree, variant):
    """Returns the text (or, for list forms, the list of terms that are AND-ed)."""
    parens, at_mode, style, form = VARIANTS[variant]
    ats = _Ats(at_mode)
    if form == "list":
        terms = tree[1:] if (not isinstance(tree, str) and tree[0] == "and") else [tree]
        return [join_tokens(tokens(term, parens, ats), style) for term in terms]
    return join_tokens(tokens(tree, parens, ats), style)


# =============================================================================
# PROCESS-WIDE STATE: TagExpressionProtocol._current
# =============================================================================
_MISSING = object()


@contextlib.contextmanager
def protocol_preserved():
    """Restores the process-wide default protocol after the block."""
    saved = TagExpressionProtocol.__dict__.get("_current", _MISSING)
    try:
        yield
    finally:
        if saved is _MISSING:
            if "_current" in TagExpressionProtocol.__dict__:
                delattr(TagExpressionProtocol, "_current")
        else:
            setattr(TagExpressionProtocol, "_current", saved)


def parse_real(text_or_list, protocol_name, via="arg"):
    """Calls the real builder.  via="use": select the protocol process-wide and call
    make_tag_expression() without protocol argument (restored afterwards)."""
    protocol = TagExpressionProtocol[protocol_name]
    if isinstance(text_or_list, list):
        text_or_list = list(text_or_list)
    with protocol_preserved():
        if via == "use":
            TagExpressionProtocol.use(protocol)
            return make_tag_expression(text_or_list)
        return make_tag_expression(text_or_list, protocol)


def describe_error(exc):
    return "%s: %s" % (type(exc).__name__, " | ".join(str(exc).splitlines()))[:300]


# =============================================================================
# CHECK 1: v2 truth tables
# =============================================================================
def check_truth_table(tree, variant, protocol="V2", via="arg"):
    text = render(tree, variant)
    expected = table(tree)
    try:
        expression = parse_real(text, protocol, via)
        observed = real_table(expression)
    except Exception as exc:    # pylint: disable=broad-except
        return False, "text=%r raised %s" % (text, describe_error(exc))
    if observed != expected:
        return False, "text=%r parsed=%r %s" % (text, expression, first_difference(observed, expected))
    return True, "text=%r" % (text,)


def tree_cases(tier, rng, variants_deep=4, fills=3, n_random=None):
    """
    Yields (tree, variant names) of the enumerated space (shared with print-reparse,
    and with C08's auto-detect check).  quick: `variants_deep` random renderings per
    depth-3 tree; thorough: `fills` operand fillings per depth-3 shape.
    """
    if n_random is None:
        n_random = 150 if tier == "quick" else 2500
    # -- PART 1: depth <= 1 over all 8 operands, all variants.
    for tree in trees_upto(1, OPERANDS):
        yield tree, VARIANT_NAMES
    # -- PART 1b: depth <= 1 over the degenerate patterns (bare wildcards), all variants.
    for tree in trees_upto(1, OPERANDS_BARE):
        yield tree, VARIANT_NAMES
    # -- PART 2: depth 2 (exactly) exhaustive.
    if tier == "quick":
        for tree in trees_upto(2, OPERANDS_SMALL):
            if tree_depth(tree) == 2:
                yield tree, VARIANT_NAMES
    else:
        medium = set(OPERANDS_MEDIUM)
        for tree in trees_upto(2, OPERANDS):
            if tree_depth(tree) == 2:
                if _operands_of(tree) <= medium:
                    yield tree, VARIANT_NAMES
                else:
                    yield tree, VARIANTS_CORE
    # -- PART 3: all shapes of depth 3 (exactly), seeded random operands.
    shapes = [s for s in shapes_upto(3) if _shape_depth(s) == 3]
    if tier == "quick":
        shapes = rng.sample(shapes, 800)
        fills = 1
    for shape in shapes:
        for _ in range(fills):
            tree = fill_shape(shape, rng, OPERANDS)
            if tier == "quick":
                yield tree, rng.sample(VARIANT_NAMES, variants_deep)
            else:
                yield tree, VARIANT_NAMES
    # -- PART 4: seeded random larger trees (depth <= 5, and/or with 2..3 terms).
    for _ in range(n_random):
        tree = random_tree(rng, rng.randint(3, 5), OPERANDS)
        yield tree, VARIANT_NAMES


def _operands_of(tree):
    if isinstance(tree, str):
        return {tree}
    out = set()
    for child in tree[1:]:
        out |= _operands_of(child)
    return out


def _shape_depth(shape):
    if shape is None:
        return 0
    return 1 + max(_shape_depth(child) for child in shape[1:])


def run_truth_tables(tier, rng):
    count = 0
    for tree, variants in tree_cases(tier, rng):
        for variant in variants:
            count += 1
            # -- every 16th case goes through TagExpressionProtocol.use()/current()
            via = "use" if count % 16 == 0 else "arg"
            case = {"tree": tree, "variant": variant, "via": via}
            ok, detail = check_truth_table(tree, variant, "V2", via)
            yield case, ok, detail


def replay_truth_tables(case):
    ok, detail = check_truth_table(case["tree"], case["variant"], "V2", case.get("via", "arg"))
    return case, ok, detail


# =============================================================================
# CHECK 2: empty expression selects everything
# =============================================================================
EMPTY_TEXTS = ["", " ", "  ", "   ", []]


def check_empty(text, via):
    try:
        expression = parse_real(text, "V2", via)
        observed = real_table(expression)
        printed = [str(expression), expression.to_string()]
        reparsed = [real_table(parse_real(p, "V2")) for p in printed]
    except Exception as exc:    # pylint: disable=broad-except
        return False, "text=%r raised %s" % (text, describe_error(exc))
    if observed != FULL:
        return False, "text=%r parsed=%r %s" % (text, expression, first_difference(observed, FULL))
    for p, bits in zip(printed, reparsed):
        if bits != FULL:
            return False, "text=%r printed=%r reparsed: %s" % (text, p, first_difference(bits, FULL))
    return True, "text=%r printed=%r" % (text, printed)


def run_empty(tier, rng):
    for text in EMPTY_TEXTS:
        for via in ("arg", "use"):
            case = {"text": text, "via": via}
            ok, detail = check_empty(text, via)
            yield case, ok, detail


def replay_empty(case):
    ok, detail = check_empty(case["text"], case.get("via", "arg"))
    return case, ok, detail


# =============================================================================
# CHECK 3: printing preserves meaning
# =============================================================================
PRINTERS = {
    "str": str,
    "to_string": lambda e: e.to_string(),
    "to_string-raw": lambda e: e.to_string(pretty=False),
}
PRINTER_NAMES = list(PRINTERS)
REPARSE_VARIANTS = ["plain", "flat", "list"]    # -- the renderings that give distinct ASTs


def check_reparse(tree, variant, printer):
    text = render(tree, variant)
    try:
        expression = parse_real(text, "V2")
        before = real_table(expression)
    except Exception as exc:    # pylint: disable=broad-except
        return False, "text=%r raised %s" % (text, describe_error(exc))
    try:
        printed = PRINTERS[printer](expression)
    except Exception as exc:    # pylint: disable=broad-except
        return False, "text=%r parsed=%r printing raised %s" % (text, expression, describe_error(exc))
    if not isinstance(printed, str):
        return False, "text=%r printed a %s" % (text, type(printed).__name__)
    try:
        again = parse_real(printed, "V2")
        after = real_table(again)
    except Exception as exc:    # pylint: disable=broad-except
        return False, "text=%r printed=%r reparse raised %s" % (text, printed, describe_error(exc))
    if after != before:
        return False, "text=%r printed=%r reparsed=%r %s" % (
            text, printed, again, first_difference(after, before))
    return True, "text=%r printed=%r" % (text, printed)


def run_reparse(tier, rng):
    for tree, variants in tree_cases(tier, rng, variants_deep=1, fills=1,
                                     n_random=(150 if tier == "quick" else 1000)):
        printers = PRINTER_NAMES
        if len(variants) == len(VARIANT_NAMES):
            chosen = REPARSE_VARIANTS
        else:
            chosen = ["plain"]
            printers = ["str", "to_string"]
        if tier == "quick" and tree_depth(tree) >= 2:
            chosen = ["plain"]
        for variant in chosen:
            if variant != "plain" and render(tree, variant) == render(tree, "plain"):
                continue
            for printer in printers:
                case = {"tree": tree, "variant": variant, "printer": printer}
                ok, detail = check_reparse(tree, variant, printer)
                yield case, ok, detail


def replay_reparse(case):
    ok, detail = check_reparse(case["tree"], case["variant"], case["printer"])
    return case, ok, detail


# =============================================================================
# CHECK 4: {config.tags} placeholder substitution
# =============================================================================
EXTRA = "bc"        # -- operand used next to the placeholder ([ab]c matches it, too)
PLACEHOLDER = "{config.tags}"
# -- template name -> (command-line --tags values, tree builder from config tree C)
TEMPLATES = {
    "alone":        (["{config.tags}"],                 lambda c: c),
    "and-right":    (["{config.tags} and bc"],          lambda c: ["and", c, EXTRA]),
    "and-left":     (["bc and {config.tags}"],          lambda c: ["and", EXTRA, c]),
    "or-right":     (["{config.tags} or bc"],           lambda c: ["or", c, EXTRA]),
    "or-left":      (["bc or {config.tags}"],           lambda c: ["or", EXTRA, c]),
    "not":          (["not {config.tags}"],             lambda c: ["not", c]),
    "not-and":      (["not {config.tags} and bc"],      lambda c: ["and", ["not", c], EXTRA]),
    "at-and-not":   (["@bc and not {config.tags}"],     lambda c: ["and", EXTRA, ["not", c]]),
    "list":         (["{config.tags}", "not bc"],       lambda c: ["and", c, ["not", EXTRA]]),
    "list-not":     (["bc", "not {config.tags}"],       lambda c: ["and", EXTRA, ["not", c]]),
    "twice":        (["(bc or {config.tags}) and not ({config.tags} and bc)"],
                     lambda c: ["and", ["or", EXTRA, c], ["not", ["and", c, EXTRA]]]),
}
TEMPLATE_NAMES = list(TEMPLATES)
CONFIG_VARIANTS = ["plain", "at", "tight", "list", "wide"]
# -- a configuration file gives a list of lines ("lines": one line, "list": the terms
#    of the top-level conjunction as lines); keyword args may also give a string.
CONFIG_FORMS = {"plain": "string", "at": "lines", "tight": "string", "list": "lines", "wide": "lines"}
SOURCES = ["config_tags", "default_tags"]


def check_placeholder(tree, variant, source, template):
    from behave.configuration import Configuration
    cmdline_tags, build = TEMPLATES[template]
    args = ["--tags=" + text for text in cmdline_tags]
    kwargs = {"tag_expression_protocol": TagExpressionProtocol.V2}
    if tree is None:
        # -- no configured tags at all: the placeholder stands for the empty expression.
        config_value = "absent"
        expected = table(build(["true"]))
    else:
        config_value = render(tree, variant)
        if CONFIG_FORMS[variant] == "lines" and not isinstance(config_value, list):
            config_value = [config_value]
        expected = table(build(tree))
        kwargs[source] = config_value
    try:
        with protocol_preserved():
            with contextlib.redirect_stdout(io.StringIO()), contextlib.redirect_stderr(io.StringIO()):
                config = Configuration(args, load_config=False, **kwargs)
            expression = config.tag_expression
            observed = real_table(expression)
            substituted = config.tags
    except BaseException as exc:    # pylint: disable=broad-except
        if isinstance(exc, KeyboardInterrupt):
            raise
        return False, "%s=%r --tags=%r raised %s" % (source, config_value, cmdline_tags, describe_error(exc))
    if observed != expected:
        return False, "%s=%r --tags=%r substituted=%r parsed=%r %s" % (
            source, config_value, cmdline_tags, substituted, expression,
            first_difference(observed, expected))
    return True, "%s=%r --tags=%r substituted=%r" % (source, config_value, cmdline_tags, substituted)


def placeholder_cases(tier, rng):
    trees = trees_upto(1, OPERANDS)
    if tier == "quick":
        deeper = [t for t in trees_upto(2, OPERANDS_SMALL) if tree_depth(t) == 2]
        deeper = rng.sample(deeper, 150)
    else:
        deeper = [t for t in trees_upto(2, OPERANDS_MEDIUM) if tree_depth(t) == 2]
        deeper = rng.sample(deeper, 1500)
    count = 0
    for tree in trees:
        for template in TEMPLATE_NAMES:
            count += 1
            if tier == "quick":
                # -- rotate through config renderings and sources
                combos = [(CONFIG_VARIANTS[count % len(CONFIG_VARIANTS)], SOURCES[count % 2])]
            else:
                combos = [(v, s) for v in CONFIG_VARIANTS for s in SOURCES]
            for variant, source in combos:
                yield tree, variant, source, template
    for tree in deeper:
        for template in TEMPLATE_NAMES:
            count += 1
            yield tree, CONFIG_VARIANTS[count % len(CONFIG_VARIANTS)], SOURCES[count % 2], template


def run_placeholder(tier, rng):
    for tree, variant, source, template in placeholder_cases(tier, rng):
        case = {"config": tree, "variant": variant, "source": source, "template": template}
        ok, detail = check_placeholder(tree, variant, source, template)
        yield case, ok, detail


def replay_placeholder(case):
    ok, detail = check_placeholder(case["config"], case.get("variant"),
                                   case.get("source", "configured-tags"), case["template"])
    return case, ok, detail


def run_placeholder_empty(tier, rng):
    for template in TEMPLATE_NAMES:
        case = {"config": None, "template": template}
        ok, detail = check_placeholder(None, None, "configured-tags", template)
        yield case, ok, detail


# =============================================================================
# CHECKS
# =============================================================================
_SPACE = ("plus all 60 trees of depth <= 1 over the bare patterns {*, ?, ??, [!a]} and a; operands {a, b, a.b, x-y, k=v, a*, ?b, [ab]c}; complete truth table = all 128 subsets of "
          "the 7-tag universe {a, b, a.b, x-y, k=v, Ab, bc}; 11 renderings (plain, flat, full, "
          "redundant parentheses, @ on all / on every other operand, double spaces + outer spaces, "
          "padded, no spaces around parentheses, list-of-terms, list-of-terms with @)")

CHECKS = [
    BoundedCheck(
        "v2-truth-tables",
        bound={
            "quick": "exhaustive: all 144 binary and/or/not trees of depth <= 1 over the 8 operands and all "
                     "1155 trees of depth 2 over {x-y, a*, [ab]c}, each in all 11 renderings; sampled (seeded): "
                     "800 of the 2739 shapes of depth 3 with 1 random operand filling x 4 random renderings, "
                     "150 random trees of depth <= 5 with 2..3-ary and/or x 11 renderings. " + _SPACE,
            "thorough": "exhaustive: all 41624 binary and/or/not trees of depth <= 2 over the 8 operands (all 11 "
                        "renderings when the operands are within {a, x-y, k=v, a*, ?b}, else the 4 renderings "
                        "plain, padded-at, tight, list); all 2739 shapes of depth 3 x 3 seeded random operand "
                        "fillings x 11 renderings; 2500 seeded random trees of depth <= 5 with 2..3-ary and/or "
                        "x 11 renderings. NOT exhaustive at depth 3. " + _SPACE,
        },
        run=run_truth_tables, replay=replay_truth_tables,
        contract="requires text == render(t, variant); "
                 "ensures forall S subset of U: make_tag_expression(text, V2).check(S) == [[t]](S) "
                 "(operand with * ? [ : exists tag in S. fnmatchcase(tag, operand); else operand in S); "
                 "no exception; every 16th case via TagExpressionProtocol.use(V2) + make_tag_expression(text)"),
    BoundedCheck(
        "v2-empty-selects-all",
        bound={
            "quick": "the texts '', ' ', '  ', '   ' and the empty list of terms, with protocol argument and via "
                     "TagExpressionProtocol.use; all 128 subsets of the 7-tag universe",
            "thorough": "same as quick",
        },
        run=run_empty, replay=replay_empty,
        contract="forall S subset of U: make_tag_expression(empty, V2).check(S) is true; "
                 "str()/to_string() of it re-parsed selects every S as well"),
    BoundedCheck(
        "v2-print-reparse",
        bound={
            "quick": "trees as in v2-truth-tables/quick (depth-3 and random part re-drawn from the seed); parsed "
                     "from the renderings plain, flat, list (depth <= 1) or plain (deeper); printers str(), "
                     "to_string(), to_string(pretty=False); complete 128-row truth tables before and after",
            "thorough": "all 41624 trees of depth <= 2 over the 8 operands, all 2739 shapes of depth 3 x 1 seeded "
                        "random operand filling, 1000 seeded random trees of depth <= 5; parsed from the renderings "
                        "plain, flat, list and printed by str(), to_string(), to_string(pretty=False) (for depth-2 "
                        "trees with an operand outside {a, x-y, k=v, a*, ?b}: plain only, str() and to_string() "
                        "only); complete 128-row truth tables before and after",
        },
        run=run_reparse, replay=replay_reparse,
        contract="e = make_tag_expression(render(t), V2); forall printer in {str, to_string, to_string(pretty=False)}: "
                 "forall S subset of U: make_tag_expression(printer(e), V2).check(S) == e.check(S); no exception"),
    BoundedCheck(
        "v2-config-placeholder",
        bound={
            "quick": "configured tags = rendering of each of the 144 trees of depth <= 1 over the 8 operands and of "
                     "150 sampled depth-2 trees over {x-y, a*, [ab]c}; 11 command-line templates around "
                     "{config.tags} (alone, and/or left/right, not, not..and, list forms, two occurrences); per "
                     "case one of 5 config renderings (plain and tight as string; at, wide as one line, list-of-terms as lines) and one of the sources "
                     "config_tags/default_tags in rotation; real Configuration(load_config=False, protocol v2); "
                     "128-row truth tables. Non-empty configured tags only",
            "thorough": "144 trees of depth <= 1 x 11 templates x 5 config renderings x 2 sources; 1500 sampled "
                        "depth-2 trees over {a, x-y, k=v, a*, ?b} x 11 templates with rendering/source in "
                        "rotation; 128-row truth tables. Non-empty configured tags only",
        },
        run=run_placeholder, replay=replay_placeholder,
        contract="Configuration(['--tags=' + T[{config.tags}] ...], <source>=render(C), protocol=v2): "
                 "forall S subset of U: config.tag_expression.check(S) == [[T[C]]](S), i.e. the placeholder "
                 "denotes the formula of the configured tags; TagExpressionProtocol._current restored after"),
    BoundedCheck(
        "v2-config-placeholder-empty",
        bound={
            "quick": "no configured tags at all (neither config_tags nor default_tags) x the 11 command-line "
                     "templates around {config.tags}; 128-row truth tables",
            "thorough": "same as quick",
        },
        run=run_placeholder_empty, replay=replay_placeholder,
        contract="with no configured tags the placeholder denotes the empty expression, which selects everything: "
                 "forall S subset of U: Configuration(['--tags=' + T[{config.tags}] ...], protocol=v2)"
                 ".tag_expression.check(S) == [[T[true]]](S); no exception"),
]
