# -*- coding: utf-8 -*-
"""
harness.b_c16 -- bounded stand-ins (kind B, and the finite part F over all code points) for
property C16:

    "JUnit reports are well-formed XML with counters that match their test cases"

Subject (real code, imported from $VERIF_REPO):
    behave.reporter.junit.JUnitReporter in real ModelRunner runs with ``--junit
    --junit-directory <scratch>`` (reports TESTS-*.xml), and the helpers
    behave.reporter.junit._escape_invalid_xml_chars / escape_CDATA / CDATA /
    ElementTreeWithCDATA (patched serialiser), behave.formatter.ansi_escapes.strip_escapes.

Oracle (written here, from the property text only):
    * every report is parsed with xml.dom.minidom (expat) -- an XML parser that shares
      nothing with the ElementTree serialiser the reporter uses;
    * the expected test cases are a direct census of the model after the run
      (runlib.walk_model): the feature's scenarios, outline rows included, those with status
      skipped only when skipped ones are shown (--no-skipped absent, or the documented userdata
      switch behave.reporter.junit.show_skipped_always); a feature is reported unless it is
      skipped and skipped ones are not shown;
    * the responsible step of a failed scenario is its first step with status failed; of an
      error-class scenario its first step with an error-class status (error, hook_error,
      cleanup_error, undefined, pending); otherwise one of the hooks that raised in the run;
    * XML 1.0 ``Char`` (production [2]) and the "discouraged" ranges of section 2.2 are
      written out below.
"""
from __future__ import print_function
import copy
import glob
import io
import itertools
import os
import shutil
import sys
import tempfile
from xml.dom import minidom, Node

from harness.bounded import BoundedCheck     # -- sets up sys.path for $VERIF_REPO first.
from harness import runlib as R              # noqa: E402
from harness import b_c14 as T               # noqa: E402  (seeded random abstract trees)

ERROR_CLASS = ("error", "hook_error", "cleanup_error", "undefined", "pending")
SHOW_ALWAYS = "behave.reporter.junit.show_skipped_always=true"


# =============================================================================
# XML 1.0 character classes (spec text, not behave's table)
# =============================================================================
def is_xml_char(cp):
    return cp in (0x9, 0xA, 0xD) or 0x20 <= cp <= 0xD7FF or 0xE000 <= cp <= 0xFFFD or 0x10000 <= cp <= 0x10FFFF


def is_discouraged(cp):
    return (0x7F <= cp <= 0x84 or 0x86 <= cp <= 0x9F or 0xFDD0 <= cp <= 0xFDEF or
            (cp >= 0x1FFFE and (cp & 0xFFFF) >= 0xFFFE))


def all_xml_chars(text):
    return all(is_xml_char(ord(c)) for c in text)


def comparable(text):
    """Text that every XML writer / reader pair reproduces verbatim, whatever its sanitising policy:
    XML Chars outside the discouraged ranges, no CDATA terminator, no ESC, no CR (line-end normalisation)."""
    return (all(is_xml_char(ord(c)) and not is_discouraged(ord(c)) for c in text) and
            "]]>" not in text and "\x1b" not in text and "\r" not in text)


# =============================================================================
# Hostile alphabet
# =============================================================================
# -- usable inside a Gherkin line (no line separators of str.splitlines)
NAME_ATOMS = ["<", ">", "&", '"', "'", "]]>", "\x01", "\x08", "\x1b[31m", "\x1b", "\x7f", "\x80", "\x9b",
              u"\U0001F600", u"\U0001FFFE", u"￾", u"é", u"中", "\t"]
# -- additionally usable in strings that exist only at run time (output, exception messages)
RUNTIME_ATOMS = NAME_ATOMS + ["\x00", "\x0b", "\x0c", "\x1f", "\x85", u" ", "\r", "\n", "\x1b[0m",
                              "\x1b[1;31m", "\x1b[2A", u"￿"]
LEGAL_NAME_ATOMS = [a for a in NAME_ATOMS if all_xml_chars(a)]
LEGAL_RUNTIME_ATOMS = [a for a in RUNTIME_ATOMS if all_xml_chars(a)]
NOSPACE = lambda atoms: [a for a in atoms if not any(c.isspace() for c in a)]      # noqa: E731


def hostile_string(rng, atoms, lo=1, hi=4):
    parts = []
    for _ in range(rng.randint(lo, hi)):
        parts.append(rng.choice(atoms))
        if rng.random() < 0.5:
            parts.append(rng.choice("abxyz09"))
    return "".join(parts)


# =============================================================================
# A case and its real run
# =============================================================================
def mk_case(trees, args=(), raise_at=(), hook_msg=None, out=None, err=None, msgs=None, cleanup_ids=()):
    """
    trees       abstract runlib trees (file names features/f<i>.feature)
    args        behave options besides --junit --junit-directory <scratch> -f null features
    raise_at    ordinals of hook invocations that raise RuntimeError(hook_msg or runlib's text)
    out, err    text every executed step prints to stdout / writes to stderr
    msgs        {"fail"|"error"|"pending": exception message used instead of runlib's}
    cleanup_ids ids of steps that register a raising cleanup via context.add_cleanup
    """
    return {"trees": trees, "args": list(args), "raise_at": sorted(raise_at), "hook_msg": hook_msg,
            "out": out, "err": err, "msgs": dict(msgs or {}), "cleanup_ids": sorted(cleanup_ids)}


def shows_skipped(args):
    return ("--no-skipped" not in args) or (SHOW_ALWAYS in args)


def _text_of(node):
    out = []
    for ch in node.childNodes:
        if ch.nodeType in (Node.TEXT_NODE, Node.CDATA_SECTION_NODE):
            out.append(ch.data)
        elif ch.nodeType == Node.ELEMENT_NODE:
            out.append(_text_of(ch))
    return "".join(out)


def parse_report(path):
    try:
        dom = minidom.parse(path)
    except Exception as e:      # noqa
        return {"wellformed": False, "error": "%s: %s" % (e.__class__.__name__, e)}
    root = dom.documentElement
    rep = {"wellformed": True, "root": root.tagName,
           "suite": dict((k, root.getAttribute(k)) for k in ("name", "tests", "failures", "errors", "skipped")),
           "cases": [], "other": []}
    for node in root.childNodes:
        if node.nodeType != Node.ELEMENT_NODE:
            continue
        if node.tagName != "testcase":
            rep["other"].append(node.tagName)
            continue
        c = {"name": node.getAttribute("name"), "status": node.getAttribute("status"),
             "classname": node.getAttribute("classname"), "failure": [], "error": [], "skipped": 0}
        for ch in node.childNodes:
            if ch.nodeType != Node.ELEMENT_NODE:
                continue
            if ch.tagName in ("failure", "error"):
                c[ch.tagName].append({"message": ch.getAttribute("message"), "type": ch.getAttribute("type"),
                                      "text": _text_of(ch)})
            elif ch.tagName == "skipped":
                c["skipped"] += 1
        rep["cases"].append(c)
    dom.unlink()
    return rep


def observe(case, scratch):
    """Run the case for real; -> facts (reports parsed independently, census of the model)."""
    from behave.api.pending_step import StepNotImplementedError
    outdir = os.path.join(scratch, "reports")
    shutil.rmtree(outdir, ignore_errors=True)
    cleanup_ids = set(case.get("cleanup_ids") or ())
    msgs = case.get("msgs") or {}
    out, err = case.get("out"), case.get("err")

    def on_step(context, sid, outcome):
        if out is not None:
            print(out)
        if err is not None:
            sys.stderr.write(err + "\n")
        if sid in cleanup_ids:
            def failing_cleanup():
                raise RuntimeError("cleanup of step %s raises" % sid)
            context.add_cleanup(failing_cleanup)
        if outcome == "fail" and msgs.get("fail") is not None:
            raise AssertionError(msgs["fail"])
        if outcome == "error" and msgs.get("error") is not None:
            raise RuntimeError(msgs["error"])
        if outcome == "pending" and msgs.get("pending") is not None:
            raise StepNotImplementedError(msgs["pending"])

    hook_msg = case.get("hook_msg")
    raise_exc = RuntimeError if hook_msg is None else (lambda _text: RuntimeError(hook_msg))
    args = ["--junit", "--junit-directory", outdir, "-f", "null"] + list(case["args"]) + ["features"]
    obs = R.run(case["trees"], args, raise_at=case.get("raise_at") or (), raise_exc=raise_exc,
                on_step=on_step, record_events=False)
    facts = {"exception": None if obs.exception is None else repr(obs.exception),
             "hook_calls": obs.rec.hook_call_no,
             "hook_names": [h[0] for h in obs.rec.hooks],
             "raised_hooks": sorted(set(obs.rec.hooks[k][0] for k in (case.get("raise_at") or ())
                                        if k < len(obs.rec.hooks))),
             "files": {}, "model": []}
    for path in sorted(glob.glob(os.path.join(outdir, "*"))):
        facts["files"][os.path.basename(path)] = parse_report(path)
    for tree, feature in zip(case["trees"], obs.features):
        base = os.path.basename(tree["filename"]).rsplit(".", 1)[0]
        m = {"file": "TESTS-%s.xml" % base, "name": feature.name, "status": feature.status.name, "scenarios": []}
        for kind, el in R.walk_model(feature):
            if kind != "scenario":
                continue
            steps = [(u"%s %s" % (st.keyword, st.name), st.status.name) for st in el.all_steps]
            m["scenarios"].append({
                "name": el.name, "status": el.status.name,
                "resp_failed": next((t for t, s in steps if s == "failed"), None),
                "resp_error": next((t for t, s in steps if s in ERROR_CLASS), None)})
        facts["model"].append(m)
    shutil.rmtree(outdir, ignore_errors=True)
    return facts


def _int(text):
    try:
        return int(text)
    except ValueError:
        return None


def verdict(case, facts):
    if facts["exception"]:
        return False, "the run raised %s" % facts["exception"]
    show = shows_skipped(case["args"])
    problems = []
    expected_files = set(m["file"] for m in facts["model"] if m["status"] != "skipped" or show)
    if expected_files != set(facts["files"]):
        problems.append("reports %r, expected %r" % (sorted(facts["files"]), sorted(expected_files)))
    for m in facts["model"]:
        rep = facts["files"].get(m["file"])
        if rep is None or m["file"] not in expected_files:
            continue
        if not rep["wellformed"]:
            problems.append("%s is not well-formed: %s" % (m["file"], rep["error"]))
            continue
        if rep["root"] != "testsuite" or rep["other"]:
            problems.append("%s: root %r, stray children %r" % (m["file"], rep["root"], rep["other"]))
        want = [s for s in m["scenarios"] if s["status"] != "skipped" or show]
        cases = rep["cases"]
        if [c["status"] for c in cases] != [s["status"] for s in want]:
            problems.append("%s: testcase statuses %r, scenarios to report %r"
                            % (m["file"], [c["status"] for c in cases], [s["status"] for s in want]))
        else:
            for c, s in zip(cases, want):
                if comparable(s["name"]) and c["name"] != s["name"]:
                    problems.append("%s: testcase name %r, scenario %r" % (m["file"], c["name"], s["name"]))
                entries, candidates = None, []
                if s["status"] == "failed":
                    entries, candidates = c["failure"], [s["resp_failed"]]
                elif s["status"] in ERROR_CLASS:
                    entries = c["error"]
                    candidates = [s["resp_error"]] + ["HOOK-ERROR in %s" % h for h in facts["raised_hooks"]]
                if entries is not None:
                    candidates = [x for x in candidates if x is not None]
                    blob = u"\n".join(e["message"] + u"\n" + e["text"] for e in entries)
                    if not entries:
                        problems.append("%s: %s scenario %r carries no <%s> entry"
                                        % (m["file"], s["status"], s["name"],
                                           "failure" if s["status"] == "failed" else "error"))
                    elif candidates and all(comparable(x) for x in candidates) and \
                            not any(x in blob for x in candidates):
                        problems.append("%s: entry of %s scenario %r names none of %r: %r"
                                        % (m["file"], s["status"], s["name"], candidates, blob[:300]))
                if s["status"] == "skipped" and not c["skipped"]:
                    problems.append("%s: shown skipped scenario %r has no <skipped> entry" % (m["file"], s["name"]))
        counted = {"tests": len(cases), "failures": sum(len(c["failure"]) for c in cases),
                   "errors": sum(len(c["error"]) for c in cases), "skipped": sum(c["skipped"] for c in cases)}
        got = dict((k, _int(rep["suite"][k])) for k in counted)
        if got != counted:
            problems.append("%s: attributes %r, entries counted %r" % (m["file"], got, counted))
    if problems:
        return False, "; ".join(problems)
    return True, "ok: %s" % ", ".join("%s %r" % (f, r.get("suite")) for f, r in sorted(facts["files"].items()))


class Scratch(object):
    def __enter__(self):
        self.path = tempfile.mkdtemp(dir="/var/tmp", prefix="verif_c16_")
        return self.path

    def __exit__(self, *exc):
        shutil.rmtree(self.path, ignore_errors=True)
        return False


def _run_family(family):
    def run(tier, rng):
        with Scratch() as scratch:
            for case in family(tier, rng, scratch):
                ok, detail = verdict(case, observe(case, scratch))
                yield case, ok, detail
    return run


def replay_run(case):
    with Scratch() as scratch:
        ok, detail = verdict(case, observe(case, scratch))
    return case, ok, detail


def _hook_names(case, scratch):
    base = dict(case)
    base["raise_at"] = []
    return observe(base, scratch)["hook_names"]


# =============================================================================
# Families of runs
# =============================================================================
JUNIT_ARGS = (
    [], [], [], ["--no-skipped"], ["--no-skipped"], ["--no-skipped", "-D", SHOW_ALWAYS], ["--stop"],
    ["--dry-run"], ["--tags", "a"], ["--tags", "not a"], ["--no-skipped", "--tags", "not a"],
    ["--no-skipped", "--tags", "a or b"], ["--tags", "not a and not b"], ["--stop", "--no-skipped", "--tags", "not b"],
    ["--dry-run", "--no-skipped"],
)
JUNIT_SWITCHES = ("show_hostname", "show_multiline", "show_scenarios", "show_tags", "show_timings", "show_timestamp")


def _random_args(rng):
    args = list(rng.choice(JUNIT_ARGS))
    if rng.random() < 0.3:
        for name in JUNIT_SWITCHES:
            if rng.random() < 0.4:
                args += ["-D", "behave.reporter.junit.%s=false" % name]
    return args


def _refile(tree, idx=1):
    tree = copy.deepcopy(tree)
    tree["filename"] = "features/f%d.feature" % idx
    return tree


def family_plain(tier, rng, scratch):
    """Plain ASCII names; everything else of the run varies."""
    thorough = (tier != "quick")
    outcomes = ("pass", "fail", "undefined", "skip") if thorough else ("pass", "fail", "undefined")
    for t in R.small_trees(max_scenarios=2, outcomes=outcomes, max_steps=1):
        for args in ([], ["--no-skipped"], ["--stop"], ["--dry-run"]):
            yield mk_case([_refile(t)], args)
    for ti, trees in enumerate(T._rich_trees()):
        for args in (["--tags", "not a"], ["--no-skipped", "--tags", "not a"], ["--no-skipped", "--tags", "a"]):
            yield mk_case(trees, args)
        for args in ([], ["--no-skipped"]):
            base = mk_case(trees, args)
            yield base
            for k in range(len(_hook_names(base, scratch))):
                if not thorough and (k + ti) % 2:
                    continue
                yield mk_case(trees, args, [k])
    for _ in range(8000 if thorough else 1000):
        trees = T.gen_trees(rng)
        args = _random_args(rng)
        case = mk_case(trees, args)
        x = rng.random()
        if x < 0.5 and "--dry-run" not in args:
            n = len(_hook_names(case, scratch))
            if n:
                ks = {rng.randrange(n)}
                if x < 0.15:
                    ks.add(rng.randrange(n))
                case = mk_case(trees, args, ks)
        yield case


def family_cleanup(tier, rng, scratch):
    """A step registers a cleanup (context.add_cleanup, scenario layer) that raises."""
    seqs = [["pass"], ["pass", "pass"], ["fail"], ["pass", "fail"], ["error"], ["pass", "error"], ["undefined"],
            ["pass", "undefined"], ["pending"], ["skip"], ["pass", "skip"]]
    yield mk_case([R.feature("F", [R.scenario("S", [R.step("1", "pass")])], filename="features/f1.feature")],
                  cleanup_ids=["1"])
    for seq in seqs:
        for bg in (None, [R.step("bg", "pass")]):
            for at in range(len(seq) + (1 if bg else 0)):
                steps = [R.step(str(j + 1), o) for j, o in enumerate(seq)]
                ids = (["bg"] if bg else []) + [s["id"] for s in steps]
                f = R.feature("F", [R.scenario("S1", steps), R.scenario("S2", [R.step("9", "pass")])],
                              background=bg, filename="features/f1.feature")
                for args in ([], ["--no-skipped"]):
                    yield mk_case([f], args, cleanup_ids=[ids[at]])


# -- single hostile atom at a single position ---------------------------------
GRID_NAMES = ("feature_name", "scenario_name", "outline_name", "examples_name", "rule_name", "row_value",
              "fail_step", "error_step", "fail_msg", "error_msg", "pending_msg",
              "hook_msg_before_scenario", "hook_msg_after_scenario", "hook_msg_before_step", "hook_msg_before_feature",
              "hook_msg_before_tag")
GRID_OUTPUT = ("stdout", "stderr", "docstring", "table_cell", "tag", "pass_step", "undefined_step", "bg_step")
NOSPACE_POSITIONS = ("pass_step", "fail_step", "error_step", "undefined_step", "bg_step", "tag", "row_value")
RUNTIME_POSITIONS = ("stdout", "stderr", "fail_msg", "error_msg", "pending_msg", "hook_msg_before_scenario",
                     "hook_msg_after_scenario", "hook_msg_before_step", "hook_msg_before_feature",
                     "hook_msg_before_tag")


def grid_case(position, h, scratch=None, _ordinals={}):
    """The fixed grid feature with the hostile string h at one position."""
    def at(p, default):
        return h if p == position else default
    s = R.step
    f = R.feature(
        at("feature_name", "F"),
        [R.scenario(at("scenario_name", "S1"),
                    [s(at("pass_step", "1"), "pass", text=at("docstring", "doc"), ),
                     s("1t", "pass", kw="And", table=[["h"], [at("table_cell", "c")]]),
                     s(at("fail_step", "2"), "fail", kw="When")], tags=[at("tag", "t")]),
         R.scenario("S2", [s(at("error_step", "3"), "error")]),
         R.scenario("S3", [s(at("undefined_step", "4"), "undefined")]),
         R.scenario("S4", [s("5", "pending")]),
         R.outline(at("outline_name", "O"), [s("o<n>", "pass"), s("v<v>", "pass", kw="And")],
                   [{"name": at("examples_name", "E"), "tags": [], "headings": ["n", "v"],
                     "rows": [["1", at("row_value", "r")]]}]),
         R.rule(at("rule_name", "R"), [R.scenario("S5", [s("6", "pass")])])],
        background=[s(at("bg_step", "bg"), "pass")], filename="features/f1.feature")
    kw = {}
    if position == "stdout":
        kw["out"] = h
    elif position == "stderr":
        kw["err"] = h
    elif position.endswith("_msg"):
        kw["msgs"] = {position[:-4]: h}
    elif position.startswith("hook_msg_"):
        hook = position[len("hook_msg_"):]
        if hook not in _ordinals:
            names = _hook_names(mk_case([f]), scratch)
            for name in set(names):
                _ordinals[name] = names.index(name)
        kw["raise_at"] = [_ordinals[hook]]
        kw["hook_msg"] = h
    return mk_case([f], **kw)


def _mini(kind, h):
    """Smallest carriers: one feature, one scenario, one step; h as scenario name / feature name /
    AssertionError message."""
    f = R.feature(h if kind == "feature_name" else "F",
                  [R.scenario(h if kind == "scenario_name" else "S", [R.step("1", "fail" if kind == "fail_msg" else "pass")])],
                  filename="features/f1.feature")
    return mk_case([f], msgs={"fail": h} if kind == "fail_msg" else None)


def _family_grid(positions):
    def family(tier, rng, scratch):
        if "scenario_name" in positions:
            for kind in ("scenario_name", "feature_name", "fail_msg"):
                for a in (RUNTIME_ATOMS if kind == "fail_msg" else NAME_ATOMS):
                    yield _mini(kind, "x%sy" % a)
            # many invalid characters in one text (a replacement that stops after N occurrences must not pass)
            yield _mini("fail_msg", u"x" + u"\x01\x02" * 21 + u"y")
            yield _mini("fail_msg", u"\x08" * 70)
        if "stdout" in positions:
            yield grid_case("stdout", u"a" + u"\x08" * 40 + u"b", scratch)
            yield grid_case("stderr", u"\x0b\x0c" * 25, scratch)
        for position in positions:
            atoms = RUNTIME_ATOMS if position in RUNTIME_POSITIONS else NAME_ATOMS
            if position in NOSPACE_POSITIONS:
                atoms = NOSPACE(atoms)
            yield grid_case(position, "plain", scratch)
            for a in atoms:
                yield grid_case(position, "x%sy" % a, scratch)
    return family


# -- seeded random hostile strings --------------------------------------------
def decorate(trees, rng, atoms, p=0.5):
    """Append hostile strings to names / step ids / doc strings of plain abstract trees (in place)."""
    nospace = NOSPACE(atoms)

    def name(x):
        return x + " " + hostile_string(rng, atoms) if rng.random() < p else x

    def steps(lst):
        for st in lst or ():
            if rng.random() < p:
                st["id"] = st["id"] + hostile_string(rng, nospace, 1, 2)
            if rng.random() < p / 3:
                st["text"] = hostile_string(rng, atoms)

    def items(its):
        for it in its:
            it["name"] = name(it["name"])
            if it["kind"] == "rule":
                steps(it.get("background"))
                items(it["items"])
            else:
                steps(it["steps"])
                for ex in it.get("examples", ()):
                    ex["name"] = name(ex["name"])
    for t in trees:
        t["name"] = name(t["name"])
        steps(t.get("background"))
        items(t["items"])
    return trees


def _family_random(name_atoms, runtime_atoms, n_quick, n_thorough):
    def family(tier, rng, scratch):
        for _ in range(n_quick if tier == "quick" else n_thorough):
            trees = T.gen_trees(rng, nmax=2)
            if name_atoms:
                decorate(trees, rng, name_atoms)
            args = _random_args(rng)
            hs = lambda: hostile_string(rng, runtime_atoms)       # noqa: E731
            msgs = dict((k, hs()) for k in ("fail", "error", "pending") if name_atoms and rng.random() < 0.6)
            case = mk_case(trees, args, out=hs() if rng.random() < 0.7 else None,
                           err=hs() if rng.random() < 0.5 else None, msgs=msgs)
            if name_atoms and rng.random() < 0.3 and "--dry-run" not in args:
                n = len(_hook_names(case, scratch))
                if n:
                    case["raise_at"] = [rng.randrange(n)]
                    case["hook_msg"] = hs()
            yield case
    return family


# =============================================================================
# Helpers: the illegal-character filter over all code points, the CDATA escape
# =============================================================================
def _helper(*names):
    from behave.reporter import junit
    for n in names:
        if hasattr(junit, n):
            return getattr(junit, n)
    raise AttributeError("behave.reporter.junit has none of %r" % (names,))


def _code_points(tier):
    if tier == "quick":
        return sorted(set(range(0x300)) | set(range(0, 0x110000, 97)))
    return range(0x110000)


def _ranges(cps):
    out = []
    for cp in cps:
        if out and out[-1][1] == cp - 1:
            out[-1][1] = cp
        else:
            out.append([cp, cp])
    return ", ".join("U+%04X" % a if a == b else "U+%04X-U+%04X" % (a, b) for a, b in out)


def eval_image(case):
    f = _helper("_escape_invalid_xml_chars", "escape_invalid_xml_chars")
    c = chr(case["cp"])
    img = f(c)
    bad = [ch for ch in img if not is_xml_char(ord(ch))]
    ok = not bad and f("a" + c + "b") == "a" + img + "b" and f(c + c) == img + img
    return case, ok, "image %r%s; in context %r" % (img, " contains non-Char" if bad else "", f("a" + c + "b"))


def run_image(tier, rng):
    for cp in _code_points(tier):
        yield eval_image({"cp": cp})


def _eval_identity(case, note=""):
    f = _helper("_escape_invalid_xml_chars", "escape_invalid_xml_chars")
    c = chr(case["cp"])
    img = f(c)
    return case, img == c, "legal XML 1.0 Char U+%04X is changed to %r%s" % (case["cp"], img, note) if img != c else "unchanged"


def _run_identity(select):
    def run(tier, rng):
        f = _helper("_escape_invalid_xml_chars", "escape_invalid_xml_chars")
        cps = [cp for cp in _code_points(tier) if is_xml_char(cp) and select(cp)]
        changed = [cp for cp in cps if f(chr(cp)) != chr(cp)]
        note = " (all code points of this check and tier that are changed: %s)" % _ranges(changed)
        for cp in cps:
            yield _eval_identity({"cp": cp}, note)
    return run


CDATA_ALPHABET = ("]", ">", "a", "&")
PIPE_ALPHABET = ("]", ">", "a", "&", "\x1b[0m", "\x01")


def eval_cdata(case):
    f = _helper("escape_CDATA", "escape_cdata")
    res = f(case["text"])
    return case, "]]>" not in res, "escape_CDATA(%r) == %r" % (case["text"], res)


def run_cdata(tier, rng):
    for n in range(0, 8):
        for tup in itertools.product(CDATA_ALPHABET, repeat=n):
            yield eval_cdata({"text": "".join(tup)})


def eval_pipeline(case):
    """CDATA(text) inside <system-out>, written by ElementTreeWithCDATA, read back by expat."""
    from behave.reporter import junit
    from xml.etree import ElementTree
    text = case["text"]
    suite = ElementTree.Element("testsuite")
    out = ElementTree.SubElement(suite, "system-out")
    out.append(junit.CDATA(text))
    buf = io.BytesIO()
    try:
        junit.ElementTreeWithCDATA(suite).write(buf, "UTF-8")
    except Exception as e:      # noqa
        return case, False, "serialiser raised %r" % e
    data = buf.getvalue()
    try:
        dom = minidom.parseString(data)
    except Exception as e:      # noqa
        return case, False, "%r is not well-formed: %s" % (data, e)
    kids = [ch for ch in dom.documentElement.getElementsByTagName("system-out")[0].childNodes]
    sections = [ch.data for ch in kids if ch.nodeType == Node.CDATA_SECTION_NODE]
    rest = "".join(ch.data for ch in kids if ch.nodeType == Node.TEXT_NODE).strip()
    elements = [ch for ch in kids if ch.nodeType == Node.ELEMENT_NODE]
    # -- expat reports an empty section <![CDATA[]]> as no node at all
    ok = len(sections) <= 1 and not rest and not elements
    if ok and comparable(text):
        ok = "".join(sections) == text
    return case, ok, "%r -> %r: CDATA sections %r, other text %r, %d elements" % (text, data, sections, rest, len(elements))


def run_pipeline(tier, rng):
    for n in range(0, 6 if tier == "quick" else 7):
        for tup in itertools.product(PIPE_ALPHABET, repeat=n):
            yield eval_pipeline({"text": "".join(tup)})


# =============================================================================
# CHECKS
# =============================================================================
_CONTRACT = ("real ModelRunner run with --junit --junit-directory <scratch>: nothing escapes the run; the reports "
             "are exactly TESTS-<file>.xml of the features that are not (skipped and not shown); each parses with "
             "xml.dom.minidom (expat) as one <testsuite>; its <testcase> elements are, in order, the feature's "
             "scenarios (outline rows included; those with status skipped iff shown) with @status == final status "
             "name and @name == scenario name (compared when the name consists of XML Chars without ']]>', ESC, CR); "
             "@tests/@failures/@errors/@skipped == number of <testcase> / <failure> / <error> / <skipped> elements; "
             "a failed scenario has a <failure> whose message or text contains '<keyword> <name>' of its first "
             "failed step; an error-class scenario has an <error> containing its first error-class step or "
             "'HOOK-ERROR in <hook>' of a hook that raised (compared when these strings are comparable as above); a "
             "shown skipped scenario has a <skipped> entry")
_TREES = ("1-3 (hostile families: 1-2) features, <=3 items each among scenario (0-3 steps over pass/fail/error/"
          "pending/undefined/skip, in 15% of the runs also kbi) / outline (1-2 example tables, 0-3 rows) / rule, "
          "optional backgrounds, tags from {a,b,wip} (generator of b_c14); 15 option sets over --no-skipped, -D "
          + SHOW_ALWAYS + ", --stop, --dry-run, --tags ...; in 30% of the runs a random subset of the six "
          "behave.reporter.junit.show_* switches set to false")
_GRID = ("fixed feature (background, 4 scenarios pass+fail / error / undefined / pending with doc string, table, "
         "tag, 1-row outline, rule) x one position x one atom embedded as 'x<atom>y', exhaustive; atoms in "
         "Gherkin positions (19): < > & \" ' ]]> U+0001 U+0008 ESC[31m ESC U+007F U+0080 U+009B U+1F600 U+1FFFE "
         "U+FFFE e-acute U+4E2D TAB (no TAB in step ids, tags, cells); in run-time strings additionally (31): "
         "NUL VT FF U+001F NEL U+2028 CR LF ESC[0m ESC[1;31m ESC[2A U+FFFF; plus 'plain' per position")

CHECKS = [
    BoundedCheck(
        "junit-runs-plain",
        bound={"quick": "ASCII names and messages. Exhaustive: the 45 trees of runlib.small_trees(<=2 scenarios, 1 "
                        "step, pass/fail/undefined) x {no option, --no-skipped, --stop, --dry-run}; the 6 rich "
                        "trees of b_c14 x {--tags not a, --no-skipped --tags not a, --no-skipped --tags a} and x {no option, "
                        "--no-skipped} x every second single hook invocation raising; "
                        "sampled: 1000 seeded random runs: " + _TREES + "; in half of the non-dry runs 1-2 hook "
                        "invocations raise",
               "thorough": "as quick with outcomes pass/fail/undefined/skip (96 trees), every single hook "
                           "invocation, 8000 seeded random runs"},
        run=_run_family(family_plain), replay=replay_run, contract=_CONTRACT),
    BoundedCheck(
        "junit-cleanup-error",
        bound={"quick": "feature (with / without 1-step background) of scenario S1 with step outcomes in {pass, "
                        "pass pass, fail, pass fail, error, pass error, undefined, pass undefined, pending, skip, "
                        "pass skip} and a passing S2; one step of S1 (each position incl. the background step) "
                        "registers a raising cleanup through context.add_cleanup; x {no option, --no-skipped}: "
                        "86 runs, exhaustive; plus the one-scenario one-step feature",
               "thorough": "same as quick"},
        run=_run_family(family_cleanup), replay=replay_run, contract=_CONTRACT),
    BoundedCheck(
        "junit-grid-output",
        bound={"quick": "positions: captured stdout, captured stderr, doc string, table cell, tag, passing step "
                        "text, undefined step text, background step text; " + _GRID,
               "thorough": "same as quick"},
        run=_run_family(_family_grid(GRID_OUTPUT)), replay=replay_run, contract=_CONTRACT),
    BoundedCheck(
        "junit-grid-names-messages",
        bound={"quick": "positions: feature / scenario / outline / examples / rule name, example cell, failing and "
                        "erroring step text (part of runlib's exception message), AssertionError / RuntimeError / "
                        "StepNotImplementedError message, message of a raising before_scenario / after_scenario / "
                        "before_step / before_feature / before_tag hook; " + _GRID + "; preceded by the smallest "
                        "carriers (one feature, one scenario, one step) with the atom in the scenario name, the "
                        "feature name, the AssertionError message (69 runs)",
               "thorough": "same as quick"},
        run=_run_family(_family_grid(GRID_NAMES)), replay=replay_run, contract=_CONTRACT),
    BoundedCheck(
        "junit-random-legal-alphabet",
        bound={"quick": "400 seeded random runs, hostile strings of 1-4 atoms (random ASCII letters between) drawn "
                        "from the atoms that are XML 1.0 Chars (< > & \" ' ]]> U+007F U+0080 U+009B U+1F600 "
                        "U+1FFFE e-acute U+4E2D TAB; run-time strings also CR LF NEL U+2028) appended to every "
                        "name / step id / some doc strings (p=0.5 each), as stdout (p=.7) / stderr (p=.5) text, "
                        "as exception messages (p=.6 each), as message of one raising hook (p=.3); " + _TREES,
               "thorough": "as quick with 2500 runs"},
        run=_run_family(_family_random(LEGAL_NAME_ATOMS, LEGAL_RUNTIME_ATOMS, 400, 2500)), replay=replay_run,
        contract=_CONTRACT),
    BoundedCheck(
        "junit-random-full-alphabet-output",
        bound={"quick": "400 seeded random runs with ASCII names and messages; captured stdout (p=.7) and stderr "
                        "(p=.5) are hostile strings of 1-4 atoms from the full run-time alphabet (31 atoms, incl. "
                        "C0/C1 controls, ANSI escapes, U+FFFE/U+FFFF, ]]>); " + _TREES,
               "thorough": "as quick with 2500 runs"},
        run=_run_family(_family_random(None, RUNTIME_ATOMS, 400, 2500)), replay=replay_run, contract=_CONTRACT),
    BoundedCheck(
        "junit-random-full-alphabet-everywhere",
        bound={"quick": "150 seeded random runs as junit-random-legal-alphabet but drawing from the full alphabets "
                        "(19 atoms in Gherkin positions, 31 in run-time strings)",
               "thorough": "as quick with 1500 runs"},
        run=_run_family(_family_random(NAME_ATOMS, RUNTIME_ATOMS, 150, 1500)), replay=replay_run,
        contract=_CONTRACT),
    BoundedCheck(
        "invalid-xml-chars-image",
        bound={"quick": "all code points < U+0300 and every 97th of the 1,114,112 (12,251 code points)",
               "thorough": "all 1,114,112 code points (surrogates included), exhaustive"},
        run=run_image, replay=eval_image,
        contract="f = behave.reporter.junit._escape_invalid_xml_chars; for c = chr(cp): every character of f(c) is "
                 "an XML 1.0 Char (#x9 | #xA | #xD | [#x20-#xD7FF] | [#xE000-#xFFFD] | [#x10000-#x10FFFF]); "
                 "f('a'+c+'b') == 'a'+f(c)+'b' and f(c+c) == f(c)+f(c) (acts character-wise)"),
    BoundedCheck(
        "invalid-xml-chars-identity",
        bound={"quick": "the XML 1.0 Chars outside the ranges the specification calls discouraged, among all code "
                        "points < U+0300 and every 97th code point",
               "thorough": "all XML 1.0 Chars outside the discouraged ranges ([#x7F-#x84], [#x86-#x9F], "
                           "[#xFDD0-#xFDEF], #xnFFFE-#xnFFFF for n=1..16), exhaustive"},
        run=_run_identity(lambda cp: not is_discouraged(cp)), replay=_eval_identity,
        contract="for c a legal, not discouraged XML 1.0 Char: _escape_invalid_xml_chars(c) == c"),
    BoundedCheck(
        "invalid-xml-chars-identity-discouraged",
        bound={"quick": "the discouraged-but-legal XML 1.0 Chars among all code points < U+0300 and every 97th",
               "thorough": "all 130 discouraged-but-legal XML 1.0 Chars ([#x7F-#x84], [#x86-#x9F], [#xFDD0-#xFDEF], "
                           "#xnFFFE-#xnFFFF for n=1..16), exhaustive"},
        run=_run_identity(is_discouraged), replay=_eval_identity,
        contract="for c a legal XML 1.0 Char of the discouraged ranges: _escape_invalid_xml_chars(c) == c"),
    BoundedCheck(
        "escape-cdata-no-terminator",
        bound={"quick": "all 21,845 strings of length <= 7 over { ] > a & }, exhaustive",
               "thorough": "same as quick"},
        run=run_cdata, replay=eval_cdata,
        contract="']]>' not in behave.reporter.junit.escape_CDATA(s)"),
    BoundedCheck(
        "cdata-serialise-parse",
        bound={"quick": "all 9,331 strings of <= 5 atoms over { ] > a & ESC[0m U+0001 }, exhaustive",
               "thorough": "all 55,987 strings of <= 6 atoms over the same alphabet, exhaustive"},
        run=run_pipeline, replay=eval_pipeline,
        contract="ElementTreeWithCDATA(<testsuite><system-out>CDATA(s)</system-out></testsuite>).write(UTF-8) "
                 "parses with expat; system-out holds at most one CDATA section and nothing else, whose content "
                 "equals s when s has only non-discouraged XML Chars and no ']]>', ESC, CR (strip_escapes -> escape_CDATA -> "
                 "patched _serialize_xml pipeline)"),
]


# (triage 2026-09-27) checks removed because they demand more than the property states:
#   invalid-xml-chars-identity-discouraged -- discouraged-but-legal code points are replaced on purpose; the image is still Char-only, which is all well-formedness needs
CHECKS = [c for c in CHECKS if c.name not in ('invalid-xml-chars-identity-discouraged',)]
