# -*- coding: utf-8 -*-
"""
harness.b_c18 -- bounded stand-ins (kind B) for C18: output capture isolates step
output and always restores the real streams.

Checks
------
real-runs                     real ModelRunner runs in a *child process* (the property is about
                              the real process streams): steps and step hooks print unique
                              markers to stdout, stderr and logging; the parent compares the
                              bytes that arrived on the child's real stdout/stderr, the failure
                              reports (step.error_message, plain formatter output), the
                              identity of sys.stdout/sys.stderr between steps and the root
                              logger state around every scenario with an oracle computed from
                              the program's own emission trace.
real-runs-strict-root-logger  the literal reading of "at scenario end the root logger's handlers
                              ... are as before": identity list of handlers, behave's own
                              included, per scenario.
controller-sequences          CaptureController / capture_output() driven directly over op
                              sequences (in process, sys.stdout/sys.stderr replaced by fakes).
logcapture-inveigle-abandon   LoggingCapture.inveigle/abandon on the real root logger.
logcapture-clear-handlers     logging_clear_handlers: no other handler receives records meanwhile.
logcapture-preexisting-capture   same with an already installed LoggingCapture (DESIGN 5.18 B).
record-filter                 RecordFilter.filter against the documented --logging-filter rule.
captured-strings              Captured.make_report/output/add/add_text_to against string specs.

The child is started as ``python -c "import harness.b_c18 as m; m._child_main()" spec.json``
with PYTHONPATH=$VERIF_REPO:/verif, cwd = a fresh scratch dir under /var/tmp (removed in a
finally).  Many cases are batched per child; every case runs after the driver has reset
the logging module to its pristine state (no handlers, root level WARNING).
"""
from __future__ import print_function
import io
import itertools
import json
import logging
import os
import re
import shutil
import subprocess
import sys
import tempfile
import traceback

from harness.bounded import BoundedCheck, REPO

VERIF = os.path.dirname(os.path.dirname(os.path.abspath(__file__)))

# =============================================================================
# program alphabet (shared by parent and child)
# =============================================================================
# step spec (string):   <outcome>[+hb][+ha]   |   nest[<o1>,<o2>,...]<outcome>[+hb][+ha]
#   outcome in runlib.OUTCOMES; +hb / +ha: the before_step / after_step hook of this step
#   raises RuntimeError (after printing its markers); +kb / +ka: that hook raises KeyboardInterrupt; nest[...]: the step body calls
#   context.execute_steps() with inner steps of the given outcomes, prints markers before
#   and after that call, and then behaves like <outcome>.
# marker:  @@<case idx>.s<k>t<j>[n<m>].<site>.<chan>@@
#   site  b = before_step hook, x = step body (start), y = step body after execute_steps,
#         a = after_step hook
#   chan  o = print to sys.stdout, e = print to sys.stderr, r = root logger WARNING,
#         n = logger "c18n" ERROR, i = logger "c18n" INFO
TOKEN_RE = re.compile(r"@@(\d+)\.(s(\d+)t\d+(?:n\d+)?)\.([bxya])\.([oerni])@@")
CHANS = "oerni"
LOG_CHANS = {"r": ("root", logging.WARNING), "n": ("c18n", logging.ERROR), "i": ("c18n", logging.INFO)}
FAILING = ("failed", "error", "hook_error", "pending")
LG0 = {"level": None, "filter": None, "clear": False, "uh": "none", "lvl_set": None}
LEVELS = {"DEBUG": 10, "INFO": 20, "WARNING": 30, "ERROR": 40, "CRITICAL": 50}


def parse_step_spec(spec):
    nest = None
    s = spec
    if s.startswith("nest["):
        inner, s = s[5:].split("]", 1)
        nest = inner.split(",")
    parts = s.split("+")
    return {"outcome": parts[0], "hb": "hb" in parts[1:], "ha": "ha" in parts[1:], "nest": nest,
            "kb": "kb" in parts[1:], "ka": "ka" in parts[1:]}


def canon_case(sw, prog, lg=None, fmt="file", feat2_from=None):
    lg2 = dict(LG0)
    lg2.update(lg or {})
    return {"sw": sw, "prog": [list(s) for s in prog], "lg": lg2, "fmt": fmt, "feat2_from": feat2_from}


# =============================================================================
# child side
# =============================================================================
class _ListHandler(logging.Handler):
    def __init__(self):
        logging.Handler.__init__(self)
        self.messages = []

    def emit(self, record):
        self.messages.append(record.getMessage())


def _reset_logging():
    root = logging.getLogger()
    root.handlers[:] = []
    root.setLevel(logging.WARNING)
    root.filters[:] = []
    logging.disable(logging.NOTSET)
    for lg in list(logging.Logger.manager.loggerDict.values()):
        if hasattr(lg, "handlers"):
            lg.handlers[:] = []
            lg.setLevel(logging.NOTSET)
            lg.propagate = True
            lg.disabled = False


def _child_run_case(case, idx, scratch, orig_out, orig_err):
    from behave.configuration import Configuration
    from behave.formatter._registry import make_formatters
    from behave.parser import parse_feature
    from behave.runner import ModelRunner
    from harness import runlib

    _reset_logging()
    root = logging.getLogger()
    named = logging.getLogger("c18n")
    so, se, sl = [c == "1" for c in case["sw"]]
    lg = case["lg"]
    log = []                       # the trace: emissions, formatter and hook observations
    user = _ListHandler()
    seen = []                      # foreign handlers by first appearance (kept alive)

    def ident():
        return [sys.stdout is orig_out, sys.stderr is orig_err]

    def logger_state():
        labels = []
        for h in root.handlers:
            if h is user:
                labels.append("U")
                continue
            for k, x in enumerate(seen):
                if x is h:
                    break
            else:
                seen.append(h)
                k = len(seen) - 1
            labels.append("X%d:%s" % (k, type(h).__name__))
        return [labels, root.level]

    def emit(site, sid):
        for chan in CHANS:
            tok = "@@%d.%s.%s.%s@@" % (idx, sid, site, chan)
            log.append(["emit", tok])
            if chan == "o":
                print(tok)
            elif chan == "e":
                print(tok, file=sys.stderr)
            elif chan == "r":
                root.warning(tok)
            elif chan == "n":
                named.error(tok)
            else:
                named.info(tok)

    # -- the program
    items, nest_plan, hb, ha, kb, ka = [], {}, set(), set(), set(), set()
    for k, sc in enumerate(case["prog"], 1):
        steps = []
        for j, spec in enumerate(sc, 1):
            p = parse_step_spec(spec)
            sid = "s%dt%d" % (k, j)
            if p["hb"]:
                hb.add(sid)
            if p["ha"]:
                ha.add(sid)
            if p["kb"]:
                kb.add(sid)
            if p["ka"]:
                ka.add(sid)
            if p["nest"] is not None:
                lines = []
                for m, o in enumerate(p["nest"], 1):
                    lines.append(u"Given " + runlib.step_text(runlib.step("%sn%d" % (sid, m), o)))
                nest_plan[sid] = u"\n".join(lines)
            steps.append(runlib.step(sid, p["outcome"], kw=("Given", "When", "Then")[min(j - 1, 2)]))
        items.append(runlib.scenario("S%d" % k, steps))
    cut = case.get("feat2_from")
    if cut:
        trees = [runlib.feature("F1", items[:cut - 1], filename="f1.feature"),
                 runlib.feature("F2", items[cut - 1:], filename="f2.feature")]
    else:
        trees = [runlib.feature("F1", items, filename="f1.feature")]

    def on_step(context, sid, outcome):
        emit("x", sid)
        if sid in nest_plan:
            context.execute_steps(nest_plan[sid])
            emit("y", sid)

    def sid_of(step):
        return step.name.split()[1]

    def hook_extra(name, context, args):
        if name == "before_step":
            sid = sid_of(args[0])
            emit("b", sid)
            if sid in hb:
                raise RuntimeError("hook before_step raises")
            if sid in kb:
                raise KeyboardInterrupt()
        elif name == "after_step":
            sid = sid_of(args[0])
            emit("a", sid)
            if sid in ha:
                raise RuntimeError("hook after_step raises")
            if sid in ka:
                raise KeyboardInterrupt()
        else:
            if name == "before_all":
                if lg["uh"] == "before_all":
                    root.addHandler(user)
                if lg["lvl_set"] is not None:
                    root.setLevel(lg["lvl_set"])
            label = getattr(args[0], "name", args[0]) if args else None
            log.append(["hook", name, label, ident(), logger_state()])

    class ObsFormatter(runlib.RecordingFormatter):
        def match(self, match):
            log.append(["match", ident()])

        def result(self, step):
            words = step.name.split()
            sid = words[1] if words[0] == "step" else words[-1]
            log.append(["result", sid, step.status.name, step.error_message, ident()])

    args = ["--capture" if so else "--no-capture",
            "--capture-stderr" if se else "--no-capture-stderr",
            "--logcapture" if sl else "--no-logcapture", "-f", "plain"]
    plain_path = None
    if case["fmt"] == "file":
        plain_path = os.path.join(scratch, "plain_%d.txt" % idx)
        args += ["-o", plain_path]
    if lg["level"]:
        args += ["--logging-level", lg["level"]]
    if lg["filter"]:
        args += ["--logging-filter=" + lg["filter"]]
    if lg["clear"]:
        args += ["--logging-clear-handlers"]

    if lg["uh"] == "pre":
        root.addHandler(user)
    res = {"exc": None, "failed": None}
    res["logger_pre_run"] = logger_state()
    config = Configuration(args, load_config=False)
    res["config"] = [bool(config.stdout_capture), bool(config.stderr_capture), bool(config.log_capture),
                     config.logging_level, config.logging_filter, bool(config.logging_clear_handlers)]
    feats = [parse_feature(runlib.render(t), filename=t["filename"]) for t in trees]
    rec = runlib.Recorder()
    rec.on_step = on_step
    runner = ModelRunner(config, feats, step_registry=runlib.make_registry(rec))
    runner.hooks = runlib.make_hooks(rec, extra=hook_extra)
    runner.formatters = make_formatters(config, config.outputs) + [ObsFormatter(rec)]
    try:
        res["failed"] = bool(runner.run())
    except BaseException as e:     # noqa -- nothing may escape; reported as a violation
        res["exc"] = "%s: %s" % (type(e).__name__, e)
    log.append(["final", ident(), logger_state()])
    res["log"] = log
    res["user"] = list(user.messages)
    scn = []
    for f in feats:
        for s in f.walk_scenarios():
            c = s.captured
            scn.append([s.name, s.status.name, c.stdout, c.stderr, c.log_output])
    res["scenarios"] = scn
    res["plain"] = None
    if plain_path is not None:
        try:
            with io.open(plain_path, encoding="utf-8") as fh:
                res["plain"] = fh.read()
        except IOError as e:
            res["plain_error"] = str(e)
    return res


def _child_main():
    with io.open(sys.argv[1], encoding="utf-8") as fh:
        spec = json.load(fh)
    import behave
    orig_out, orig_err = sys.stdout, sys.stderr
    out = {"behave": os.path.dirname(os.path.abspath(behave.__file__)),
           "real": [orig_out is sys.__stdout__, orig_err is sys.__stderr__], "results": []}
    for idx, case in zip(spec["idx"], spec["cases"]):
        for s in (orig_out, orig_err):
            s.write("@@C18-CASE-BEGIN %d@@\n" % idx)
            s.flush()
        try:
            res = _child_run_case(case, idx, spec["scratch"], orig_out, orig_err)
        except BaseException:      # noqa
            res = {"driver_error": traceback.format_exc()[-1500:]}
        res["left"] = [sys.stdout is orig_out, sys.stderr is orig_err]
        sys.stdout, sys.stderr = orig_out, orig_err
        for s in (orig_out, orig_err):
            s.flush()
            s.write("@@C18-CASE-END %d@@\n" % idx)
            s.flush()
        out["results"].append(res)
    orig_out.write("@@C18-VERDICT@@ " + json.dumps(out) + "\n")
    orig_out.flush()


# =============================================================================
# parent side: spawn, segment, judge
# =============================================================================
def _segments(text):
    segs = {}
    for m in re.finditer(r"@@C18-CASE-BEGIN (\d+)@@\n(.*?)@@C18-CASE-END \1@@\n", text, re.S):
        segs[int(m.group(1))] = m.group(2)
    return segs


def _spawn(cases, idxs=None):
    """Run the cases in one child; returns [(obs, real stdout segment, real stderr segment)]."""
    idxs = list(idxs) if idxs is not None else list(range(len(cases)))
    scratch = tempfile.mkdtemp(prefix="c18_", dir="/var/tmp")
    try:
        spec = os.path.join(scratch, "spec.json")
        with io.open(spec, "w", encoding="utf-8") as fh:
            fh.write(json.dumps({"cases": cases, "idx": idxs, "scratch": scratch}))
        env = dict(os.environ)
        env["PYTHONPATH"] = "%s:%s" % (REPO, VERIF)
        env["PYTHONIOENCODING"] = "utf-8"
        env.pop("PYTHONUNBUFFERED", None)
        p = subprocess.run([sys.executable, "-c", "import harness.b_c18 as m; m._child_main()", spec],
                           cwd=scratch, env=env, stdout=subprocess.PIPE, stderr=subprocess.PIPE,
                           timeout=300)
        out = p.stdout.decode("utf-8", "replace")
        err = p.stderr.decode("utf-8", "replace")
        verdict = None
        for line in out.splitlines():
            if line.startswith("@@C18-VERDICT@@ "):
                verdict = json.loads(line[len("@@C18-VERDICT@@ "):])
        if verdict is None or p.returncode != 0:
            why = "child failed: exit %s, stderr tail: %s" % (p.returncode, err[-800:])
            return [({"driver_error": why}, "", "") for _ in cases]
        so, se = _segments(out), _segments(err)
        res = []
        for i, obs in zip(idxs, verdict["results"]):
            obs["behave"] = verdict["behave"]
            obs["real"] = verdict["real"]
            res.append((obs, so.get(i), se.get(i)))
        return res
    finally:
        shutil.rmtree(scratch, ignore_errors=True)


def _tokens(text):
    return [m.group(0) for m in TOKEN_RE.finditer(text or "")]


def _filter_ok(spec, name):
    """--logging-filter on the names used by the real runs (exact names only; the
    hierarchical part of the documented rule is the subject of `record-filter`)."""
    if not spec:
        return True
    names = spec.split(",")
    excl = [n[1:] for n in names if n.startswith("-")]
    if excl:
        return name not in excl
    return name in names


def _judge(case, obs, seg_out, seg_err, strict_logger=False):
    """The run-time contract.  Returns a list of violations (empty = ok)."""
    v = []
    if "driver_error" in obs:
        return ["driver: " + obs["driver_error"]]
    if os.path.realpath(obs["behave"]) != os.path.realpath(os.path.join(REPO, "behave")):
        return ["child imported behave from %s, not from %s" % (obs["behave"], REPO)]
    if obs["real"] != [True, True]:
        v.append("child's sys.stdout/sys.stderr are not the process streams at start")
    if seg_out is None or seg_err is None:
        return v + ["case delimiters missing on the child's real streams"]
    so, se, sl = [c == "1" for c in case["sw"]]
    lg = case["lg"]
    want_cfg = [so, se, sl, LEVELS.get(lg["level"], 20), lg["filter"], bool(lg["clear"])]
    if obs["config"] != want_cfg:
        v.append("configuration switches %r, expected %r" % (obs["config"], want_cfg))
    if obs["exc"]:
        v.append("exception escaped runner.run(): %s" % obs["exc"])
    if obs["left"] != [True, True]:
        v.append("after the run sys.stdout/sys.stderr is the original: %r" % obs["left"])

    cap_level = LEVELS.get(lg["level"], 20)
    root_level_off = lg["lvl_set"] if lg["lvl_set"] is not None else logging.WARNING

    def dest(chan):
        """Where the oracle sends one emission: 'cap.out'/'cap.err'/'cap.log', 'real.out',
        'real.err', 'user' or None (dropped by the logging configuration)."""
        if chan == "o":
            return "cap.out" if so else "real.out"
        if chan == "e":
            return "cap.err" if se else "real.err"
        name, levelno = LOG_CHANS[chan]
        if sl:
            if levelno >= cap_level and _filter_ok(lg["filter"], name):
                return "cap.log"
            return None
        if levelno < root_level_off:
            return None
        if lg["uh"] != "none":
            return "user"
        if levelno >= logging.WARNING:          # logging.lastResort writes to the current sys.stderr
            return "cap.err" if se else "real.err"
        return None

    real_out, real_err, user, plain = [], [], [], []
    cap = {"out": [], "err": [], "log": []}
    cur = 0
    per_scn_final = {}
    checkpoints = []               # (label, [labels, level]) logger observations outside scenarios
    for ev in obs["log"]:
        kind = ev[0]
        if kind == "emit":
            m = TOKEN_RE.match(ev[1])
            if int(m.group(3)) != cur:
                v.append("marker %s emitted while scenario %d is current" % (ev[1], cur))
            d = dest(m.group(5))
            if d == "real.out":
                real_out.append(ev[1])
            elif d == "real.err":
                real_err.append(ev[1])
            elif d == "user":
                user.append(ev[1])
            elif d is not None:
                cap[d[4:]].append(ev[1])
        elif kind == "hook":
            name, label, ident, lstate = ev[1:5]
            if ident != [True, True]:
                v.append("in %s(%s): sys.stdout/sys.stderr is original: %r" % (name, label, ident))
            if name == "before_scenario":
                cur = int(label[1:])
                cap = {"out": [], "err": [], "log": []}
                checkpoints.append(("before_scenario " + label, lstate))
            elif name == "after_feature":
                checkpoints.append(("after_feature " + label, lstate))
        elif kind == "match":
            if ev[1] != [True, True]:
                v.append("before a step of S%d: sys.stdout/sys.stderr is original: %r" % (cur, ev[1]))
        elif kind == "result":
            sid, status, msg, ident = ev[1:5]
            if ident != [True, True]:
                v.append("after step %s (%s): sys.stdout/sys.stderr is original: %r" % (sid, status, ident))
            got = _tokens(msg)
            if status in FAILING:
                want = cap["out"] + cap["err"] + cap["log"]
                if got != want:
                    v.append("report of failing step %s (%s) has markers %r, expected %r"
                             % (sid, status, got, want))
                for ch, head in (("out", "Captured stdout:"), ("err", "Captured stderr:"),
                                 ("log", "Captured logging:")):
                    if cap[ch] and head not in (msg or ""):
                        v.append("report of %s lacks section %r" % (sid, head))
                if case["fmt"] == "file":
                    plain.extend(want)
                else:
                    real_out.extend(want)
                per_scn_final[cur] = {k: list(x) for k, x in cap.items()}
            elif got:
                v.append("step %s with status %s carries markers %r" % (sid, status, got))
        elif kind == "final":
            if ev[1] != [True, True]:
                v.append("after the run: sys.stdout/sys.stderr is original: %r" % ev[1])
            checkpoints.append(("end of run", ev[2]))

    got_out, got_err = _tokens(seg_out), _tokens(seg_err)
    if got_out != real_out:
        v.append("markers on the real stdout %r, expected %r" % (got_out, real_out))
    if got_err != real_err:
        v.append("markers on the real stderr %r, expected %r" % (got_err, real_err))
    if case["fmt"] == "file":
        if obs["plain"] is None:
            v.append("plain formatter file missing: %s" % obs.get("plain_error"))
        elif _tokens(obs["plain"]) != plain:
            v.append("markers in the plain formatter output %r, expected %r" % (_tokens(obs["plain"]), plain))
    if not sl and lg["uh"] != "none" and _tokens("\n".join(obs["user"])) != user:
        v.append("user's root handler received %r, expected %r" % (_tokens("\n".join(obs["user"])), user))

    # -- scenario.captured: only this scenario's output; equals the report for a failed scenario
    for name, status, c_out, c_err, c_log in obs["scenarios"]:
        k = int(name[1:])
        got = {"out": _tokens(c_out), "err": _tokens(c_err), "log": _tokens(c_log)}
        for ch in got:
            alien = [t for t in got[ch] if int(TOKEN_RE.match(t).group(3)) != k]
            if alien:
                v.append("%s.captured.%s holds markers of other scenarios: %r" % (name, ch, alien))
        if status == "failed" and k in per_scn_final and got != per_scn_final[k]:
            v.append("%s.captured markers %r, expected %r" % (name, got, per_scn_final[k]))

    # -- root logger around each scenario: pre = before_scenario hook, post = next checkpoint
    for (lab, pre), (lab2, post) in zip(checkpoints, checkpoints[1:]):
        if not lab.startswith("before_scenario"):
            continue
        if strict_logger:
            if pre != post:
                v.append("root logger [handlers, level] at %s: %r, after it (%s): %r" % (lab, pre, lab2, post))
            continue
        if pre[1] != post[1]:
            v.append("root logger level at %s: %r, after it (%s): %r" % (lab, pre[1], lab2, post[1]))
        if [h for h in pre[0] if h == "U"] != [h for h in post[0] if h == "U"]:
            v.append("user handlers on the root logger at %s: %r, after it (%s): %r" % (lab, pre[0], lab2, post[0]))
        left = [h for h in post[0] if h != "U" and h not in pre[0]]
        if left:
            v.append("handlers left on the root logger after %s: %r" % (lab, left))
    return v


def _run_batch(cases, strict_logger=False, chunk=250):
    for at in range(0, len(cases), chunk):
        part = cases[at:at + chunk]
        for case, (obs, so, se) in zip(part, _spawn(part, range(at, at + len(part)))):
            v = _judge(case, obs, so, se, strict_logger=strict_logger)
            yield case, not v, "; ".join(v)


# -- case families ------------------------------------------------------------
SWITCHES = ["".join(b) for b in itertools.product("10", repeat=3)]
P = ["pass", "pass"]
QUICK_SCENARIOS = [
    ["pass", "fail", "pass"], ["fail"], ["pass", "error"], ["pass", "kbi", "pass"], ["pass", "pending"],
    ["pass", "undefined", "pass"], ["pass", "skip", "pass"], ["pass+hb", "pass"], ["pass", "pass+ha"],
    ["fail+ha"], ["nest[pass,pass]pass", "fail"], ["pass", "nest[pass,fail]pass", "pass"],
    ["nest[error]pass"], ["nest[pass]fail"],
]
STEP_ALPHABET = ["pass", "fail", "error", "kbi", "pending", "undefined", "skip", "pass+hb", "pass+ha",
                 "fail+ha", "nest[pass,pass]pass", "nest[pass,fail]pass", "nest[error]pass", "nest[pass]fail"]
LG_VARIANTS = [
    {"level": "ERROR"}, {"level": "DEBUG"}, {"filter": "c18n"}, {"filter": "-c18n"}, {"filter": "root"},
    {"level": "ERROR", "filter": "c18n"}, {"clear": True}, {"uh": "pre"}, {"uh": "before_all"},
    {"uh": "before_all", "clear": True}, {"uh": "pre", "clear": True},
    {"uh": "before_all", "lvl_set": 10}, {"uh": "before_all", "lvl_set": 40, "clear": True},
    {"lvl_set": 10}, {"lvl_set": 50}, {"uh": "before_all", "lvl_set": 30, "level": "ERROR"},
]
LG_PROG = [["pass", "pass"], ["pass", "fail", "pass"], ["pass"], ["error"]]


def _real_run_cases(tier, rng):
    cases = []
    for sw in SWITCHES:
        for x in QUICK_SCENARIOS:
            cases.append(canon_case(sw, [P, x, P]))
        cases.append(canon_case(sw, [["pass", "fail"], ["fail"], ["pass"], ["pass", "error"]]))
        cases.append(canon_case(sw, [P, ["pass", "fail"], P, ["error"]], fmt="stdout", feat2_from=3))
    for lgv in LG_VARIANTS:
        for sw in (SWITCHES if tier == "thorough" else ("111", "110", "001", "000")):
            cases.append(canon_case(sw, LG_PROG, lg=lgv))
    seqs = [[a] for a in STEP_ALPHABET] + [[a, b] for a in STEP_ALPHABET for b in STEP_ALPHABET]
    if tier == "thorough":
        for sw in SWITCHES:
            for x in seqs:
                cases.append(canon_case(sw, [["pass"], x, ["pass"]], fmt=rng.choice(["file", "stdout"])))
    for _ in range(4000 if tier == "thorough" else 150):
        n = rng.choice([2, 3, 4])
        prog = [rng.choice(seqs + [[rng.choice(STEP_ALPHABET) for _ in range(3)]]) for _ in range(n)]
        lgv = rng.choice(LG_VARIANTS + [{}] * len(LG_VARIANTS))
        cases.append(canon_case(rng.choice(SWITCHES), prog, lg=lgv, fmt=rng.choice(["file", "stdout"]),
                                feat2_from=rng.choice([None, None, 2])))
    return cases


def run_real_runs(tier, rng):
    for x in _run_batch(_real_run_cases(tier, rng)):
        yield x


def replay_real_runs(case):
    return list(_run_batch([case]))[0]


def _hook_interrupt_cases(tier):
    cases = []
    for sw in (SWITCHES if tier == "thorough" else ("111", "100", "010", "001", "000")):
        for x in (["pass", "pass+kb", "pass"], ["pass+ka", "pass"], ["fail+ka"], ["pass+kb"]):
            cases.append(canon_case(sw, [P, x, P]))
        cases.append(canon_case(sw, [P, ["pass+kb"], P], fmt="stdout", feat2_from=3))
    return cases


def run_hook_interrupt(tier, rng):
    for x in _run_batch(_hook_interrupt_cases(tier)):
        yield x


def _strict_cases(tier):
    cases = []
    for sw in (SWITCHES if tier == "thorough" else ("111", "001", "110")):
        cases.append(canon_case(sw, [["pass"], ["pass"]]))
        cases.append(canon_case(sw, [["pass"], ["fail"]], lg={"uh": "before_all"}))
    return cases


def run_strict(tier, rng):
    for x in _run_batch(_strict_cases(tier), strict_logger=True):
        yield x


def replay_strict(case):
    return list(_run_batch([case], strict_logger=True))[0]


# =============================================================================
# in-process checks on the capture classes
# =============================================================================
class _Cfg(object):
    def __init__(self, sw="111", level=None, filter=None, clear=False):
        self.stdout_capture, self.stderr_capture, self.log_capture = [c == "1" for c in sw]
        self.logging_format = None
        self.logging_datefmt = None
        self.logging_level = level
        self.logging_filter = filter
        self.logging_clear_handlers = clear


class _SavedLogging(object):
    """Put the logging module into a pristine state and restore the harness's own after."""
    def __enter__(self):
        root = logging.getLogger()
        self.saved = (root.handlers[:], root.level,
                      dict((n, (l.handlers[:], l.level)) for n, l in logging.Logger.manager.loggerDict.items()
                           if hasattr(l, "handlers")))
        _reset_logging()
        return root

    def __exit__(self, *exc):
        root = logging.getLogger()
        _reset_logging()
        root.handlers[:] = self.saved[0]
        root.setLevel(self.saved[1])
        for n, (hs, lvl) in self.saved[2].items():
            lg = logging.getLogger(n)
            lg.handlers[:] = hs
            lg.setLevel(lvl)
        return False


# -- controller sequences -------------------------------------------------------
CTRL_OPS = ("start", "stop", "write", "with_ok", "with_raise", "with_kbi", "with_off", "next_scenario")


def _controller_case(case):
    from behave.capture import CaptureController, capture_output
    sw, ops = case["sw"], case["ops"]
    so, se, sl = [c == "1" for c in sw]
    v = []
    true_out, true_err = sys.stdout, sys.stderr
    fake_out, fake_err = io.StringIO(), io.StringIO()
    with _SavedLogging() as root:
        sys.stdout, sys.stderr = fake_out, fake_err
        try:
            ctl = CaptureController(_Cfg(sw))
            capturing = False
            counter = [0]
            exp = {"cap.out": [], "cap.err": [], "real.out": [], "real.err": []}

            class Ctx(object):
                pass

            def write():
                counter[0] += 1
                t_o, t_e = "<o%d>" % counter[0], "<e%d>" % counter[0]
                sys.stdout.write(t_o + "\n")
                sys.stderr.write(t_e + "\n")
                exp["cap.out" if (capturing and so) else "real.out"].append(t_o)
                exp["cap.err" if (capturing and se) else "real.err"].append(t_e)

            def check(after):
                if so and capturing:
                    if sys.stdout is fake_out or sys.stdout is not ctl.stdout_capture:
                        v.append("after %s: capturing but sys.stdout is not the scenario buffer" % after)
                elif sys.stdout is not fake_out:
                    v.append("after %s: not capturing but sys.stdout is not the original" % after)
                if se and capturing:
                    if sys.stderr is fake_err or sys.stderr is not ctl.stderr_capture:
                        v.append("after %s: capturing but sys.stderr is not the scenario buffer" % after)
                elif sys.stderr is not fake_err:
                    v.append("after %s: not capturing but sys.stderr is not the original" % after)

            for n, op in enumerate(["setup"] + list(ops) + ["stop", "teardown"]):
                try:
                    if op in ("setup", "next_scenario"):
                        if capturing:
                            return None          # precondition: scenario boundary only between steps
                        if op == "next_scenario":
                            ctl.teardown_capture()
                        ctl.setup_capture(Ctx())
                        exp["cap.out"], exp["cap.err"] = [], []
                    elif op == "teardown":
                        ctl.teardown_capture()
                    elif op == "start":
                        ctl.start_capture()
                        capturing = True
                    elif op == "stop":
                        ctl.stop_capture()
                        capturing = False
                    elif op == "write":
                        write()
                    elif op == "with_off":
                        with capture_output(ctl, enabled=False):
                            write()
                    else:
                        if capturing:
                            return None          # precondition: no nested enabled capture_output
                        try:
                            with capture_output(ctl):
                                capturing = True
                                check("enter of " + op)
                                write()
                                if op == "with_raise":
                                    raise RuntimeError("body")
                                if op == "with_kbi":
                                    raise KeyboardInterrupt()
                        except (RuntimeError, KeyboardInterrupt):
                            if op == "with_ok":
                                raise
                        capturing = False
                except Exception as e:      # noqa
                    v.append("op #%d %s raised %s: %s" % (n, op, type(e).__name__, e))
                    break
                check("op #%d %s" % (n, op))
            c = ctl.captured
            got = {"cap.out": re.findall(r"<o\d+>", c.stdout), "cap.err": re.findall(r"<e\d+>", c.stderr),
                   "real.out": re.findall(r"<o\d+>", fake_out.getvalue()),
                   "real.err": re.findall(r"<e\d+>", fake_err.getvalue())}
            if got != exp:
                v.append("markers %r, expected %r" % (got, exp))
            if root.handlers or root.level != logging.WARNING:
                v.append("root logger after teardown: handlers %r level %r" % (root.handlers, root.level))
        finally:
            sys.stdout, sys.stderr = true_out, true_err
    return case, not v, "; ".join(v)


def run_controller(tier, rng):
    maxlen = 4 if tier == "thorough" else 3
    for sw in SWITCHES:
        for n in range(0, maxlen + 1):
            for ops in itertools.product(CTRL_OPS, repeat=n):
                r = _controller_case({"sw": sw, "ops": list(ops)})
                if r is not None:
                    yield r


def replay_controller(case):
    r = _controller_case(case)
    return r if r is not None else (case, True, "precondition not met (next_scenario/enabled capture_output while capturing)")


# -- LoggingCapture.inveigle / abandon -----------------------------------------
EMITS = [("root", logging.WARNING, "m1"), ("c18n", logging.ERROR, "m2"), ("c18n", logging.INFO, "m3"),
         ("other", logging.CRITICAL, "m4"), ("root", logging.DEBUG, "m5")]


def _doc_filter(spec, name):
    """The documented rule (behave --help, --logging-filter): 'foo' selects foo and
    foo.what.ever.sub but not foobar; a minus prefix excludes instead."""
    if not spec:
        return True

    def hit(pat):
        return name == pat or name.startswith(pat + ".")
    names = spec.split(",")
    excl = [n[1:] for n in names if n.startswith("-")]
    if excl:
        return not any(hit(p) for p in excl)
    return any(hit(p) for p in names)


def _inveigle_case(case):
    from behave.log_capture import LoggingCapture
    v = []
    with _SavedLogging() as root:
        users = {"U1": _ListHandler(), "U2": _ListHandler()}
        cfg = _Cfg("111", level=case["level"], filter=case["filter"], clear=case["clear"])
        objs = []
        pre_cap = None
        for name in case["handlers"]:
            if name == "LC":
                pre_cap = LoggingCapture(_Cfg("111", clear=False))
                pre_cap.inveigle()             # an earlier capture, still installed
                objs.append(pre_cap)
            else:
                root.addHandler(users[name])
                objs.append(users[name])
        # inveigle of the earlier capture changed the level: the state "before" is set now
        root.setLevel(case["root_level"])
        named = logging.getLogger("c18n")
        nh = [_ListHandler() for _ in range(case["named_handlers"])]
        for h in nh:
            named.addHandler(h)
        if root.handlers != objs:
            return case, False, "harness: could not build the pre-state"
        lc = LoggingCapture(cfg)
        try:
            lc.inveigle()
            if lc not in root.handlers:
                v.append("after inveigle the capture handler is not on the root logger")
            cap_level = case["level"] or 0
            want = []
            for lname, lvl, msg in EMITS:
                logging.getLogger(None if lname == "root" else lname).log(lvl, msg)
                if lvl >= cap_level and _filter_ok(case["filter"], lname):
                    want.append("%s:%s:%s" % (logging.getLevelName(lvl), lname, msg))
            for k in range(int(case.get("many") or 0)):        # a scenario that logs a lot: nothing may be dropped
                logging.getLogger("c18n").error("many-%d", k)
                if logging.ERROR >= cap_level and _filter_ok(case["filter"], "c18n"):
                    want.append("ERROR:c18n:many-%d" % k)
            got = lc.getvalue().split("\n") if lc.getvalue() else []
            if got != want:
                v.append("captured lines %r, expected %r" % (got, want))
            if case["clear"] and case.get("check_clear"):
                seen = [m for h in list(users.values()) + nh for m in h.messages]
                if seen:
                    v.append("logging_clear_handlers: other handlers still received %r" % seen)
            lc.abandon()
        except Exception as e:      # noqa
            v.append("raised %s: %s" % (type(e).__name__, e))
        if root.handlers != objs:
            lab = lambda hs: [("LC" if h is pre_cap else "new-capture" if h is lc else
                               "".join(k for k, u in users.items() if u is h) or "?") for h in hs]
            v.append("root handlers after abandon %r, before inveigle %r" % (lab(root.handlers), lab(objs)))
        if root.level != case["root_level"]:
            v.append("root level after abandon %r, before inveigle %r" % (root.level, case["root_level"]))
    return case, not v, "; ".join(v)


def _inveigle_cases(tier):
    hlists = [[], ["U1"], ["U1", "U2"], ["U2", "U1"]]
    levels = [None, 20, 40] if tier == "thorough" else [None, 40]
    filters = [None, "c18n", "-c18n", "root,other"] if tier == "thorough" else [None, "c18n", "-c18n"]
    # the number of handlers on the named logger varies slowest (a finding there must not hide the rest)
    for nn, hl, rl, clear, lvl, flt in itertools.product([0, 1, 2], hlists, [0, 10, 30, 50], [False, True],
                                                         levels, filters):
        yield {"handlers": hl, "root_level": rl, "clear": clear, "level": lvl, "filter": flt, "named_handlers": nn}


def run_inveigle(tier, rng):
    for c in _inveigle_cases(tier):
        yield _inveigle_case(c)
    for many in ((1005, 2500) if tier == "thorough" else (1005,)):
        yield _inveigle_case({"handlers": [], "root_level": 30, "clear": False, "level": None, "filter": None,
                              "named_handlers": 0, "many": many})


def run_inveigle_lc(tier, rng):
    for hl in (["LC"], ["U1", "LC"], ["LC", "U1"]):
        for clear in (False, True):
            for rl, lvl in (itertools.product([0, 30], [None, 40]) if tier == "thorough" else [(30, None)]):
                yield _inveigle_case({"handlers": hl, "root_level": rl, "clear": clear, "level": lvl,
                                      "filter": None, "named_handlers": 0})


def run_clear_handlers(tier, rng):
    for nn in (0, 1, 2, 3):
        for hl in ([], ["U1"], ["U1", "U2"]):
            yield _inveigle_case({"handlers": hl, "root_level": 30, "clear": True, "level": None, "filter": None,
                                  "named_handlers": nn, "check_clear": True})


# -- RecordFilter -----------------------------------------------------------------
def _record_filter_case(case):
    from behave.log_capture import RecordFilter
    rec = logging.LogRecord(case["name"], logging.INFO, "x.py", 1, "msg", (), None)
    want = _doc_filter(case["spec"], case["name"])
    try:
        got = bool(RecordFilter(case["spec"]).filter(rec))
    except Exception as e:      # noqa
        return case, False, "raised %s: %s" % (type(e).__name__, e)
    return case, got == want, "filter(%r).filter(record of %r) == %r, documented rule says %r" % (
        case["spec"], case["name"], got, want)


def run_record_filter(tier, rng):
    specs = ["foo", "foo,bar", "bar,foo", "foo.sub", "-foo", "-foo,-bar", "-foo.sub"]
    names = ["foo", "bar", "baz", "root", "foobar", "fo", "foo.sub", "foo.what.ever.sub", "bar.x", "foo.subx"]
    cases = [{"spec": s, "name": n} for s in specs for n in names]
    # exact-name cases first, so that a hierarchical-name finding cannot hide them
    cases.sort(key=lambda c: ("." in c["name"], c["spec"].startswith("-")))
    for c in cases:
        yield _record_filter_case(c)


# -- Captured string arithmetic ----------------------------------------------------
def _spec_add_text(value, more, sep="\n"):
    if not more:
        return value
    if not value:
        return more
    if sep and not value.endswith(sep):
        value += sep
    return value + more


def _spec_report(o, e, l):
    secs = []
    if o:
        secs.append("Captured stdout:\n" + o.rstrip() + "\n")
    if e:
        secs.append("Captured stderr:\n" + e.rstrip() + "\n")
    if l:
        secs.append("Captured logging:\n" + l)
    return "\n".join(secs).strip()


def _captured_case(case):
    from behave.capture import Captured, add_text_to
    v = []
    kind = case["kind"]
    try:
        if kind == "report":
            o, e, l = case["parts"]
            c = Captured(o, e, l)
            if c.make_report() != _spec_report(o, e, l):
                v.append("make_report() == %r, expected %r" % (c.make_report(), _spec_report(o, e, l)))
            want_out = _spec_add_text(_spec_add_text(o, e), l)
            if c.output != want_out:
                v.append("output == %r, expected %r" % (c.output, want_out))
            if bool(c) != bool(o or e or l):
                v.append("bool() == %r" % bool(c))
            c.reset()
            if (c.stdout, c.stderr, c.log_output, bool(c), c.make_report()) != ("", "", "", False, ""):
                v.append("reset() leaves %r" % ((c.stdout, c.stderr, c.log_output),))
        elif kind == "add_text":
            got = add_text_to(case["value"], case["more"], case["sep"])
            want = _spec_add_text(case["value"], case["more"], case["sep"])
            if got != want:
                v.append("add_text_to == %r, expected %r" % (got, want))
        else:
            a, b = Captured(*case["a"]), Captured(*case["b"])
            want = tuple(_spec_add_text(x, y) for x, y in zip(case["a"], case["b"]))
            s = a + b
            if (s.stdout, s.stderr, s.log_output) != want:
                v.append("a + b == %r, expected %r" % ((s.stdout, s.stderr, s.log_output), want))
            if (a.stdout, a.stderr, a.log_output) != tuple(case["a"]) or \
                    (b.stdout, b.stderr, b.log_output) != tuple(case["b"]):
                v.append("a + b changed an operand")
            a0 = a
            a += b
            if a is not a0 or (a.stdout, a.stderr, a.log_output) != want:
                v.append("a += b gives %r (same object: %r), expected %r"
                         % ((a.stdout, a.stderr, a.log_output), a is a0, want))
    except Exception as e:      # noqa
        v.append("raised %s: %s" % (type(e).__name__, e))
    return case, not v, "; ".join(v)


def run_captured(tier, rng):
    strs = ["", "a", "a\n", "x\ny", "\n", " b "] if tier == "thorough" else ["", "a", "a\n", "x\ny"]
    for parts in itertools.product(strs, repeat=3):
        yield _captured_case({"kind": "report", "parts": list(parts)})
    for value, more, sep in itertools.product(strs, strs, ["\n", "", ", "]):
        yield _captured_case({"kind": "add_text", "value": value, "more": more, "sep": sep})
    small = ["", "a", "a\n"]
    triples = list(itertools.product(small, repeat=3))
    pairs = list(itertools.product(triples, repeat=2))
    if tier != "thorough":
        pairs = [pairs[i] for i in sorted(rng.sample(range(len(pairs)), 150))]
    for a, b in pairs:
        yield _captured_case({"kind": "add", "a": list(a), "b": list(b)})


# =============================================================================
_N_ALPHA = len(STEP_ALPHABET)
CHECKS = [
    BoundedCheck(
        "real-runs",
        bound={
            "quick": "child-process runs of the real ModelRunner (plain formatter to a file or to stdout + summary "
                     "reporter): all 8 capture switch combinations x %d three-/four-scenario programs (outcomes pass, "
                     "fail, error, kbi, pending, undefined, skip, raising before_step/after_step hook, nested "
                     "execute_steps passing/failing/erroring; one program over two features); %d logging variants "
                     "(--logging-level, --logging-filter exact names, --logging-clear-handlers, user handler installed "
                     "before the run / in before_all, user-set root level) x 4 switch combinations on one "
                     "four-scenario program; 5 markers (stdout, stderr, root WARNING, named ERROR, named INFO) per "
                     "step body / step hook; plus 150 sampled programs of 2-4 scenarios (step sequences of length <= 3 over "
                     "a %d-letter step alphabet) x sampled switches/logging variant/formatter target/feature split"
                     % (len(QUICK_SCENARIOS) + 2, len(LG_VARIANTS), _N_ALPHA),
            "thorough": "quick family with the logging variants under all 8 combinations, plus exhaustively all "
                        "%d step sequences of length <= 2 over a %d-letter step alphabet as middle scenario between "
                        "two passing ones x 8 switch combinations (formatter target sampled), plus 4000 sampled "
                        "programs of 2-4 scenarios x sampled switches/logging variant/formatter target/feature split"
                        % (_N_ALPHA + _N_ALPHA ** 2, _N_ALPHA),
        },
        run=run_real_runs, replay=replay_real_runs,
        contract="with T = the program's own emission trace: (1) markers on the child's real stdout (stderr) == the "
                 "sub-sequence of T written to a channel whose capture is off [+ the expected failure reports when "
                 "the plain formatter writes to stdout]; (2) for every step with status failed/error/hook_error/"
                 "pending: markers in step.error_message == captured stdout ++ stderr ++ logging markers emitted "
                 "in that scenario so far (logging subject to level/filter), section heads present; other steps "
                 "carry none; (3) markers in the plain formatter output == concatenation of (2) (nothing of passing "
                 "scenarios); (4) at every formatter match/result event, every non-step hook and after the run "
                 "sys.stdout/sys.stderr are the original objects; (5) scenario.captured holds only markers of its "
                 "scenario (== the report's for a failed scenario); (6) root logger level and user handlers at "
                 "before_scenario == at the next checkpoint after the scenario and no new handler is left; "
                 "(7) with log capture off records reach the user's handler / logging.lastResort in order; "
                 "(8) no exception leaves runner.run()"),
    BoundedCheck(
        "real-runs-hook-interrupt",
        bound={"quick": "5 capture switch combinations x 5 three-scenario programs whose middle scenario has a "
                        "before_step / after_step hook raising KeyboardInterrupt (after printing its markers)",
               "thorough": "all 8 switch combinations x the same 5 programs"},
        run=run_hook_interrupt, replay=replay_real_runs,
        contract="real-runs (1)-(8) for runs interrupted from inside a step hook: in particular (4) after the step and "
                 "after the run sys.stdout/sys.stderr are the original objects"),
    BoundedCheck(
        "real-runs-strict-root-logger",
        bound={"quick": "3 switch combinations x 2 two-scenario programs (one with a user handler installed in before_all)",
               "thorough": "8 switch combinations x the same 2 programs"},
        run=run_strict, replay=replay_strict,
        contract="real-runs, with (6) read literally: the identity list of root logger handlers (behave's own "
                 "included) and the level observed in before_scenario == those at the next checkpoint after it"),
    BoundedCheck(
        "controller-sequences",
        bound={"quick": "8 switch combinations x all op sequences of length <= 3 over {start, stop, write, "
                        "capture_output ok/raising/KeyboardInterrupt/disabled, next_scenario (= teardown; setup)} that meet "
                        "the preconditions (scenario boundary and enabled capture_output only while not capturing), "
                        "framed by setup ... stop, teardown",
               "thorough": "same with length <= 4"},
        run=run_controller, replay=replay_controller,
        contract="after every op: capturing and channel on => sys.stdout/sys.stderr is the current scenario buffer, "
                 "else it is the original object; start twice == start; stop without start is a no-op; "
                 "capture_output restores on normal exit, exception and KeyboardInterrupt; written markers land in "
                 "controller.captured (since the last setup) iff capturing and channel on, else on the original "
                 "stream, in order; teardown leaves the root logger as found"),
    BoundedCheck(
        "logcapture-inveigle-abandon",
        bound={"quick": "root handlers in {[], [U1], [U1,U2], [U2,U1]} x root level {0,10,30,50} x clear_handlers "
                        "{off,on} x logging_level {None,40} x filter {None, c18n, -c18n} x {0,1,2} handlers on a named logger; "
                        "5 records (root/named/other, DEBUG..CRITICAL); one case with 1005 further records",
               "thorough": "same with logging_level {None,20,40} and filter 'root,other' in addition; 1005 and 2500 further records"},
        run=run_inveigle, replay=_inveigle_case,
        contract="inveigle(); emit; abandon(): captured lines == 'LEVEL:name:msg' of the records with level >= "
                 "logging_level passing the filter; after abandon root.handlers (identity, order) and root.level == "
                 "before inveigle"),
    BoundedCheck(
        "logcapture-clear-handlers",
        bound={"quick": "logging_clear_handlers on: {0,1,2,3} handlers on a named logger x root handlers {[], [U1], [U1,U2]}",
               "thorough": "same (complete for the listed shapes)"},
        run=run_clear_handlers, replay=_inveigle_case,
        contract="as logcapture-inveigle-abandon, and between inveigle and abandon no handler other than the capture "
                 "receives a record ('Clear all other logging handlers'), i.e. nothing can reach a real stream "
                 "through a handler the user had installed"),
    BoundedCheck(
        "logcapture-preexisting-capture",
        bound={"quick": "root handlers in {[LC], [U1,LC], [LC,U1]} (LC = an earlier, still installed LoggingCapture) x "
                        "clear_handlers {off,on}; root level 30",
               "thorough": "same x root level {0,30} x logging_level {None,40}"},
        run=run_inveigle_lc, replay=_inveigle_case,
        contract="as logcapture-inveigle-abandon: root.handlers after abandon == before inveigle, the earlier "
                 "capture handler included (DESIGN 5.18 B: 'with a pre-existing LoggingCapture')"),
    BoundedCheck(
        "record-filter",
        bound={"quick": "7 filter specs (include-only or exclude-only, 1-2 names) x 10 logger names (exact, prefix-"
                        "without-dot, sub-loggers)", "thorough": "same (complete for the listed names)"},
        run=run_record_filter, replay=_record_filter_case,
        contract="RecordFilter(spec).filter(record) == documented rule: an include name foo selects foo and foo.* "
                 "but not foobar; a minus prefix excludes the same set instead"),
    BoundedCheck(
        "captured-strings",
        bound={"quick": "Captured over all triples from 4 strings (report/output/bool/reset), add_text_to over 4x4 "
                        "strings x 3 separators, 150 sampled pairs of the 27x27 Captured pairs for + and +=",
               "thorough": "6 strings (216 triples), 6x6x3 add_text_to, all 729 pairs"},
        run=run_captured, replay=_captured_case,
        contract="make_report() == sections 'Captured stdout:/stderr:/logging:' (present iff the part is non-empty, "
                 "in this order, content right-stripped, blank line between) stripped; output == parts joined by "
                 "newline where needed; a+b joins part-wise with a newline unless already ending in one, does not "
                 "change operands; a+=b returns a"),
]


# (triage 2026-09-27) checks removed because they demand more than the property states:
#   record-filter -- hierarchical logger-name matching is a statement of the --logging-filter help text, not of the property
CHECKS = [c for c in CHECKS if c.name not in ('record-filter',)]
