# -*- coding: utf-8 -*-
"""
harness.runs_common -- shared helpers of the real-run bounded stand-ins b_c01, b_c02,
b_c09 and b_c12 (run under /venv/bin/python, behave imported from $VERIF_REPO).

Built on harness.runlib (abstract trees, Gherkin writer, generic step definition,
recording hooks / formatter).  This module adds

* a tag-expression AST with an own evaluator and renderers for both dialects
  (``ev``, ``to_v2``, ``to_v1``);
* ``expand``: the *specification view* of a list of abstract trees: features, rules,
  outlines, scenarios (outline rows expanded by textual substitution) with their own
  tags, effective tags and complete step sequence (feature background, rule
  background, own steps);
* ``Interp``: an interpreter of that view written from the property texts of C01, C02,
  C09 and C12 (selection, step outcome -> status, stop after first non-pass, hook
  bracketing, hook faults, cleanups, --stop, --dry-run, abort).  It never looks at a
  behave object; it predicts call log, hook log, expected step statuses, which
  elements are hook-error and whether "something went wrong" (``bad``);
* ``run2``: the real run (``ModelRunner.run()`` on the parsed Gherkin text of the
  trees) with a registry that extends runlib's generic step definition by a step
  definition whose type converter raises (outcome ``conv``) and by async step
  functions (outcomes ``async_<o>``); supports a second ``run()`` on the same model;
* ``observe``: statuses of the real model after the run, keyed like the spec view.

Outcome alphabet: runlib.OUTCOMES + ``conv`` (type-conversion error) + ``async_<o>``.
"""
from __future__ import print_function
import contextlib
import io

from harness.bounded import BoundedCheck      # noqa: F401  (sets sys.path for $VERIF_REPO first)
from harness import runlib as rl
from harness.runlib import step, scenario, outline, rule, feature, render   # noqa: F401

import parse
from behave.api.pending_step import StepNotImplementedError
from behave.configuration import Configuration
from behave.matchers import ParseMatcher
from behave.parser import parse_feature
from behave.runner import ModelRunner

OUTCOMES = rl.OUTCOMES                       # pass fail error pending undefined skip kbi
OUTCOMES8 = OUTCOMES + ("conv",)


# =============================================================================
# tag expressions: AST, own evaluator, renderers
# =============================================================================
# AST (JSON): ["t", name] | ["w", pattern] | ["not", e] | ["and", e1, e2, ...] | ["or", e1, ...]
# wildcard patterns are restricted to  "prefix*"  and  "*suffix".
def T(name):
    return ["t", name]


def W(pattern):
    return ["w", pattern]


def NOT(e):
    return ["not", e]


def AND(*es):
    return ["and"] + list(es)


def OR(*es):
    return ["or"] + list(es)


def ev(e, tags):
    """Own evaluator: does the tag *set* satisfy the expression?"""
    op = e[0]
    if op == "t":
        return e[1] in tags
    if op == "w":
        pat = e[1]
        if pat.endswith("*"):
            return any(t.startswith(pat[:-1]) for t in tags)
        assert pat.startswith("*")
        return any(t.endswith(pat[1:]) for t in tags)
    if op == "not":
        return not ev(e[1], tags)
    if op == "and":
        return all(ev(x, tags) for x in e[1:])
    if op == "or":
        return any(ev(x, tags) for x in e[1:])
    raise ValueError(e)


def to_v2(e, top=True, at=False):
    """Tag-expression v2 text (cucumber style)."""
    op = e[0]
    if op in ("t", "w"):
        return ("@" if at else "") + e[1]
    if op == "not":
        return "not " + to_v2(e[1], False, at)
    txt = (" %s " % op).join(to_v2(x, False, at) for x in e[1:])
    return txt if top else "(%s)" % txt


def _v1_literal(e):
    if e[0] == "t":
        return e[1]
    if e[0] == "not" and e[1][0] == "t":
        return "-" + e[1][1]
    return None


def to_v1(e, neg="-", at=False):
    """List of v1 ``--tags`` values (AND of comma-separated ORs of literals), or None when the
    expression is not of that shape (wildcards, negated groups, nesting)."""
    groups = e[1:] if e[0] == "and" else [e]
    out = []
    for g in groups:
        lits = g[1:] if g[0] == "or" else [g]
        words = []
        for lit in lits:
            w = _v1_literal(lit)
            if w is None:
                return None
            if w.startswith("-"):
                w = neg + ("@" if at else "") + w[1:]
            elif at:
                w = "@" + w
            words.append(w)
        out.append(",".join(words))
    return out


def tag_args(e, dialect):
    """Command-line arguments selecting with expression e in the given dialect:
    "v2", "v2@" (tags written with @), "v1", "v1~" (negation written ~), "v1@"."""
    if e is None:
        return []
    if dialect.startswith("v2"):
        return ["--tags=" + to_v2(e, at=dialect.endswith("@"))]
    vals = to_v1(e, neg="~" if dialect.endswith("~") else "-", at=dialect.endswith("@"))
    if vals is None:
        return None
    return ["--tags=" + v for v in vals]


# =============================================================================
# specification view of abstract trees
# =============================================================================
class Node(object):
    __slots__ = ("kind", "name", "tags", "eff", "children", "steps", "key", "parent")

    def __init__(self, kind, name, tags, eff, key, parent):
        self.kind = kind            # feature | rule | outline | scenario
        self.name = name
        self.tags = list(tags)      # own tags in document order (rows: rendered + examples')
        self.eff = set(eff)         # effective tags
        self.children = []
        self.steps = []             # scenario: [(sid, outcome, origin)]  origin: fbg | rbg | own
        self.key = key              # positional key, e.g. "F0/1/0"
        self.parent = parent

    def ancestors(self):
        n, out = self.parent, []
        while n is not None:
            out.append(n)
            n = n.parent
        return out


def _subst(text, headings, row):
    for h, v in zip(headings, row):
        text = text.replace("<%s>" % h, v)
    return text


def _steps(steps, origin):
    return [(s["id"], s["outcome"], origin) for s in (steps or [])]


def _expand_items(parent, items, bg):
    for i, it in enumerate(items):
        key = "%s/%d" % (parent.key, i)
        if it["kind"] == "rule":
            node = Node("rule", it["name"], it["tags"], parent.eff | set(it["tags"]), key, parent)
            _expand_items(node, it["items"], bg + _steps(it.get("background"), "rbg"))
        elif it["kind"] == "scenario":
            node = Node("scenario", it["name"], it["tags"], parent.eff | set(it["tags"]), key, parent)
            node.steps = bg + _steps(it["steps"], "own")
        else:
            plain = [t for t in it["tags"] if "<" not in t]
            node = Node("outline", it["name"], it["tags"], parent.eff | set(plain), key, parent)
            for ei, ex in enumerate(it["examples"], 1):
                for ri, row in enumerate(ex["rows"], 1):
                    name = "%s -- @%d.%d %s" % (it["name"], ei, ri, ex.get("name", ""))
                    rtags = []
                    for t in it["tags"]:
                        t2 = _subst(t, ex["headings"], row)
                        if "<" not in t2:
                            rtags.append(t2)
                    rtags += list(ex.get("tags", []))
                    sc = Node("scenario", name, rtags, node.eff | set(rtags),
                              "%s/%d.%d" % (key, ei, ri), node)
                    sc.steps = bg + [(_subst(s["id"], ex["headings"], row),
                                      _subst(s["outcome"], ex["headings"], row), "own")
                                     for s in it["steps"]]
                    node.children.append(sc)
        parent.children.append(node)


def expand(trees):
    feats = []
    for fi, f in enumerate(trees):
        node = Node("feature", f["name"], f["tags"], set(f["tags"]), "F%d" % fi, None)
        _expand_items(node, f["items"], _steps(f.get("background"), "fbg"))
        feats.append(node)
    return feats


def walk(node):
    """Document order, same shape as runlib.walk_model: feature, rule, outline, scenario."""
    yield node
    for ch in node.children:
        for x in walk(ch):
            yield x


def scenarios_under(node):
    return [n for n in walk(node) if n.kind == "scenario"]


def step_label(sid, outcome):
    return rl.step_text({"id": sid, "outcome": outcome})


# =============================================================================
# the interpreter (specification of a run, from the property texts)
# =============================================================================
# expected step status: set of acceptable behave status names
X_PASSED = frozenset(["passed"])
X_FAILED = frozenset(["failed"])
X_ERROR = frozenset(["error"])
X_PENDING = frozenset(["pending"])
X_PENDING_WARN = frozenset(["pending_warn"])
X_UNDEFINED = frozenset(["undefined"])
X_SKIPPED = frozenset(["skipped"])
X_HOOK_ERROR = frozenset(["hook_error"])
X_SKIPPED_OR_UNDEFINED = frozenset(["skipped", "undefined"])
# the property does not say which "not executed" status a step carries in these situations:
X_NOT_RUN = frozenset(["untested", "skipped"])
X_DRY = frozenset(["untested", "skipped", "untested_pending"])
X_DRY_UNDEFINED = frozenset(["undefined", "untested_undefined"])
EXECUTED_STATUSES = frozenset(["passed", "failed", "error", "pending", "pending_warn", "hook_error"])


def base_outcome(oc):
    if oc.startswith("asynct_"):        # async step function run with a timeout (asyncio.wait branch)
        return oc[7:]
    return oc[6:] if oc.startswith("async_") else oc


class Interp(object):
    """Specification of one run.

    trees      abstract trees (runlib dicts)
    expr       tag-expression AST or None
    stop       --stop
    dry_run    --dry-run
    raise_at   ordinals (0-based, in call order of *this* run) of hook invocations that raise
    cafs       Scenario.continue_after_failed_step for every scenario
    cleanups   {step id: layer}; when that step function is called it registers a raising
               cleanup on the layer (scenario | rule | feature | testrun)
    table      {step id: outcome} overriding the outcome written in the step text
    before_continues   the property does not say whether the remaining before-hooks of an
               element still run after one of them raised: True = they do, False = they do not
    """

    def __init__(self, trees, expr=None, stop=False, dry_run=False, raise_at=(), cafs=False,
                 cleanups=None, table=None, before_continues=True):
        self.feats = expand(trees)
        self.expr = expr
        self.stop = stop
        self.dry_run = dry_run
        self.raise_at = set(raise_at)
        self.cafs = cafs
        self.cleanups = cleanups or {}
        self.table = table or {}
        self.before_continues = before_continues
        self.hooks = []         # dicts: name, label, key, phase
        self.calls = []         # (scenario name, step id)
        self.bad = False
        self.raised = []        # ordinals that raised
        self.fault_keys = []    # keys of the elements whose hook raised ("...#i" for steps)
        self.aborted = False
        self.stopped = False
        self.pending_cleanups = {"scenario": 0, "rule": 0, "feature": 0, "testrun": 0}
        self.res = {}
        for f in self.feats:
            for n in walk(f):
                self.res[n.key] = {"kind": n.kind, "reached": False, "hook_error": False,
                                   "selected": None, "active": None, "executed": False,
                                   "suppressed": False, "steps": None, "step_hook_error": []}
        self.nodes = dict((n.key, n) for f in self.feats for n in walk(f))

    # -- selection -------------------------------------------------------------
    def selected(self, s):
        return self.expr is None or ev(self.expr, s.eff)

    def has_selected(self, node):
        return any(self.selected(s) for s in scenarios_under(node))

    # -- events ----------------------------------------------------------------
    def hook(self, name, label, key, phase):
        if self.dry_run:
            return False
        no = len(self.hooks)
        self.hooks.append({"name": name, "label": label, "key": key, "phase": phase})
        if no in self.raise_at:
            self.bad = True
            self.raised.append(no)
            self.fault_keys.append(key)
            return True
        return False

    def before_phase(self, node, name):
        ok = True
        for t in node.tags:
            if self.hook("before_tag", t, node.key, "before"):
                ok = False
                if not self.before_continues:
                    return False
        if self.hook(name, node.name, node.key, "before"):
            ok = False
        return ok

    def after_phase(self, node, name):
        raised = self.hook(name, node.name, node.key, "after")
        for t in node.tags:
            if self.hook("after_tag", t, node.key, "after"):
                raised = True
        return raised

    def fire_cleanups(self, layer):
        n = self.pending_cleanups[layer]
        self.pending_cleanups[layer] = 0
        if n:
            self.bad = True
            return True
        return False

    # -- run -------------------------------------------------------------------
    def run(self):
        if self.hook("before_all", None, None, "all"):
            self.aborted = True
        for f in self.feats:
            if self.aborted or self.stopped:
                break
            self.container(f)
        self.hook("after_all", None, None, "all")
        self.fire_cleanups("testrun")
        return self

    def container(self, c):
        r = self.res[c.key]
        r["reached"] = True
        r["active"] = self.has_selected(c)
        hooks_on = r["active"] and not self.dry_run
        failed = False
        body = True
        if hooks_on:
            body = self.before_phase(c, "before_" + c.kind)
            if not body:
                failed = True
                r["hook_error"] = True
        if body:
            for ch in c.children:
                if self.aborted or self.stopped:
                    break
                if ch.kind == "rule":
                    f = self.container(ch)
                elif ch.kind == "outline":
                    f = self.outline(ch)
                else:
                    f = self.scenario(ch)
                if f:
                    failed = True
                    if self.stop:
                        self.stopped = True
        else:
            for n in walk(c):
                if n is not c:
                    self.res[n.key]["suppressed"] = True
        if hooks_on:
            if self.after_phase(c, "after_" + c.kind):
                failed = True
                r["hook_error"] = True
        if self.fire_cleanups(c.kind):
            failed = True
        if failed and self.stop:
            self.stopped = True
        return failed

    def outline(self, o):
        self.res[o.key]["reached"] = True
        failed = False
        for s in o.children:
            if self.aborted or self.stopped:
                break
            if self.scenario(s):
                failed = True
                if self.stop:
                    self.stopped = True
        return failed

    def scenario(self, s):
        r = self.res[s.key]
        r["reached"] = True
        r["selected"] = self.selected(s)
        n = len(s.steps)
        r["step_hook_error"] = [False] * n
        if not r["selected"]:
            r["steps"] = [X_SKIPPED] * n
            return False
        if self.dry_run:
            r["steps"] = []
            for sid, oc, _ in s.steps:
                if self.table.get(sid, oc) == "undefined":
                    self.bad = True         # undefined steps are discovered in dry-run
                    r["steps"].append(X_DRY_UNDEFINED)
                else:
                    r["steps"].append(X_DRY)
            return False
        failed = False
        body = self.before_phase(s, "before_scenario")
        if not body:
            failed = True
            r["hook_error"] = True
        wip = "wip" in s.eff
        exp = []
        if body:
            r["executed"] = True
            running, failed_seen, skipped_by_step = True, False, False
            for idx, (sid, oc0, _) in enumerate(s.steps):
                oc = self.table.get(sid, oc0)
                boc = base_outcome(oc)
                if not running:
                    if skipped_by_step and not failed_seen:
                        exp.append(X_SKIPPED)
                    elif skipped_by_step:
                        # continue_after_failed_step and a later skip: unspecified
                        exp.append(X_SKIPPED_OR_UNDEFINED if boc == "undefined" else X_SKIPPED)
                    else:
                        exp.append(X_UNDEFINED if boc == "undefined" else X_SKIPPED)
                        if boc == "undefined":
                            self.bad = True
                    continue
                if boc == "undefined":
                    exp.append(X_UNDEFINED)
                    self.bad = True
                    failed = failed_seen = True
                    running = self.cafs
                    continue
                label = step_label(sid, oc0)
                skey = "%s#%d" % (s.key, idx)
                hb = self.hook("before_step", label, skey, "before")
                if not hb:
                    if boc != "conv":
                        self.calls.append((s.name, sid))
                        layer = self.cleanups.get(sid)
                        if layer:
                            self.pending_cleanups[layer] += 1
                    if boc == "kbi":
                        self.aborted = True
                ha = self.hook("after_step", label, skey, "after")
                if hb or ha:
                    r["step_hook_error"][idx] = True
                    st, bad = X_HOOK_ERROR, True
                    if not hb and boc == "skip":
                        skipped_by_step = True
                elif boc == "pass":
                    st, bad = X_PASSED, False
                elif boc == "fail":
                    st, bad = X_FAILED, True
                elif boc in ("error", "conv", "kbi"):
                    st, bad = X_ERROR, True
                elif boc == "pending":
                    st, bad = (X_PENDING_WARN, False) if wip else (X_PENDING, True)
                elif boc == "skip":
                    st, bad = X_SKIPPED, False
                    skipped_by_step = True
                    running = False
                else:
                    raise ValueError(oc)
                exp.append(st)
                if bad:
                    self.bad = True
                    failed = failed_seen = True
                    if not self.cafs:
                        running = False
                    elif skipped_by_step:
                        running = False
        else:
            exp = [X_NOT_RUN] * n
        r["steps"] = exp
        if self.after_phase(s, "after_scenario"):
            failed = True
            r["hook_error"] = True
        if self.fire_cleanups("scenario"):
            failed = True
        return failed

    # -- views -------------------------------------------------------------------
    def hook_log(self):
        return [(h["name"], h["label"]) for h in self.hooks]

    def scenario_level_hook_log(self):
        return [(h["name"], h["label"]) for h in self.hooks
                if h["key"] is not None and self.kind_of(h["key"]) in ("scenario", "step")]

    def kind_of(self, key):
        if key is None:
            return "all"
        if "#" in key:
            return "step"
        return self.nodes[key].kind

    def scen_nodes(self):
        return [n for f in self.feats for n in scenarios_under(f)]


def strip_container_hooks(log):
    """Remove from an observed hook log [(name, label)] the entries of run/feature/rule level:
    *_all, *_feature, *_rule, and the tag hooks bracketing them (before_tag entries directly
    in front of a before_feature/before_rule, after_tag entries directly behind an
    after_feature/after_rule)."""
    n = len(log)
    drop = [False] * n
    for i, (name, _) in enumerate(log):
        if name in ("before_all", "after_all", "before_feature", "after_feature",
                    "before_rule", "after_rule"):
            drop[i] = True
            if name in ("before_feature", "before_rule"):
                j = i - 1
                while j >= 0 and log[j][0] == "before_tag" and not drop[j]:
                    drop[j] = True
                    j -= 1
            if name in ("after_feature", "after_rule"):
                j = i + 1
                while j < n and log[j][0] == "after_tag":
                    drop[j] = True
                    j += 1
    return [e for e, d in zip(log, drop) if not d]


# =============================================================================
# the real run
# =============================================================================
class _ConvError(ValueError):
    pass


@parse.with_pattern(r"conv")
def _conv_type(text):
    raise _ConvError("cannot convert %r" % text)


def act(context, sid, outcome):
    """What a step function does for an outcome (same alphabet as runlib's generic step)."""
    if outcome == "pass":
        return
    if outcome == "fail":
        assert False, "step %s fails" % sid
    if outcome == "error":
        raise RuntimeError("step %s raises" % sid)
    if outcome == "pending":
        raise StepNotImplementedError("step %s pending" % sid)
    if outcome == "skip":
        context.scenario.skip("by step %s" % sid)
        return
    if outcome == "kbi":
        raise KeyboardInterrupt()
    raise ValueError("unknown outcome %r" % outcome)


def make_registry2(rec):
    """runlib's registry plus (in front of the generic definition)
    ``step {sid} {outcome:Conv}``  -- the converter of Conv raises: type-conversion error;
    ``step {sid} async_{outcome}`` -- the same behaviours as an async step function;
    ``step {sid} asynct_{outcome}`` -- the same, decorated with a timeout (the asyncio.wait branch)."""
    reg = rl.make_registry(rec)

    def never(context, sid, outcome):                   # pragma: no cover (must not be called)
        rec.calls.append((getattr(context.scenario, "name", None), sid, "CONV-CALLED"))
    conv = ParseMatcher(never, "step {sid} {outcome:Conv}", custom_types={"Conv": _conv_type})

    from behave.api.async_step import async_run_until_complete
    import asyncio

    @async_run_until_complete
    async def agen(context, sid, outcome):
        await asyncio.sleep(0)
        sc = getattr(context, "scenario", None)
        rec.calls.append((sc.name if sc is not None else None, sid, "async_" + outcome))
        if rec.on_step is not None:
            rec.on_step(context, sid, "async_" + outcome)
        await asyncio.sleep(0)
        act(context, sid, outcome)
    amatch = ParseMatcher(agen, "step {sid} async_{outcome}")

    @async_run_until_complete(timeout=30)
    async def agen_t(context, sid, outcome):
        await asyncio.sleep(0)
        sc = getattr(context, "scenario", None)
        rec.calls.append((sc.name if sc is not None else None, sid, "asynct_" + outcome))
        if rec.on_step is not None:
            rec.on_step(context, sid, "asynct_" + outcome)
        await asyncio.sleep(0)
        act(context, sid, outcome)
    atmatch = ParseMatcher(agen_t, "step {sid} asynct_{outcome}")
    reg.steps["step"][0:0] = [conv, amatch, atmatch]
    return reg


_CONFIG_CACHE = {}


def get_config(args):
    """Configuration objects are cached per argument tuple (argparse set-up is half of the cost
    of a small run); every run still gets a fresh parse, registry, runner and context."""
    key = tuple(args)
    cfg = _CONFIG_CACHE.get(key)
    if cfg is None:
        with contextlib.redirect_stdout(io.StringIO()):
            cfg = Configuration(list(args) or ["-f", "null"], load_config=False)
        if len(_CONFIG_CACHE) > 512:
            _CONFIG_CACHE.clear()
        _CONFIG_CACHE[key] = cfg
    # -- reporters accumulate state over runs: every run gets fresh ones
    with contextlib.redirect_stdout(io.StringIO()):
        cfg.reporters = []
        cfg.setup_reporters()
    return cfg


def flag_args(stop=False, dry_run=False, show_skipped=True):
    args = ["-f", "null"]
    if stop:
        args.append("--stop")
    if dry_run:
        args.append("--dry-run")
    if not show_skipped:
        args.append("--no-skipped")
    return args


def run2(trees, args=(), raise_at=(), raise_exc=RuntimeError, on_step=None, cafs=False,
         second_run=None, hooks=True):
    """Real run.  Returns a runlib.Observation with .failed, .exception, .rec (calls, hooks,
    events), .features, .runner.  ``second_run``: callable(obs) invoked after the first run;
    then ``runner.run()`` is called again on the same runner and model, the results of the
    second run are stored in obs.failed2 / obs.exception2 and the recorder keeps counting
    (obs.first = {"calls": n, "hooks": n, "events": n} marks where the second run starts)."""
    rec = rl.Recorder()
    rec.raise_at = set(raise_at)
    rec.raise_exc = raise_exc
    rec.on_step = on_step
    config = get_config(args or ["-f", "null"])
    texts = [render(t) for t in trees]
    feats = [parse_feature(text, filename=t.get("filename", "f.feature"))
             for t, text in zip(trees, texts)]
    if cafs:
        for f in feats:
            for kind, el in rl.walk_model(f):
                if kind == "scenario":
                    el.continue_after_failed_step = True
    runner = ModelRunner(config, feats, step_registry=make_registry2(rec))
    if hooks:
        runner.hooks = rl.make_hooks(rec) if hooks is True else hooks
    runner.formatters = [rl.RecordingFormatter(rec)]
    obs = rl.Observation()
    obs.exception = obs.exception2 = None
    obs.failed2 = None
    out = io.StringIO()
    with contextlib.redirect_stdout(out):
        try:
            obs.failed = runner.run()
        except BaseException as e:      # noqa  (nothing may escape a run)
            obs.failed = None
            obs.exception = e
        if second_run is not None:
            obs.first = {"calls": len(rec.calls), "hooks": len(rec.hooks), "events": len(rec.events)}
            obs.first_status = observe_raw(feats)
            second_run(obs)
            try:
                obs.failed2 = runner.run()
            except BaseException as e:  # noqa
                obs.exception2 = e
    obs.rec = rec
    obs.runner = runner
    obs.features = feats
    obs.config = config
    obs.stdout = out.getvalue()
    obs.texts = texts
    return obs


def _walk_model_depth(feature):
    """(kind, depth, element) in document order; depth = nesting level below the feature."""
    from behave.model import Rule, ScenarioOutline
    yield ("feature", 0, feature)

    def rec(items, depth):
        for it in items:
            if isinstance(it, Rule):
                yield ("rule", depth, it)
                for x in rec(it.run_items, depth + 1):
                    yield x
            elif isinstance(it, ScenarioOutline):
                yield ("outline", depth, it)
                for sc in it.scenarios:
                    yield ("scenario", depth + 1, sc)
            else:
                yield ("scenario", depth, it)
    for x in rec(feature.run_items, 1):
        yield x


def observe_raw(feats):
    """[(kind, depth, name, status name, [step status names] or None)] per feature, document order."""
    out = []
    for f in feats:
        rows = []
        for kind, depth, el in _walk_model_depth(f):
            steps = [s.status.name for s in el.all_steps] if kind == "scenario" else None
            rows.append((kind, depth, el.name, el.status.name, steps))
        out.append(rows)
    return out


def observe(feats, interp, raw=None):
    """{key: {"status": name, "steps": [names] or None}} keyed like the spec view; raises
    ValueError when the parsed model has a different shape than the spec view."""
    raw = raw if raw is not None else observe_raw(feats)
    res = {}
    if len(raw) != len(interp.feats):
        raise ValueError("number of features differs")
    for rows, fnode in zip(raw, interp.feats):
        nodes = list(walk(fnode))
        real_shape = [(k, d, n) for k, d, n, _, _ in rows]
        spec_shape = [(x.kind, len(x.ancestors()), x.name) for x in nodes]
        if real_shape != spec_shape:
            raise ValueError("model shape differs: real %r, spec %r" % (real_shape, spec_shape))
        for (kind, _, name, status, steps), node in zip(rows, nodes):
            res[node.key] = {"status": status, "steps": steps}
    return res


def calls2(rec, start=0, end=None):
    return [(c[0], c[1]) for c in rec.calls[start:end]]


def compare_steps(interp, seen):
    """Mismatches between expected step-status sets and the observed model."""
    bad = []
    for s in interp.scen_nodes():
        exp = interp.res[s.key]["steps"]
        if exp is None:
            continue
        got = seen[s.key]["steps"]
        if len(got) != len(exp):
            bad.append("%s: %d steps, expected %d" % (s.name, len(got), len(exp)))
            continue
        for i, (g, e) in enumerate(zip(got, exp)):
            if g not in e:
                bad.append("%s step %d (%s): status %s, expected %s" % (
                    s.name, i, s.steps[i][0], g, "/".join(sorted(e))))
    return bad


def short(x, n=600):
    s = str(x)
    return s if len(s) <= n else s[:n] + "..."
