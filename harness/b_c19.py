# -*- coding: utf-8 -*-
"""
harness.b_c19 -- bounded stand-ins (kind B) for property C19:
"Active tags exclude exactly by the documented per-category logic"
(behave/tag_matcher.py).

Every expected value is computed by the spec functions of this module (a
hand-written tag-schema parser without regular expressions and a Boolean
evaluator of the documented rule); no second behave function is consulted.

Documented rule (property text, ActiveTagMatcher docstring,
docs/new_and_noteworthy_v1.2.5.rst "Active Tag Logic",
features/tags.active_tags.feature "unknown categories"):

  active tag   := {prefix}.with_{category}{sep}{value}
                  prefix in tag_prefixes (default use/not/active/not_active/only),
                  category = word(.word)*, sep = value_separator (default "=")
  negated      := prefix starts with "not"
  excluded     := exists category c KNOWN to the value provider:
                      (c has positive tags and none matches current(c))
                      or (some negative tag of c matches current(c))
  unknown category, ignore_unknown_categories=True (default): never excludes
  unknown category, ignore_unknown_categories=False: "the active tag is disabled":
      nothing matches, so the category excludes iff it has a positive tag
  should_run_with == not should_exclude_with
  CompositeTagMatcher excludes iff any member excludes.
"""
from __future__ import print_function
import itertools
import logging
import operator

from harness.bounded import BoundedCheck          # noqa: F401 (sets sys.path to $VERIF_REPO)

from behave._types import Unknown
from behave.tag_matcher import (
    ActiveTagMatcher, ActiveTagValueProvider, BoolValueObject,
    CompositeActiveTagValueProvider, CompositeTagMatcher, NumberValueObject,
    PredicateTagMatcher, ValueObject)

# -- type-conversion errors are logged by behave with logger.error(); keep stderr quiet.
_LOG = logging.getLogger("behave.active_tags")
_LOG.addHandler(logging.NullHandler())
_LOG.propagate = False

DOC_PREFIXES = ["use", "not", "active", "not_active", "only"]


# =============================================================================
# SPEC (oracle) -- independent of behave
# =============================================================================
def _is_word_char(ch):
    return ch == "_" or ch.isalnum()


def _valid_category(cat):
    parts = cat.split(".")
    return all(p and all(_is_word_char(ch) for ch in p) for p in parts)


def spec_parse(tag, prefixes=None, sep=None):
    """(prefix, category, value) if `tag` is an active tag, else None.
    Only meaningful for separators whose first character is neither a word
    character nor a dot (then the category is the maximal word/dot run)."""
    if prefixes is None:
        prefixes = DOC_PREFIXES
    if sep is None:
        sep = "="
    if "\n" in tag:
        return None
    for prefix in prefixes:
        head = prefix + ".with_"
        if not tag.startswith(head):
            continue
        rest = tag[len(head):]
        i = 0
        while i < len(rest) and (_is_word_char(rest[i]) or rest[i] == "."):
            i += 1
        cat = rest[:i]
        if not _valid_category(cat):
            continue
        if not rest[i:].startswith(sep):
            continue
        return (prefix, cat, rest[i + len(sep):])
    return None


def spec_negated(prefix):
    # docs: "A negated active tag (starting with "not")"
    return prefix.startswith("not")


def spec_groups(tags, prefixes=None, sep=None):
    """[(category, [(tag, (prefix, category, value)), ...]), ...] by first occurrence."""
    order = []
    groups = {}
    for tag in tags:
        parsed = spec_parse(tag, prefixes, sep)
        if parsed is None:
            continue
        cat = parsed[1]
        if cat not in groups:
            groups[cat] = []
            order.append(cat)
        groups[cat].append((tag, parsed))
    return [(cat, groups[cat]) for cat in order]


_MISSING = object()


def spec_exclude(tags, lookup, match, ignore_unknown=True, prefixes=None, sep=None):
    """lookup(category) -> current value or _MISSING; match(category, current, tag_value) -> bool."""
    for cat, pairs in spec_groups(tags, prefixes, sep):
        current = lookup(cat)
        if current is _MISSING:
            if ignore_unknown:
                continue
            matcher = lambda tag_value: False          # noqa: E731  "the active tag is disabled"
        else:
            matcher = lambda tag_value, _c=cat, _v=current: match(_c, _v, tag_value)   # noqa: E731
        pos = [matcher(p[2]) for _t, p in pairs if not spec_negated(p[0])]
        neg = [matcher(p[2]) for _t, p in pairs if spec_negated(p[0])]
        if pos and not any(pos):
            return True
        if any(neg):
            return True
    return False


def spec_int(text):
    """Decimal integer literal (optional sign, ASCII digits) or None when malformed."""
    body = text[1:] if text[:1] in ("+", "-") else text
    if not body or any(ch not in "0123456789" for ch in body):
        return None
    value = 0
    for ch in body:
        value = value * 10 + "0123456789".index(ch)
    return -value if text[:1] == "-" else value


BOOL_TRUE = ("true", "yes", "on")
BOOL_FALSE = ("false", "no", "off")


def spec_bool(text):
    low = text.lower()
    if low in BOOL_TRUE:
        return True
    if low in BOOL_FALSE:
        return False
    return None


def _observe(matcher, tags):
    """(exclude, run) as observed, or an error text."""
    try:
        ex = matcher.should_exclude_with(list(tags))
        rn = matcher.should_run_with(list(tags))
    except Exception as e:      # pylint: disable=broad-except
        return "raised %s: %s" % (e.__class__.__name__, e)
    return (ex, rn)


def _verdict(observed, expected):
    if not isinstance(observed, tuple):
        return False, "%s; expected exclude=%s" % (observed, expected)
    ex, rn = observed
    ok = (ex is expected) and (rn is (not expected))
    return ok, "should_exclude_with=%r should_run_with=%r; expected exclude=%r run=%r" % (
        ex, rn, expected, not expected)


def _sequences(alphabet, max_len):
    for n in range(max_len + 1):
        for seq in itertools.product(alphabet, repeat=n):
            yield seq


# =============================================================================
# CHECK 1: tag schema -- which strings are active tags, with which triple
# =============================================================================
SCHEMA_CONFIGS_QUICK = [
    (None, None),                              # class defaults: both documented schemas + "only", "="
    (None, ":"),
    (["use", "not"], None),                    # schema 1 only
    (["active", "not_active"], "="),           # schema 2 only
    (["require", "not_require"], "=="),
    (["only"], "~"),
]
SCHEMA_CONFIGS_MORE = [
    (list(DOC_PREFIXES), "="),
    (None, ":="),
    (None, "=="),
    (["not_active", "not", "active"], "/"),
    (["use", "not", "only"], ":"),
    (["require", "not_require"], "="),
]

_PFX_QUICK = ["use", "not", "active", "not_active", "only", "require", "not_require",
              "", "Use", "uses", "no", "@use", "not_"]
_PFX_MORE = ["xuse", " use", "not_only", "notactive", "ONLY", "use.not"]
_JOIN_QUICK = [".with_", ".with", "_with_", "."]
_JOIN_MORE = [".With_", ".with_with_", ".with__", ""]
_CAT_QUICK = ["a", "a.b", "a_1.b2.c", "", "a.", ".a", "a..b", "a-b", "9"]
_CAT_MORE = ["_", "a b", "a:b", "A.B", "a.b."]
_SEP_QUICK = ["=", ":", "==", "~", ""]
_SEP_MORE = [":=", "/", " = ", "=:"]
_VAL_QUICK = ["", "v", "v=w", "=", "1.5"]
_VAL_MORE = ["x y", ":v", "~", "use.with_a=b", " v "]


def _schema_candidates(tier):
    pfx, joi, cat, sep, val = _PFX_QUICK, _JOIN_QUICK, _CAT_QUICK, _SEP_QUICK, _VAL_QUICK
    if tier != "quick":
        pfx, joi, cat = pfx + _PFX_MORE, joi + _JOIN_MORE, cat + _CAT_MORE
        sep, val = sep + _SEP_MORE, val + _VAL_MORE
    seen = set()
    for parts in itertools.product(pfx, joi, cat, sep, val):
        tag = "".join(parts)
        if tag not in seen:
            seen.add(tag)
            yield tag


def _check_schema_case(prefixes, sep, tag):
    case = {"prefixes": prefixes, "sep": sep, "tag": tag}
    expected = spec_parse(tag, prefixes, sep)
    try:
        matcher = ActiveTagMatcher({}, tag_prefixes=prefixes, value_separator=sep)
        selected = list(matcher.select_active_tags([tag]))
    except Exception as e:      # pylint: disable=broad-except
        return case, False, "raised %s: %s; expected %r" % (e.__class__.__name__, e, expected)
    if not selected:
        observed = None
    elif len(selected) == 1 and selected[0][0] == tag:
        m = selected[0][1]
        observed = (m.group("prefix"), m.group("category"), m.group("value"))
    else:
        observed = ("?", repr(selected))
    return case, observed == expected, "select_active_tags -> %r; expected %r" % (observed, expected)


def run_schema(tier, rng):
    small = list(_schema_candidates("quick"))
    for prefixes, sep in SCHEMA_CONFIGS_QUICK:
        for tag in small:
            yield _check_schema_case(prefixes, sep, tag)
    if tier != "quick":
        for prefixes, sep in SCHEMA_CONFIGS_MORE:
            for tag in small:
                yield _check_schema_case(prefixes, sep, tag)
        small = set(small)
        large = [tag for tag in _schema_candidates(tier) if tag not in small]
        for prefixes, sep in SCHEMA_CONFIGS_QUICK[:2] + SCHEMA_CONFIGS_MORE[1:3]:
            for tag in large:
                yield _check_schema_case(prefixes, sep, tag)


def replay_schema(case):
    return _check_schema_case(case["prefixes"], case["sep"], case["tag"])


# -- separators that happen to be regular-expression operators --------------------------
LITERAL_SEPS = ["|", "+", "?", "$", "("]


def _literal_sep_tags(sep):
    return ["use.with_a%sv" % sep, "not.with_a.b%s" % sep, "use.with_a", "use.with_av", "foo"]


def run_sep_literal(tier, rng):
    for sep in LITERAL_SEPS:
        for tag in _literal_sep_tags(sep):
            yield _check_schema_case(None, sep, tag)


# =============================================================================
# CHECK 2: grouping
# =============================================================================
GROUP_ALPHABET = [
    "use.with_os=x", "not.with_os=y", "active.with_b.name=x", "not_active.with_b.name=x",
    "only.with_zz=1", "wip", "use.with_os",
]


def _check_grouping_case(tags):
    case = {"tags": list(tags)}
    expected = [(cat, [(t, p) for t, p in pairs]) for cat, pairs in spec_groups(tags)]
    try:
        matcher = ActiveTagMatcher({"os": "x"})
        groups = list(matcher.group_active_tags_by_category(list(tags)))
        observed = [(cat, [(t, (m.group("prefix"), m.group("category"), m.group("value")))
                           for t, m in pairs]) for cat, pairs in groups]
    except Exception as e:      # pylint: disable=broad-except
        return case, False, "raised %s: %s" % (e.__class__.__name__, e)
    return case, observed == expected, "groups=%r; expected %r" % (observed, expected)


def run_grouping(tier, rng):
    max_len = 4 if tier == "quick" else 5
    for seq in _sequences(GROUP_ALPHABET, max_len):
        yield _check_grouping_case(seq)


def replay_grouping(case):
    return _check_grouping_case(case["tags"])


# =============================================================================
# CHECK 3: exclusion truth table (plain dict provider, plain string values)
# =============================================================================
TT_CATEGORIES = ["os", "browser.name", "feature_x"]
TT_SCHEMES = [("use", "not"), ("active", "not_active"), ("only", "not")]
TT_ORDINARY = [
    ([], []),
    (["wip"], ["slow"]),
    (["use.with_os", "@use.with_os=q"], ["not.os=x", "with_browser.name=x", "not_with_os=x"]),
]
TT_CURRENT_PATTERNS = [["x", "y", "z"], ["x", "x", "x"]]


def _tt_concrete(seq, scheme):
    pos, neg = TT_SCHEMES[scheme]
    before, after = TT_ORDINARY[scheme]
    tags = list(before)
    for ci, negated, value in seq:
        tags.append("%s.with_%s=%s" % (neg if negated else pos, TT_CATEGORIES[ci], value))
        if after and len(tags) == len(before) + 1:
            tags.append(after[0])
    tags.extend(after[1:])
    return tags


def _check_tt_case(tags, current, ignore_unknown):
    case = {"tags": list(tags), "current": current, "ignore_unknown": ignore_unknown}
    expected = spec_exclude(tags, lambda c: current.get(c, _MISSING), lambda c, v, t: v == t,
                            ignore_unknown=(True if ignore_unknown is None else ignore_unknown))
    matcher = ActiveTagMatcher(dict(current), ignore_unknown_categories=ignore_unknown)
    ok, detail = _verdict(_observe(matcher, tags), expected)
    return case, ok, detail


def run_truth_table(tier, rng):
    values = ["x", "y"] if tier == "quick" else ["x", "y", "z"]
    universe = [(ci, negated, v) for ci in range(3) for negated in (False, True) for v in values]
    configs = []
    for known_mask in range(8):
        for pattern in TT_CURRENT_PATTERNS:
            current = dict((TT_CATEGORIES[i], pattern[i]) for i in range(3) if known_mask & (1 << i))
            for ignore_unknown in (True, False):
                if (current, ignore_unknown) not in configs:
                    configs.append((current, ignore_unknown))
    for seq in _sequences(universe, 3):
        for scheme in range(3):
            tags = _tt_concrete(seq, scheme)
            for current, ignore_unknown in configs:
                yield _check_tt_case(tags, current, ignore_unknown)
    # -- default of ignore_unknown_categories (None -> documented default: ignored); value None as current
    for seq in _sequences(universe[:8], 2):
        tags = _tt_concrete(seq, 0)
        yield _check_tt_case(tags, {"os": "x"}, None)
        yield _check_tt_case(tags, {"os": None, "browser.name": "y"}, None)


def replay_truth_table(case):
    return _check_tt_case(case["tags"], case["current"], case["ignore_unknown"])


# =============================================================================
# CHECK 4: value objects
# =============================================================================
NUM_TAG_VALUES = ["5", "-1", "+5", "05", "10", "0", "", "abc", "5.0", "1e1", "0x5", "5a", "--5", "five"]
BOOL_TAG_VALUES = ["true", "yes", "on", "false", "no", "off", "TRUE", "Yes", "oN", "False", "NO", "Off",
                   "", "1", "0", "maybe", "tru", "y", "t", "enabled", "none"]
STR_TAG_VALUES = ["linux", "Linux", "lin", "win32", ""]
NUM_OPS = {"eq": operator.eq, "ge": operator.ge, "le": operator.le}
CUSTOM_CMP = {
    "contains": lambda cur, tv: tv in cur,
    "startswith": lambda cur, tv: cur.startswith(tv),
    "ci_eq": lambda cur, tv: cur.lower() == tv.lower(),
    "ne": lambda cur, tv: cur != tv,
    "truthy_nonbool": lambda cur, tv: (tv if cur == tv else ""),     # returns str: must be coerced to bool
}


def _make_value(kind, current, lazy):
    """-> (provider value, spec match function(tag_value) -> bool, tag value alphabet)"""
    supplier = (lambda: current) if lazy else current
    if kind == "str":
        return (ValueObject(supplier) if lazy else current), (lambda tv: current == tv), STR_TAG_VALUES
    if kind == "obj_eq":
        return ValueObject(supplier), (lambda tv: current == tv), STR_TAG_VALUES
    if kind.startswith("custom:"):
        fn = CUSTOM_CMP[kind.split(":", 1)[1]]
        return ValueObject(supplier, fn), (lambda tv: bool(fn(current, tv))), STR_TAG_VALUES
    if kind.startswith("num:"):
        op = NUM_OPS[kind.split(":", 1)[1]]

        def num_match(tv):
            number = spec_int(tv)
            return False if number is None else bool(op(current, number))
        return NumberValueObject(supplier, op), num_match, NUM_TAG_VALUES
    if kind == "bool":
        def bool_match(tv):
            flag = spec_bool(tv)
            return False if flag is None else (current == flag)
        return BoolValueObject(supplier), bool_match, BOOL_TAG_VALUES
    raise ValueError(kind)


VALUE_KINDS = (
    [("str", c) for c in ("linux", "")] + [("obj_eq", "linux")] +
    [("custom:%s" % n, "linux") for n in sorted(CUSTOM_CMP)] +
    [("num:%s" % op, c) for op in sorted(NUM_OPS) for c in (-1, 0, 5, 10)] +
    [("bool", True), ("bool", False)]
)


def _check_value_case(kind, current, lazy, tags):
    case = {"kind": kind, "current": current, "lazy": lazy, "tags": list(tags)}
    value, match, _alphabet = _make_value(kind, current, lazy)
    expected = spec_exclude(tags, lambda c: (current if c == "c" else _MISSING),
                            lambda c, v, tv: match(tv))
    matcher = ActiveTagMatcher({"c": value})
    ok, detail = _verdict(_observe(matcher, tags), expected)
    if ok and isinstance(value, ValueObject):
        # -- ValueObject.matches(): exactly the spec's Boolean, as a bool
        for tag in tags:
            parsed = spec_parse(tag)
            if parsed and parsed[1] == "c":
                got = value.matches(parsed[2])
                if got is not match(parsed[2]):
                    return case, False, "matches(%r) -> %r; expected %r" % (parsed[2], got, match(parsed[2]))
    return case, ok, detail


def run_value_objects(tier, rng):
    max_len = 2 if tier == "quick" else 3
    for kind, current in VALUE_KINDS:
        _v, _m, alphabet = _make_value(kind, current, False)
        if tier != "quick" and len(alphabet) > 12:
            # keep the cube bounded: length-3 sequences over a reduced alphabet, length<=2 over the full one
            small = alphabet[:6] + alphabet[12:15]
        else:
            small = alphabet
        universe = ["%s.with_c=%s" % (p, v) for p in ("use", "not") for v in alphabet]
        universe_small = ["%s.with_c=%s" % (p, v) for p in ("only", "not_active") for v in small]
        for lazy in (False, True):
            for seq in _sequences(universe, 2):
                tags = list(seq)
                if len(tags) == 2:
                    tags.insert(1, "wip")
                yield _check_value_case(kind, current, lazy, tags)
            if max_len >= 3:
                for seq in itertools.product(universe_small, repeat=3):
                    yield _check_value_case(kind, current, lazy, list(seq))
    # -- lazy value: evaluated at match time (not at construction), every time
    for case in _lazy_cases():
        yield _check_lazy_case(case)


def replay_value_objects(case):
    if "lazy_script" in case:
        return _check_lazy_case(case)
    return _check_value_case(case["kind"], case["current"], case["lazy"], case["tags"])


def _lazy_cases():
    for cls in ("ValueObject", "NumberValueObject", "BoolValueObject", "provider_callable"):
        for neg in (False, True):
            yield {"lazy_script": cls, "negated": neg}


def _check_lazy_case(case):
    cls, negated = case["lazy_script"], case["negated"]
    cell = {}
    calls = []

    def supplier():
        calls.append(1)
        return cell["v"]
    if cls == "ValueObject":
        seq, tagv, provider = ["a", "b", "a"], "a", {"c": ValueObject(supplier)}
        match = lambda cur: cur == "a"                  # noqa: E731
    elif cls == "NumberValueObject":
        seq, tagv, provider = [3, 7, 5], "5", {"c": NumberValueObject(supplier, operator.ge)}
        match = lambda cur: cur >= 5                    # noqa: E731
    elif cls == "BoolValueObject":
        seq, tagv, provider = [True, False, True], "yes", {"c": BoolValueObject(supplier)}
        match = lambda cur: cur is True                 # noqa: E731
    else:
        seq, tagv, provider = ["a", "b", "a"], "a", ActiveTagValueProvider({"c": supplier})
        match = lambda cur: cur == "a"                  # noqa: E731
    tag = "%s.with_c=%s" % ("not" if negated else "use", tagv)
    matcher = ActiveTagMatcher(provider)
    if calls:
        return case, False, "current value computed at construction time (%d calls)" % len(calls)
    observed, expected = [], []
    try:
        for current in seq:
            cell["v"] = current
            observed.append(matcher.should_exclude_with([tag]))
            expected.append(match(current) if negated else not match(current))
    except Exception as e:      # pylint: disable=broad-except
        return case, False, "raised %s: %s" % (e.__class__.__name__, e)
    return case, observed == expected, "tag %s, current values %r: exclude=%r; expected %r" % (
        tag, seq, observed, expected)


# =============================================================================
# CHECK 5: value providers (ActiveTagValueProvider, CompositeActiveTagValueProvider)
# =============================================================================
PROVIDER_KINDS = ["dict", "atvp", "atvp_lazy", "composite[]", "composite[dict,dict]",
                  "composite[atvp,atvp]", "composite[dict,atvp]", "composite[atvp,dict]",
                  "composite[composite[dict],dict]"]
_P1 = {"a": "x"}
_P2 = {"a": "y", "b": "x"}


def _make_provider(kind):
    """-> (provider, effective mapping by the spec: first provider that knows the category wins)"""
    if kind == "dict":
        return dict(_P1), dict(_P1)
    if kind == "atvp":
        return ActiveTagValueProvider(dict(_P1)), dict(_P1)
    if kind == "atvp_lazy":
        return ActiveTagValueProvider({"a": (lambda: "x")}), dict(_P1)
    if kind == "composite[]":
        return CompositeActiveTagValueProvider(), {}
    effective = {"a": "x", "b": "x"}
    if kind == "composite[dict,dict]":
        return CompositeActiveTagValueProvider([dict(_P1), dict(_P2)]), effective
    if kind == "composite[atvp,atvp]":
        return CompositeActiveTagValueProvider(
            [ActiveTagValueProvider(dict(_P1)), ActiveTagValueProvider(dict(_P2))]), effective
    if kind == "composite[dict,atvp]":
        return CompositeActiveTagValueProvider([dict(_P1), ActiveTagValueProvider(dict(_P2))]), effective
    if kind == "composite[atvp,dict]":
        return CompositeActiveTagValueProvider([ActiveTagValueProvider(dict(_P1)), dict(_P2)]), effective
    if kind == "composite[composite[dict],dict]":
        return CompositeActiveTagValueProvider(
            [CompositeActiveTagValueProvider([dict(_P1)]), dict(_P2)]), effective
    raise ValueError(kind)


PROVIDER_TAGS = ["%s.with_%s=%s" % (p, c, v) for c in ("a", "b", "zz") for p in ("use", "not")
                 for v in ("x", "y")]


def _check_provider_case(kind, tags, ignore_unknown):
    case = {"provider": kind, "tags": list(tags), "ignore_unknown": ignore_unknown}
    provider, effective = _make_provider(kind)
    expected = spec_exclude(tags, lambda c: effective.get(c, _MISSING), lambda c, v, t: v == t,
                            ignore_unknown=ignore_unknown)
    matcher = ActiveTagMatcher(provider, ignore_unknown_categories=ignore_unknown)
    ok, detail = _verdict(_observe(matcher, tags), expected)
    return case, ok, detail


_DEFAULTS = {"None": None, "text": "D", "Unknown": Unknown}


def _show(value):
    if value is Unknown:
        return "<the Unknown sentinel>"
    if isinstance(value, Unknown):
        return "<a new Unknown() instance>"
    return repr(value)


def _check_provider_get(kind, category, default_name):
    """Value-provider protocol (ActiveTagMatcher docstring): get(category, default)
    returns the category value, OR default if the category is unknown."""
    case = {"provider": kind, "get": category, "default": default_name}
    provider, effective = _make_provider(kind)
    default = _DEFAULTS[default_name]
    try:
        got = provider.get(category, default)
    except Exception as e:      # pylint: disable=broad-except
        return case, False, "raised %s: %s" % (e.__class__.__name__, e)
    if category in effective:
        return case, got == effective[category], "get -> %s; expected %r" % (_show(got), effective[category])
    return case, got is default, "get(unknown category, default) -> %s; expected the default %s" % (
        _show(got), _show(default))


CACHE_SCRIPTS = ["first-wins", "cached-after-late-add", "cached-after-source-change",
                 "unknown-then-added", "lazy-reevaluated", "no-relookup"]


class _CountingProvider(object):
    def __init__(self, data):
        self.data = data
        self.lookups = []

    def get(self, category, default=None):
        self.lookups.append(category)
        return self.data.get(category, default)


def _check_cache_script(name):
    case = {"cache_script": name}
    try:
        if name == "first-wins":
            comp = CompositeActiveTagValueProvider([{"a": "1"}, {"a": "2", "b": "3"}, {"b": "4", "c": "5"}])
            got = [comp.get("a"), comp.get("b"), comp.get("c"), comp.get("d"), comp.get("d", "D")]
            want = ["1", "3", "5", None, "D"]
        elif name == "cached-after-late-add":
            p1, p2 = {}, {"a": "x"}
            comp = CompositeActiveTagValueProvider([p1, p2])
            got = [comp.get("a")]
            p1["a"] = "y"
            got.append(comp.get("a"))
            want = ["x", "x"]
        elif name == "cached-after-source-change":
            p1 = {"a": "x"}
            comp = CompositeActiveTagValueProvider([p1])
            got = [comp.get("a")]
            p1["a"] = "y"
            got.append(comp.get("a"))
            want = ["x", "x"]
        elif name == "unknown-then-added":
            p1 = {}
            comp = CompositeActiveTagValueProvider([p1])
            matcher = ActiveTagMatcher(comp)
            got = [comp.get("a"), comp.get("a", "D")]
            p1["a"] = "x"
            got += [comp.get("a"), matcher.should_exclude_with(["use.with_a=y"]),
                    matcher.should_exclude_with(["use.with_a=x"])]
            want = [None, "D", "x", True, False]
        elif name == "lazy-reevaluated":
            counter = []

            def supplier():
                counter.append(1)
                return "v%d" % len(counter)
            comp = CompositeActiveTagValueProvider([{"a": supplier}])
            got = [comp.get("a"), comp.get("a"), comp["a"]]
            want = ["v1", "v2", "v3"]
        elif name == "no-relookup":
            p1, p2 = _CountingProvider({}), _CountingProvider({"a": "x"})
            comp = CompositeActiveTagValueProvider([p1, p2])
            got = [comp.get("a"), comp.get("a"), comp.get("a"), p1.lookups, p2.lookups]
            want = ["x", "x", "x", ["a"], ["a"]]
        else:
            raise ValueError(name)
    except Exception as e:      # pylint: disable=broad-except
        return case, False, "raised %s: %s" % (e.__class__.__name__, e)
    return case, got == want, "observed [%s]; expected %r" % (", ".join(_show(g) for g in got), want)


def run_provider_get(tier, rng):
    for kind in PROVIDER_KINDS:
        for category in ("a", "b", "zz"):
            for default_name in sorted(_DEFAULTS):
                yield _check_provider_get(kind, category, default_name)


def run_provider_cache(tier, rng):
    for name in CACHE_SCRIPTS:
        yield _check_cache_script(name)


def run_providers(tier, rng):
    max_len = 2 if tier == "quick" else 3
    for seq in _sequences(PROVIDER_TAGS, max_len):
        for kind in PROVIDER_KINDS:
            for ignore_unknown in (True, False):
                yield _check_provider_case(kind, seq, ignore_unknown)


def replay_providers(case):
    if "cache_script" in case:
        return _check_cache_script(case["cache_script"])
    if "get" in case:
        return _check_provider_get(case["provider"], case["get"], case["default"])
    return _check_provider_case(case["provider"], case["tags"], case["ignore_unknown"])


# =============================================================================
# CHECK 6: composite matcher
# =============================================================================
MEMBER_POOL = ["active{a=x}", "active{b=x}", "predicate{skip}", "active{a=y}!strict", "predicate{never}"]


def _make_member(name):
    """-> (matcher, spec exclude function(tags))"""
    if name == "active{a=x}":
        cur = {"a": "x"}
        return ActiveTagMatcher(dict(cur)), lambda tags: spec_exclude(
            tags, lambda c: cur.get(c, _MISSING), lambda c, v, t: v == t)
    if name == "active{b=x}":
        cur = {"b": "x"}
        return ActiveTagMatcher(dict(cur)), lambda tags: spec_exclude(
            tags, lambda c: cur.get(c, _MISSING), lambda c, v, t: v == t)
    if name == "active{a=y}!strict":
        cur = {"a": "y"}
        return ActiveTagMatcher(dict(cur), ignore_unknown_categories=False), lambda tags: spec_exclude(
            tags, lambda c: cur.get(c, _MISSING), lambda c, v, t: v == t, ignore_unknown=False)
    if name == "predicate{skip}":
        return PredicateTagMatcher(lambda tags: "skip" in tags), lambda tags: "skip" in tags
    if name == "predicate{never}":
        return PredicateTagMatcher(lambda tags: False), lambda tags: False
    raise ValueError(name)


COMPOSITE_TAGS = ["use.with_a=x", "use.with_a=y", "not.with_a=x", "use.with_b=x", "not.with_b=x",
                  "only.with_zz=1", "skip", "wip"]


def _check_composite_case(members, tags):
    case = {"members": list(members), "tags": list(tags)}
    built = [_make_member(name) for name in members]
    expected = any(spec(list(tags)) for _m, spec in built)
    if members == ["<None>"]:
        matcher, expected = CompositeTagMatcher(None), False
    else:
        matcher = CompositeTagMatcher([m for m, _s in built])
    ok, detail = _verdict(_observe(matcher, tags), expected)
    return case, ok, detail


def run_composite(tier, rng):
    max_members, max_tags = (2, 2) if tier == "quick" else (3, 3)
    tag_seqs = list(_sequences(COMPOSITE_TAGS, max_tags))
    for tags in tag_seqs[:9]:
        case = {"members": ["<None>"], "tags": list(tags)}
        ok, detail = _verdict(_observe(CompositeTagMatcher(None), tags), False)
        yield case, ok, detail
    for members in _sequences(MEMBER_POOL, max_members):
        for tags in tag_seqs:
            yield _check_composite_case(members, tags)


def replay_composite(case):
    if case["members"] == ["<None>"]:
        ok, detail = _verdict(_observe(CompositeTagMatcher(None), case["tags"]), False)
        return case, ok, detail
    return _check_composite_case(case["members"], case["tags"])


# =============================================================================
# CHECK 7: the value providers shipped with behave (behave/active_tag/python*.py)
# =============================================================================
def _shipped_spec():
    """category -> (kind, current) computed from the interpreter, not from behave."""
    import platform
    import sys
    ver = tuple(sys.version_info[:2])
    async_fn = ver >= (3, 5)
    coro_deco = (3, 4) <= ver < (3, 10)
    python = {
        "python2": ("bool", sys.version_info[0] == 2),
        "python3": ("bool", sys.version_info[0] == 3),
        "python.version": ("str", "%d.%d" % ver),
        "python.min_version": ("version_ge", ver),
        "python.max_version": ("version_le", ver),
        "os": ("str", sys.platform.lower()),
        "platform": ("str", sys.platform),
        "python.implementation": ("str", platform.python_implementation().lower()),
        "pypy": ("bool", "__pypy__" in sys.modules),
    }
    feature = {
        "python.feature.coroutine": ("bool", async_fn or coro_deco),
        "python.feature.asyncio.coroutine_decorator": ("bool", coro_deco),
        "python.feature.async_function": ("bool", async_fn),
        "python.feature.async_keyword": ("bool", async_fn),
        "python_has_coroutine": ("bool", async_fn or coro_deco),
        "python_has_asyncio.coroutine_decorator": ("bool", coro_deco),
        "python_has_async_function": ("bool", async_fn),
        "python_has_async_keyword": ("bool", async_fn),
    }
    return {"python": python, "python_feature": feature}


def _spec_version(text):
    parts = text.split(".")
    numbers = [spec_int(p) if p[:1] not in ("+", "-") else None for p in parts]
    return None if any(n is None for n in numbers) else tuple(numbers)


def _shipped_match(kind, current, tag_value):
    if kind == "bool":
        flag = spec_bool(tag_value)
        return False if flag is None else current == flag
    if kind == "str":
        return current == tag_value
    version = _spec_version(tag_value)
    if version is None:
        return False
    return current >= version if kind == "version_ge" else current <= version


def _shipped_values(kind, current):
    if kind == "bool":
        return ["true", "yes", "on", "false", "no", "off", "maybe", ""]
    if kind == "str":
        return [current, current.upper() + "x", ""]
    major, minor = current
    return ["%d.%d" % (major, minor), "%d.%d" % (major, minor + 1), "%d.%d" % (major, max(minor - 1, 0)),
            "2.7", "%d.0" % (major + 1), "%d.x" % major, "", "abc"]


def _check_shipped_case(module, tags):
    case = {"module": module, "tags": list(tags)}
    table = _shipped_spec()[module]
    if module == "python":
        from behave.active_tag.python import ACTIVE_TAG_VALUE_PROVIDER as provider
    else:
        from behave.active_tag.python_feature import ACTIVE_TAG_VALUE_PROVIDER as provider
    if sorted(provider.keys()) != sorted(table):
        return case, False, "categories of the shipped provider %r; spec table %r" % (sorted(provider), sorted(table))
    expected = spec_exclude(tags, lambda c: (table[c] if c in table else _MISSING),
                            lambda c, v, t: _shipped_match(v[0], v[1], t))
    ok, detail = _verdict(_observe(ActiveTagMatcher(provider), tags), expected)
    return case, ok, detail


def run_shipped(tier, rng):
    for module, table in sorted(_shipped_spec().items()):
        for category in sorted(table):
            kind, current = table[category]
            universe = ["%s.with_%s=%s" % (p, category, v) for p in ("use", "not")
                        for v in _shipped_values(kind, current)]
            for seq in _sequences(universe, 2):
                if seq:
                    yield _check_shipped_case(module, seq)
        yield _check_shipped_case(module, [])
        first, second = sorted(table)[0], sorted(table)[-1]
        for tags in (["use.with_%s=zz" % first, "not.with_%s=zz" % second], ["use.with_unknown.category=1"]):
            yield _check_shipped_case(module, tags)


def replay_shipped(case):
    return _check_shipped_case(case["module"], case["tags"])


# =============================================================================
CHECKS = [
    BoundedCheck(
        "tag-schema",
        bound={
            "quick": "6 matcher configurations (class defaults = both documented schemas + only; schema 1 only; "
                     "schema 2 only; custom prefixes require/not_require; separators = : == ~) x all distinct "
                     "strings prefix+joiner+category+separator+value over 13x4x9x5x5 fragments (exhaustive product)",
            "thorough": "12 matcher configurations (adds separators := / and prefix orders) x the quick string set, "
                        "plus 4 configurations (class-default prefixes with = : := ==) x all distinct strings over "
                        "19x8x14x9x10 fragments (exhaustive product)",
        },
        run=run_schema, replay=replay_schema,
        contract="forall tag, prefixes P, separator s (s[0] not a word character or dot): "
                 "ActiveTagMatcher({}, P, s).select_active_tags([tag]) == [(tag, m)] with "
                 "(m.prefix, m.category, m.value) == spec_parse(tag, P, s), or [] when spec_parse is None "
                 "(spec_parse: tag == p + '.with_' + word('.'word)* + s + value for some p in P; no regex used)"),
    BoundedCheck(
        "tag-schema-separator-is-literal",
        bound={"quick": "separators | + ? $ ( (regular-expression operators) x 5 strings each, class-default prefixes",
               "thorough": "same as quick (25 cases)"},
        run=run_sep_literal, replay=replay_schema,
        contract="the value_separator is a literal string (make_category_tag inserts it literally): "
                 "a tag is active iff it reads prefix.with_category<sep>value; constructing the matcher does not raise"),
    BoundedCheck(
        "grouping",
        bound={"quick": "all tag sequences (with repetition) of length <= 4 over 7 tags (2 dotted/plain known "
                        "categories, 1 unknown, pos/neg, all 5 prefixes, 1 ordinary, 1 near miss): 2801",
               "thorough": "length <= 5: 19608"},
        run=run_grouping, replay=replay_grouping,
        contract="list(group_active_tags_by_category(tags)) == [(c, [(tag, match) for the tags of category c in tag "
                 "order]) for c in order of first occurrence]; exactly the tags accepted by spec_parse occur; "
                 "match groups equal the spec triple"),
    BoundedCheck(
        "exclude-truth-table",
        bound={
            "quick": "all sequences of 0..3 active tags over 3 categories x {positive,negative} x values {x,y} "
                     "(1885) x 3 prefix schemes (use/not, active/not_active, only/not; each with its own set of "
                     "ordinary and near-miss tags interleaved) x 8 known-category subsets x 2 current-value "
                     "assignments x ignore_unknown_categories in {True,False}; plus default/None-value cases",
            "thorough": "same with tag values {x,y,z}: 6175 sequences x 3 x 32 configurations",
        },
        run=run_truth_table, replay=replay_truth_table,
        contract="should_exclude_with(tags) is spec_exclude(tags) and should_run_with(tags) is not spec_exclude(tags), "
                 "spec_exclude = exists known category: (has positive tags and none equals current) or (a negative "
                 "tag equals current); unknown categories ignored (ignore_unknown_categories=False: positive tag of "
                 "unknown category excludes, negative does not); ordinary/near-miss tags have no influence"),
    BoundedCheck(
        "value-objects",
        bound={
            "quick": "23 current values (plain str, ValueObject eq, 5 custom compare functions, NumberValueObject "
                     "eq/ge/le x current {-1,0,5,10}, BoolValueObject True/False) x eager/lazy x all sequences of "
                     "<= 2 tags over {use,not} x tag values (14 numeric incl. 8 malformed; 21 boolean spellings "
                     "incl. 9 garbage; 5 strings); 8 lazy re-evaluation scripts",
            "thorough": "adds all 3-tag sequences over {only,not_active} x (reduced: 9) tag values",
        },
        run=run_value_objects, replay=replay_value_objects,
        contract="exclusion follows spec_exclude with match = declared operator(current, converted tag value); "
                 "malformed numeric (not [+-]digits) / boolean (not true/yes/on/false/no/off, any case) tag values "
                 "never match; ValueObject.matches returns exactly that bool; lazy callables are evaluated at match "
                 "time, each time"),
    BoundedCheck(
        "value-provider-get",
        bound={
            "quick": "9 provider shapes (dict, ActiveTagValueProvider eager/lazy, CompositeActiveTagValueProvider "
                     "over 0..2 dict/ATVP/nested members) x get(category in {a,b,unknown}, default in {None,'D',"
                     "the Unknown sentinel used by ActiveTagMatcher}) = 81",
            "thorough": "same as quick (81 cases)",
        },
        run=run_provider_get, replay=replay_providers,
        contract="value-provider protocol (ActiveTagMatcher docstring): get(category, default) == value of the "
                 "first provider that knows the category, else `default` itself"),
    BoundedCheck(
        "composite-provider-cache",
        bound={"quick": "6 scripted histories over CompositeActiveTagValueProvider: first provider wins over 3 "
                        "providers; cached after a later provider gains/changes the category; unknown then added; "
                        "lazy callable re-evaluated; providers not asked again (counting provider)",
               "thorough": "same as quick"},
        run=run_provider_cache, replay=replay_providers,
        contract="a discovered category is cached (later provider changes invisible, providers not asked again), "
                 "unknown ones are not cached; callables are re-evaluated on every access"),
    BoundedCheck(
        "value-provider-matcher",
        bound={
            "quick": "all sequences of <= 2 tags over 12 tags (categories a, b, unknown zz x use/not x values x,y) "
                     "x 9 provider shapes x ignore_unknown_categories in {True,False}: 2826",
            "thorough": "tag sequences of length <= 3: 33930",
        },
        run=run_providers, replay=replay_providers,
        contract="ActiveTagMatcher(provider) over any provider shape decides as spec_exclude over the effective "
                 "mapping (first provider that knows the category wins; unknown categories never exclude unless "
                 "ignore_unknown_categories=False and the tag is positive)"),
    BoundedCheck(
        "shipped-value-providers",
        bound={"quick": "behave.active_tag.python (9 categories) and .python_feature (8 categories): per category "
                        "all sequences of <= 2 tags over {use,not} x 3..8 tag values (truth strings and garbage; "
                        "current/next/previous/other versions and malformed ones; current and other strings)",
               "thorough": "same as quick"},
        run=run_shipped, replay=replay_shipped,
        contract="ActiveTagMatcher(ACTIVE_TAG_VALUE_PROVIDER) decides as spec_exclude with the current values taken "
                 "from sys.version_info / sys.platform / platform.python_implementation(): booleans by truth "
                 "strings, python.min_version by >=, python.max_version by <= on version tuples, malformed values "
                 "never match"),
    BoundedCheck(
        "composite-matcher",
        bound={"quick": "all member lists of length <= 2 over 5 matchers (3 ActiveTagMatcher incl. one strict, 2 "
                        "PredicateTagMatcher) x all tag sequences of length <= 2 over 8 tags; CompositeTagMatcher(None)",
               "thorough": "member lists <= 3 x tag sequences <= 3"},
        run=run_composite, replay=replay_composite,
        contract="CompositeTagMatcher(ms).should_exclude_with(tags) is any(spec_exclude_m(tags) for m in ms); "
                 "should_run_with is its negation"),
]
