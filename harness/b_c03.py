# -*- coding: utf-8 -*-
"""
harness.b_c03 -- bounded stand-in (kind B) for the part of C03 that the contracts on
compute_status() cannot see: the status *cache* (TagAndStatusStatement._cached_status).
The contracts prove that compute_status() is the documented function of the child
statuses; what a user observes is the `.status` property, which keeps a final value
once computed.  "The status ... is the documented function of the statuses of what it
contains" therefore also needs: reading a status while the run is in progress must not
change any status reported after the run.

Check:
  status-read-non-interference   every tree is run twice with the real ModelRunner:
      once with passive hooks, once with hooks that read `.status` of every feature,
      rule, outline and scenario at every hook invocation.  Contract: the final status
      of every element, the return value of run() and the step function calls are the
      same in both runs.
"""
from __future__ import print_function
import itertools

from harness.bounded import BoundedCheck
from harness import runlib
from harness.runlib import step, scenario, outline, rule, feature


def _trees(tier):
    outcomes = ("pass", "fail", "error") if tier == "thorough" else ("pass", "fail")
    for t in runlib.small_trees(max_scenarios=2, outcomes=outcomes, max_steps=2 if tier == "thorough" else 1):
        yield [t]
    # outlines with two / three rows, inside a rule, next to plain scenarios, several examples blocks
    for combo in itertools.product(outcomes, repeat=3):
        rows = [[str(k + 1), o] for k, o in enumerate(combo)]
        ex1 = {"name": "E1", "tags": [], "headings": ["n", "o"], "rows": rows[:2]}
        ex2 = {"name": "E2", "tags": [], "headings": ["n", "o"], "rows": rows[2:]}
        o1 = outline("O", [step("o_<n>", "<o>")], [ex1, ex2])
        yield [feature("F", [o1])]
        yield [feature("F", [scenario("S0", [step("s0", "pass")]), o1])]
        yield [feature("F", [rule("R", [o1]), scenario("S9", [step("s9", combo[0])])])]
    # two features
    for a, b in itertools.product(outcomes, repeat=2):
        yield [feature("F1", [scenario("A", [step("a", a)]), scenario("B", [step("b", b)])], filename="f1.feature"),
               feature("F2", [rule("R", [scenario("C", [step("c", b)]), scenario("D", [step("d", a)])])],
                       filename="f2.feature")]


FLAGS = ([], ["--stop"], ["--tags=not @none"])


def _final(obs):
    out = []
    for f in obs.features:
        for kind, el in runlib.walk_model(f):
            out.append([kind, el.name, el.status.name])
    return out


def _case(case):
    trees, flags = case["trees"], case["flags"]
    args = ["-f", "null"] + list(flags)

    def observer(name, context, args_):
        runner = context._runner
        for f in runner.features:
            for _, el in runlib.walk_model(f):
                el.status        # noqa: a read

    try:
        plain = runlib.run(trees, args=args)
        seen = runlib.run(trees, args=args, hook_extra=observer)
    except Exception as e:      # noqa
        return case, False, "driver: %r" % (e,)
    v = []
    if plain.exception or seen.exception:
        v.append("exception escaped run(): %r / %r" % (plain.exception, seen.exception))
    if plain.failed != seen.failed:
        v.append("run() returned %r, with status reads %r" % (plain.failed, seen.failed))
    if plain.rec.calls != seen.rec.calls:
        v.append("step calls differ: %r / %r" % (plain.rec.calls, seen.rec.calls))
    a, b = _final(plain), _final(seen)
    if a != b:
        diff = [(x, y[2]) for x, y in zip(a, b) if x != y]
        v.append("final statuses differ when hooks read .status during the run: %s"
                 % "; ".join("%s %s: %s, with reads %s" % (x[0], x[1], x[2], y) for x, y in diff[:6]))
    return case, not v, "; ".join(v)


def run_non_interference(tier, rng):
    for trees in _trees(tier):
        for flags in FLAGS:
            yield _case({"trees": trees, "flags": flags})


def replay_non_interference(case):
    return _case(case)


CHECKS = [
    BoundedCheck(
        "status-read-non-interference",
        bound={"quick": "real ModelRunner runs of all feature trees with <= 2 scenarios of 1 step over {pass, fail} "
                        "(plain, with background, inside a rule), two-row outlines, three-row outlines over two Examples "
                        "blocks (alone, after a scenario, inside a rule next to a scenario), two-feature runs; x "
                        "{no flag, --stop, a tag expression selecting everything}; each run twice",
               "thorough": "same over {pass, fail, error} with <= 2 steps per scenario"},
        run=run_non_interference, replay=replay_non_interference,
        contract="final status of every feature/rule/outline/scenario, run() result and step function calls of a run whose "
                 "hooks read .status of every element at every hook invocation == those of the same run with passive hooks"),
]
