# -*- coding: utf-8 -*-
"""
harness.b_c14 -- bounded stand-ins (kind B) for property C14:

    "Summary conservation: every element counted once under its final status"

Subject (real code, imported from $VERIF_REPO):
    behave.reporter.summary.SummaryReporter (V1, the default reporter; its text written by
    ``end()`` in a real ModelRunner run), the output formats v1 / v1A / v1B / v2 / v3 (selected by
    the documented userdata switch ``behave.reporter.summary.output_format`` and called
    directly), behave.reporter.summary.SummaryReporterV2 and behave.summary.SummaryCollector
    (driven by behave.model_visitor.ModelVisitor over the model after the run).

Oracle (written here, from the property text only):
    * ``tree_counts``   -- number of features / rules / scenarios (one per outline row) / steps
      (background steps once per scenario, feature background inherited by rules) computed from
      the *abstract tree* that was rendered to Gherkin; nothing of behave is used.
    * ``census``        -- a direct walk over the model after the run (runlib.walk_model and
      ``scenario.all_steps``): status name of every element, the scenarios whose status is
      ``failed`` and those whose status is error-class (names listed in ERROR_CLASS below, taken
      from the Status documentation: error, hook_error, cleanup_error, undefined, pending).
    * the summary text is parsed back by parsers written here, one per line format.
"""
from __future__ import print_function
import contextlib
import hashlib
import itertools
import json
import re

from harness.bounded import BoundedCheck     # -- sets up sys.path for $VERIF_REPO first.
from harness import runlib as R              # noqa: E402

KINDS = ("feature", "rule", "scenario", "step")
ERROR_CLASS = ("error", "hook_error", "cleanup_error", "undefined", "pending")
FORMATS = ("v1", "v1A", "v1B", "v2", "v3")
FORMAT_KEY = "behave.reporter.summary.output_format"


# =============================================================================
# INPUT SPACE: abstract trees, arguments, hook failures
# =============================================================================
_OUTCOME_BAG = (["pass"] * 10 + ["fail"] * 3 + ["error"] * 2 + ["pending"] * 2 +
                ["undefined"] * 2 + ["skip"] * 2)
_TAGS = ("a", "b", "wip")


def _gen_tags(rng, p=0.35):
    if rng.random() >= p:
        return []
    return sorted(set(rng.choice(_TAGS) for _ in range(rng.choice([1, 1, 2]))))


def _gen_outcome(rng, kbi=False, undefined=True):
    if kbi and rng.random() < 0.04:
        return "kbi"
    o = rng.choice(_OUTCOME_BAG)
    if o == "undefined" and not undefined:
        o = "error"
    return o


def _gen_steps(rng, prefix, kbi, lo=0, hi=3):
    n = rng.choice([lo] + list(range(max(lo, 1), hi + 1)) * 3)
    return [R.step("%s_%d" % (prefix, j + 1), _gen_outcome(rng, kbi), kw=rng.choice(["Given", "When", "Then"]))
            for j in range(n)]


def _gen_background(rng, prefix):
    if rng.random() < 0.6:
        return None
    n = rng.choice([1, 1, 2])
    bag = ["pass"] * 8 + ["fail", "undefined", "error"]
    return [R.step("%sbg%d" % (prefix, j + 1), rng.choice(bag)) for j in range(n)]


def _gen_outline(rng, prefix, kbi):
    steps = []
    if rng.random() < 0.4:
        steps.append(R.step("%s_pre" % prefix, "pass"))
    steps.append(R.step("%s_<n>" % prefix, "<o>", kw="When"))
    if rng.random() < 0.4:
        steps.append(R.step("%s_post" % prefix, "pass", kw="Then"))
    examples = []
    rowno = 0
    for e in range(rng.choice([1, 1, 2])):
        rows = []
        for _ in range(rng.choice([0, 1, 2, 2, 3])):
            rowno += 1
            rows.append([str(rowno), _gen_outcome(rng, kbi, undefined=False)])
        examples.append({"name": "E%d" % (e + 1), "tags": _gen_tags(rng), "headings": ["n", "o"], "rows": rows})
    return R.outline("O%s" % prefix, steps, examples, tags=_gen_tags(rng))


def _gen_items(rng, prefix, kbi, allow_rule, nmax=3):
    items = []
    for k in range(rng.choice([0] + list(range(1, nmax + 1)) * 4)):
        p = "%s%d" % (prefix, k + 1)
        x = rng.random()
        if allow_rule and x < 0.2:
            items.append(R.rule("R%s" % p, _gen_items(rng, p + "r", kbi, False, 2), tags=_gen_tags(rng),
                                background=_gen_background(rng, p)))
        elif x < 0.4:
            items.append(_gen_outline(rng, p, kbi))
        else:
            items.append(R.scenario("S%s" % p, _gen_steps(rng, p, kbi), tags=_gen_tags(rng)))
    # -- Gherkin has no end-of-rule: whatever follows a Rule belongs to it, so rules go last.
    return [it for it in items if it["kind"] != "rule"] + [it for it in items if it["kind"] == "rule"]


def gen_feature(rng, idx, kbi=False):
    """One seeded random abstract feature (runlib tree) named F<idx> in features/f<idx>.feature."""
    p = "f%d" % idx
    return R.feature("F%d" % idx, _gen_items(rng, p + "i", kbi, True), tags=_gen_tags(rng, 0.15),
                     background=_gen_background(rng, p), filename="features/f%d.feature" % idx)


def gen_trees(rng, nmax=3):
    kbi = rng.random() < 0.15
    return [gen_feature(rng, i + 1, kbi) for i in range(min(nmax, rng.choice([1, 1, 2, 2, 3])))]


ARG_VARIANTS = (
    [], [], [], ["--stop"], ["--stop"], ["--dry-run"], ["--tags", "a"], ["--tags", "not a"],
    ["--tags", "a or b"], ["--tags", "not a and not b"], ["--stop", "--tags", "not b"],
    ["--dry-run", "--tags", "not a"], ["--no-skipped", "--tags", "not a"],
)


def _rich_trees():
    """Six fixed trees used for the exhaustive "every single hook invocation raises" family."""
    s = R.step
    ex = [{"name": "E1", "tags": ["a"], "headings": ["n", "o"], "rows": [["1", "pass"], ["2", "fail"]]},
          {"name": "E2", "tags": [], "headings": ["n", "o"], "rows": [["3", "pass"]]}]
    return [
        [R.feature("F1", [R.scenario("S1", [s("1")])], filename="features/f1.feature")],
        [R.feature("F1", [R.scenario("S1", [s("1"), s("2", "fail")], tags=["a"]), R.scenario("S2", [s("3")])],
                   tags=["b"], background=[s("bg")], filename="features/f1.feature")],
        [R.feature("F1", [R.scenario("S0", [s("0")]),
                          R.rule("R1", [R.scenario("S1", [s("1")], tags=["a"]), R.scenario("S2", [s("2", "undefined")])],
                                 tags=["b"], background=[s("rbg")])],
                   background=[s("bg")], filename="features/f1.feature")],
        [R.feature("F1", [R.outline("O1", [s("o_<n>", "<o>")], ex, tags=["b"])], filename="features/f1.feature")],
        [R.feature("F1", [R.scenario("S1", [s("1", "error")])], filename="features/f1.feature"),
         R.feature("F2", [R.scenario("S2", [s("2", "skip"), s("3")]), R.scenario("S3", [s("4", "pending")], tags=["wip"])],
                   filename="features/f2.feature")],
        [R.feature("F1", [R.rule("R1", [R.outline("O1", [s("o_<n>", "<o>")], ex)], background=[s("rbg")]),
                          R.rule("R2", [R.scenario("S9", [])])], filename="features/f1.feature")],
    ]


def _mk_case(trees, args=(), raise_at=(), raise_exc="RuntimeError", fmt=None, reporter="v1", cleanup_ids=()):
    """raise_at: ordinals of hook invocations that raise raise_exc; cleanup_ids: ids of steps that, when
    executed, register a raising cleanup with context.add_cleanup (the scenario's layer)."""
    args = list(args)
    if fmt is not None:
        args = args + ["-D", "%s=%s" % (FORMAT_KEY, fmt)]
    return {"trees": trees, "args": args, "raise_at": sorted(raise_at), "raise_exc": raise_exc,
            "reporter": reporter, "cleanup_ids": sorted(cleanup_ids)}


def _step_ids(trees):
    ids = []

    def walk(items):
        for it in items:
            if it["kind"] == "rule":
                ids.extend(s["id"] for s in it.get("background") or [])
                walk(it["items"])
            elif it["kind"] == "scenario":
                ids.extend(s["id"] for s in it["steps"])
    for t in trees:
        ids.extend(s["id"] for s in t.get("background") or [])
        walk(t["items"])
    return ids


def _hook_calls(case, cache):
    """Number of hook invocations of the case's run without raising hooks."""
    base = dict(case)
    base["raise_at"] = []
    return facts_of(base, cache)["hook_calls"]


def gen_cases(tier, rng, fmt=None, scale=1.0, cache=None):
    """The run family shared by the reporter/collector checks (default format when fmt is None)."""
    thorough = (tier != "quick")
    # -- A: exhaustive small trees x {plain, --stop, --dry-run}
    outcomes = ("pass", "fail", "undefined", "skip") if thorough else ("pass", "fail", "undefined")
    small = list(R.small_trees(max_scenarios=2, outcomes=outcomes, max_steps=2 if thorough else 1)) + \
        (list(R.small_trees(max_scenarios=1, outcomes=("pass", "fail"), max_steps=2)) if not thorough else [])
    stride = 1 if scale >= 1.0 else int(round(1.0 / scale))
    for i, t in enumerate(small):
        if i % stride:
            continue
        for args in ([], ["--stop"], ["--dry-run"]):
            yield _mk_case([t], args, fmt=fmt)
    # -- B: fixed rich trees, every single hook invocation raising (RuntimeError / AssertionError alternating)
    for ti, trees in enumerate(_rich_trees()):
        for args in ([], ["--stop"]) if (thorough and scale >= 1.0) else ([],):
            base = _mk_case(trees, args, fmt=fmt)
            yield base
            n = _hook_calls(base, cache)
            for k in range(n):
                if scale < 1.0 and (k + ti) % stride:
                    continue
                yield _mk_case(trees, args, [k], "AssertionError" if (k + ti) % 3 == 0 else "RuntimeError", fmt=fmt)
    # -- C: seeded random trees / arguments / hook failures
    n_random = int((12000 if thorough else 1000) * scale)
    for _ in range(n_random):
        trees = gen_trees(rng)
        args = list(rng.choice(ARG_VARIANTS))
        cleanup_ids = []
        ids = _step_ids(trees)
        if ids and rng.random() < 0.12:
            cleanup_ids = [rng.choice(ids)]
        case = _mk_case(trees, args, fmt=fmt, cleanup_ids=cleanup_ids)
        x = rng.random()
        if x < 0.5 and "--dry-run" not in args:
            n = _hook_calls(case, cache)
            if n:
                ks = {rng.randrange(n)}
                if x < 0.15:
                    ks.add(rng.randrange(n))
                case = _mk_case(trees, args, ks, rng.choice(["RuntimeError", "RuntimeError", "AssertionError"]),
                                fmt=fmt, cleanup_ids=cleanup_ids)
        yield case


# =============================================================================
# ORACLE: counts from the abstract tree, census of the model
# =============================================================================
def tree_counts(trees):
    n = {"feature": 0, "rule": 0, "scenario": 0, "step": 0}

    def walk(items, nbg):
        for it in items:
            if it["kind"] == "rule":
                n["rule"] += 1
                walk(it["items"], nbg + len(it.get("background") or []))
            elif it["kind"] == "scenario":
                n["scenario"] += 1
                n["step"] += nbg + len(it["steps"])
            else:
                rows = sum(len(ex["rows"]) for ex in it["examples"])
                n["scenario"] += rows
                n["step"] += rows * (nbg + len(it["steps"]))
    for t in trees:
        n["feature"] += 1
        walk(t["items"], len(t.get("background") or []))
    return n


def _ident(scenario):
    return [u"%s" % (scenario.location,), scenario.name]


def census(features):
    counts = dict((k, {}) for k in KINDS)
    hooks = {"on_feature": 0, "on_rule": 0, "on_scenario": 0, "on_step": 0}
    failed, errored = [], []

    def add(kind, el):
        name = el.status.name
        counts[kind][name] = counts[kind].get(name, 0) + 1
        if getattr(el, "hook_failed", False):
            hooks["on_" + kind] += 1
    for f in features:
        for kind, el in R.walk_model(f):
            if kind == "outline":
                continue
            add(kind, el)
            if kind == "scenario":
                for st in el.all_steps:
                    add("step", st)
                if el.status.name == "failed":
                    failed.append(_ident(el))
                elif el.status.name in ERROR_CLASS:
                    errored.append(_ident(el))
    return {"counts": counts, "hooks": hooks, "failed": failed, "errored": errored}


# =============================================================================
# PARSERS for the summary text (written here; one per documented line format)
# =============================================================================
_KIND = r"(feature|rule|scenario|step)s?"
_LINE_RE = {
    "v1": re.compile(r"^(\d+) %s passed((?:, \d+ \w+)*)$" % _KIND),
    "v1B": re.compile(r"^(\d+) %s passed, ((?:\d+ \w+(?:, )?)*)$" % _KIND),
    "v1A": re.compile(r"^(\d+) %s, ((?:\d+ \w+(?:, )?)*)$" % _KIND),
    "v2": re.compile(r"^(\d+) %s \(((?:\w+: \d+(?:, )?)*)\)$" % _KIND),
    "v3": re.compile(r"^ *(\d+) %s *\(((?:\w+: \d+(?:, )?)*)\)$" % _KIND),
}
_ANY_COUNT_LINE = re.compile(r"^ *\d+ %s\b" % _KIND)


def parse_count_line(fmt, line):
    """-> {"kind", "total" (None if the format prints none), "counts": {status name: n}} or None."""
    m = _LINE_RE[fmt].match(line)
    if not m:
        return None
    lead, kind, rest = int(m.group(1)), m.group(2), m.group(3)
    counts, total = {}, None
    parts = [p for p in rest.split(", ") if p]
    if fmt in ("v1", "v1B"):
        counts["passed"] = lead
    else:
        total = lead
    for p in parts:
        if fmt in ("v2", "v3"):
            name, num = p.split(": ")
        else:
            num, name = p.split(" ")
        if name in counts:
            return None
        counts[name] = int(num)
    return {"kind": kind, "total": total, "counts": counts}


def split_summary_text(stdout):
    """The tail of the run's stdout written by SummaryReporter.end():
    -> (count lines, {"Failing": [[location, name]..], "Errored": [...]}) or None."""
    lines = stdout.split("\n")
    took = [i for i, l in enumerate(lines) if l.startswith("Took ")]
    if not took:
        return None
    end = took[-1]
    start = end
    while start > 0 and _ANY_COUNT_LINE.match(lines[start - 1]):
        start -= 1
    count_lines = lines[start:end]
    lists = {"Failing": [], "Errored": []}
    pos = start - 1
    if pos >= 0 and lines[pos] == "":
        pos -= 1
        while pos >= 0:
            entries = []
            while pos >= 0 and lines[pos].startswith("  "):
                entries.append(lines[pos])
                pos -= 1
            if entries and pos >= 0 and lines[pos] in ("Failing scenarios:", "Errored scenarios:"):
                kind = lines[pos].split(" ")[0]
                if lists[kind]:
                    break
                for e in reversed(entries):
                    loc, _, name = e[2:].partition("  ")
                    lists[kind].append([loc, name])
                pos -= 1
                if pos >= 0 and lines[pos] == "":
                    pos -= 1
                    continue
            break
    return count_lines, lists


# =============================================================================
# FACTS of one real run (memoised: several checks read the same run)
# =============================================================================
_FACTS = {}
_EXC = {"RuntimeError": RuntimeError, "AssertionError": AssertionError}


def _case_fmt(case):
    fmt = "v1" if case.get("reporter", "v1") == "v1" else "v1B"      # documented class defaults
    for a in case["args"]:
        if a.startswith(FORMAT_KEY + "="):
            fmt = a.split("=", 1)[1]
    return fmt


@contextlib.contextmanager
def _reporter_class(which):
    """Select the summary reporter class that Configuration.setup_reporters instantiates."""
    if which == "v1":
        yield
        return
    import behave.configuration as C
    from behave.reporter.summary import SummaryReporterV2
    saved = C.SummaryReporter
    C.SummaryReporter = SummaryReporterV2
    try:
        yield
    finally:
        C.SummaryReporter = saved


def compute_facts(case):
    from behave.summary import SummaryCollector
    trees = case["trees"]
    cleanup_ids = set(case.get("cleanup_ids") or ())

    def on_step(context, sid, outcome):
        if sid in cleanup_ids:
            def failing_cleanup():
                raise RuntimeError("cleanup of step %s raises" % sid)
            context.add_cleanup(failing_cleanup)
    with _reporter_class(case.get("reporter", "v1")):
        obs = R.run(trees, list(case["args"]) + ["-f", "null"], raise_at=case.get("raise_at", ()),
                    raise_exc=_EXC[case.get("raise_exc", "RuntimeError")], record_events=False,
                    on_step=on_step if cleanup_ids else None)
    facts = {"exception": None if obs.exception is None else repr(obs.exception),
             "hook_calls": obs.rec.hook_call_no,
             "expected": tree_counts(trees),
             "census": census(obs.features),
             "fmt": _case_fmt(case),
             "text": None, "tables": None, "collector": None}
    split = split_summary_text(obs.stdout)
    if split is not None:
        facts["text"] = {"lines": split[0], "lists": split[1]}
    # -- V1 reporter tables (secondary observation point)
    for rep in obs.config.reporters:
        if hasattr(rep, "feature_summary") and hasattr(rep, "step_summary"):
            facts["tables"] = {"feature": dict(rep.feature_summary), "rule": dict(rep.rule_summary),
                               "scenario": dict(rep.scenario_summary), "step": dict(rep.step_summary)}
    # -- the collector, driven over the model after the run
    try:
        col = SummaryCollector()
        col.visit_many(obs.features)
        sc = col.summary_counts
        facts["collector"] = {
            "counts": dict((k, dict((st.name, n) for st, n in getattr(sc, k + "s").items() if n)) for k in KINDS),
            "all": dict((k, getattr(sc, k + "s").all) for k in KINDS),
            "hooks": dict((k, sc.hook_errors[k]) for k in ("on_feature", "on_rule", "on_scenario", "on_step")),
            "failed": [_ident(s) for s in col.failed_scenarios],
            "errored": [_ident(s) for s in col.errored_scenarios],
            "error": None}
    except Exception as e:      # noqa
        facts["collector"] = {"error": repr(e)}
    return facts


def facts_of(case, cache=None):
    cache = _FACTS if cache is None else cache
    key = hashlib.sha1(json.dumps(case, sort_keys=True).encode("utf-8")).hexdigest()
    if key not in cache:
        if len(cache) > 60000:
            cache.clear()
        cache[key] = compute_facts(case)
    return cache[key]


# =============================================================================
# CONTRACTS
# =============================================================================
def _nonzero(d):
    return dict((k, v) for k, v in d.items() if v and k != "all")


def verdict_reporter_text(facts):
    """Counts, sums and the two scenario lists printed by the reporter's end()."""
    if facts["exception"]:
        return False, "run raised %s" % facts["exception"]
    if facts["text"] is None:
        return False, "no summary text found in the run's output"
    fmt, exp, cen = facts["fmt"], facts["expected"], facts["census"]
    seen = {}
    for line in facts["text"]["lines"]:
        p = parse_count_line(fmt, line)
        if p is None or p["kind"] in seen:
            return False, "summary line %r is not a %s line (or repeated)" % (line, fmt)
        seen[p["kind"]] = p
    problems = []
    for kind in KINDS:
        want = _nonzero(cen["counts"][kind])
        if sum(want.values()) != exp[kind]:
            problems.append("census of %ss %r does not add up to the %d elements of the tree" % (kind, want, exp[kind]))
        if kind not in seen:
            if kind == "rule" and exp["rule"] == 0:
                continue
            problems.append("no %s line printed" % kind)
            continue
        got = seen[kind]
        if _nonzero(got["counts"]) != want:
            problems.append("%s line prints %r, census %r" % (kind, got["counts"], want))
        if got["total"] is not None and got["total"] != exp[kind]:
            problems.append("%s line total %d, elements %d" % (kind, got["total"], exp[kind]))
        if sum(got["counts"].values()) != exp[kind]:
            problems.append("%s line numbers add up to %d, elements %d" % (kind, sum(got["counts"].values()), exp[kind]))
    if facts["text"]["lists"]["Failing"] != cen["failed"]:
        problems.append("Failing scenarios listed %r, scenarios with status failed %r"
                        % (facts["text"]["lists"]["Failing"], cen["failed"]))
    if facts["text"]["lists"]["Errored"] != cen["errored"]:
        problems.append("Errored scenarios listed %r, scenarios with error-class status %r"
                        % (facts["text"]["lists"]["Errored"], cen["errored"]))
    if facts["tables"] is not None:
        for kind in KINDS:
            tab = facts["tables"][kind]
            if _nonzero(tab) != _nonzero(cen["counts"][kind]) or tab.get("all") != exp[kind]:
                problems.append("reporter table %s_summary %r, census %r, elements %d"
                                % (kind, tab, cen["counts"][kind], exp[kind]))
    return (not problems), ("; ".join(problems) or "ok: " + " | ".join(facts["text"]["lines"]))


def verdict_collector_counts(facts):
    col, exp, cen = facts["collector"], facts["expected"], facts["census"]
    if col.get("error"):
        return False, "SummaryCollector raised %s" % col["error"]
    problems = []
    for kind in KINDS:
        want = _nonzero(cen["counts"][kind])
        if sum(want.values()) != exp[kind]:
            problems.append("census of %ss %r does not add up to the %d elements of the tree" % (kind, want, exp[kind]))
        if col["counts"][kind] != want:
            problems.append("collector %ss %r, census %r" % (kind, col["counts"][kind], want))
        if col["all"][kind] != exp[kind]:
            problems.append("collector %ss.all %d, elements %d" % (kind, col["all"][kind], exp[kind]))
    if col["hooks"] != cen["hooks"]:
        problems.append("collector hook_errors %r, elements with hook_failed %r" % (col["hooks"], cen["hooks"]))
    return (not problems), ("; ".join(problems) or "ok: %r" % (col["counts"],))


def verdict_collector_lists(facts):
    col, cen = facts["collector"], facts["census"]
    if col.get("error"):
        return False, "SummaryCollector raised %s" % col["error"]
    problems = []
    if col["failed"] != cen["failed"]:
        problems.append("collector failed_scenarios %r, scenarios with status failed %r" % (col["failed"], cen["failed"]))
    if col["errored"] != cen["errored"]:
        statuses = sorted(set(cen["counts"]["scenario"]) & set(ERROR_CLASS))
        problems.append("collector errored_scenarios %r, scenarios with error-class status %r (error-class scenario "
                        "statuses present: %s)" % (col["errored"], cen["errored"], statuses))
    return (not problems), ("; ".join(problems) or "ok: failed %r errored %r" % (col["failed"], col["errored"]))


def _runner(verdict, fmt=None, scale=1.0):
    def run(tier, rng):
        # -- the default-format family is shared by three checks (one real run per case, memoised)
        cache = _FACTS if fmt is None else {}
        for case in gen_cases(tier, rng, fmt=fmt, scale=scale, cache=cache):
            ok, detail = verdict(facts_of(case, cache))
            yield case, ok, detail

    def replay(case):
        ok, detail = verdict(compute_facts(case))
        return case, ok, detail
    return run, replay


# -- SummaryReporterV2 (the collector-based reporter) in a real run ---------------------------
def _v2_cases(tier, rng):
    trees = list(R.small_trees(max_scenarios=1, outcomes=("pass", "fail"), max_steps=1))
    for t in trees:
        yield _mk_case([t], [], reporter="v2")
    for trees in _rich_trees():
        yield _mk_case(trees, [], reporter="v2")
        yield _mk_case(trees, [], reporter="v2", fmt="v2")
    for _ in range(200 if tier != "quick" else 30):
        yield _mk_case(gen_trees(rng), list(rng.choice(ARG_VARIANTS)), reporter="v2",
                       fmt=rng.choice([None] + list(FORMATS)))


def run_reporter_v2(tier, rng):
    for case in _v2_cases(tier, rng):
        ok, detail = verdict_reporter_text(facts_of(case))
        yield case, ok, detail


def replay_reporter_v2(case):
    ok, detail = verdict_reporter_text(compute_facts(case))
    return case, ok, detail


# =============================================================================
# The five line formats on count tables with entries in {0, 1, 2, 11}
# =============================================================================
BASE_KEYS = ("passed", "failed", "error", "hook_error", "skipped", "untested")
STEP_KEYS = BASE_KEYS + ("undefined", "untested_undefined", "pending", "pending_warn", "untested_pending")
VALUES = (1, 2, 11)


def _tables():
    """kind, {status name: n > 0}: all-zero, every single status, every pair of statuses."""
    for kind in KINDS:
        keys = STEP_KEYS if kind == "step" else BASE_KEYS
        yield kind, {}
        for k in keys:
            for v in VALUES:
                yield kind, {k: v}
        for k1, k2 in itertools.combinations(keys, 2):
            for v1 in VALUES:
                for v2 in VALUES:
                    yield kind, {k1: v1, k2: v2}


def eval_format(case):
    """case = {"fmt", "kind", "table": {name: n>0}, "as": "dict" | "StatusCounts"}"""
    from behave.reporter import summary as RS
    from behave.summary import StatusCounts
    kind, nz, fmt = case["kind"], case["table"], case["fmt"]
    keys = STEP_KEYS if kind == "step" else BASE_KEYS
    total = sum(nz.values())
    if case["as"] == "dict":
        # -- the shape the V1 reporter hands over: every status name of the kind, plus "all"
        table = dict((k, nz.get(k, 0)) for k in keys)
        table["all"] = total
    else:
        # -- the shape the collector hands over
        table = StatusCounts.from_counts(**nz)
    try:
        text = RS.OUTPUT_FORMAT_MAP[fmt](kind, table)
    except Exception as e:      # noqa
        return case, False, "format_summary_%s raised %r" % (fmt, e)
    if not text.endswith("\n") or "\n" in text[:-1]:
        return case, False, "not one line: %r" % text
    p = parse_count_line(fmt, text[:-1])
    if p is None:
        return case, False, "%r is not a %s line" % (text, fmt)
    problems = []
    if p["kind"] != kind:
        problems.append("kind %r" % p["kind"])
    if _nonzero(p["counts"]) != nz:
        problems.append("prints %r, table %r" % (p["counts"], nz))
    if p["total"] is not None and p["total"] != total:
        problems.append("total %d, sum %d" % (p["total"], total))
    return case, (not problems), ("%r: " % text) + ("; ".join(problems) or "ok")


def _format_runner(fmts, shape):
    def run(tier, rng):
        for fmt in fmts:
            for kind, nz in _tables():
                yield eval_format({"fmt": fmt, "kind": kind, "table": nz, "as": shape})
    return run


# =============================================================================
# CHECKS
# =============================================================================
_FAMILY_Q = ("family A (exhaustive): the 45 trees of runlib.small_trees(<=2 scenarios, 1 step, outcomes pass/fail/"
             "undefined; plain, with feature background, inside a rule with background, 2-row outlines) and the 22 "
             "of small_trees(1 scenario, <=2 steps, pass/fail), each x {no option, --stop, --dry-run}; family B "
             "(exhaustive): 6 fixed rich trees (tags, backgrounds, rule, outline with 2 example tables, 2 features, "
             "skip/pending/@wip, empty scenario) x every single hook invocation of the run raising (RuntimeError, "
             "every third AssertionError); family C (sampled): 1000 seeded random runs: 1-3 features, <=3 items "
             "each among scenario (0-3 steps over pass/fail/error/pending/undefined/skip, in 15% of the runs also "
             "kbi) / outline (1-2 example tables, 0-3 rows) / rule (<=2 items, optional background; rules last), "
             "optional feature background, tags from {a,b,wip}; 13 option sets over --stop, --dry-run, "
             "--no-skipped, --tags {a, not a, a or b, not a and not b, not b}; in half of the non-dry runs 1 "
             "(sometimes 2) hook invocations raise; in 12% one executed step registers a raising cleanup")
_FAMILY_T = ("family A (exhaustive): the 1276 trees of runlib.small_trees(<=2 scenarios, <=2 steps, outcomes pass/"
             "fail/undefined/skip; variants as in quick) x {no option, --stop, --dry-run}; family B (exhaustive): "
             "the 6 fixed rich trees x {no option, --stop} x every single hook invocation raising; family C "
             "(sampled): 12000 seeded random runs drawn as in quick")


def _sub(n_q, n_t):
    return {"quick": "as reporter-text-default but every %d-th case of families A/B and %d random runs, the line "
                     "format selected with -D %s=<fmt>" % (n_q[0], n_q[1], FORMAT_KEY),
            "thorough": "as reporter-text-default (thorough) but every %d-th case of families A/B and %d random "
                        "runs, the line format selected with -D %s=<fmt>" % (n_t[0], n_t[1], FORMAT_KEY)}


_TEXT_CONTRACT = ("real ModelRunner run with the default summary reporter; T = text written by end() (tail of "
                  "stdout), parsed by the harness parser of the format: for each kind k in feature/rule/scenario/"
                  "step: {status: n printed, n > 0} == {status: #elements of kind k with that status in the model "
                  "after the run}, the printed numbers (and the total if the format prints one) add up to the "
                  "number of elements of kind k of the abstract tree (outline rows as scenarios, background steps "
                  "per scenario); a rule line may be absent iff there is no rule; 'Failing scenarios' == "
                  "[(location, name) of scenarios with status failed], 'Errored scenarios' == [... with status in "
                  "error/hook_error/cleanup_error/undefined/pending], in model order; the V1 tables "
                  "feature/rule/scenario/step_summary agree as well; the run raises nothing")

CHECKS = []
_run, _replay = _runner(verdict_reporter_text)
CHECKS.append(BoundedCheck(
    "reporter-text-default", bound={"quick": _FAMILY_Q, "thorough": _FAMILY_T},
    run=_run, replay=_replay, contract=_TEXT_CONTRACT))

for _fmt in FORMATS:
    _run, _replay = _runner(verdict_reporter_text, fmt=_fmt, scale=0.2)
    CHECKS.append(BoundedCheck(
        "reporter-text-%s" % _fmt, bound=_sub((5, 200), (5, 2400)),
        run=_run, replay=_replay,
        contract="format %s selected by userdata %s: %s" % (_fmt, FORMAT_KEY, _TEXT_CONTRACT)))

_run, _replay = _runner(verdict_collector_counts)
CHECKS.append(BoundedCheck(
    "collector-counts", bound={"quick": "the runs of reporter-text-default (quick); " + _FAMILY_Q,
                               "thorough": "the runs of reporter-text-default (thorough); " + _FAMILY_T},
    run=_run, replay=_replay,
    contract="after the real run: c = SummaryCollector(); c.visit_many(features): for each kind k: "
             "{status: n>0 in c.summary_counts.<k>s} == census of the model, <k>s.all == number of elements of "
             "the abstract tree; hook_errors[on_<k>] == #elements of kind k with hook_failed; no exception"))

_run, _replay = _runner(verdict_collector_lists)
CHECKS.append(BoundedCheck(
    "collector-problem-lists", bound={"quick": "the runs of reporter-text-default (quick); " + _FAMILY_Q,
                                      "thorough": "the runs of reporter-text-default (thorough); " + _FAMILY_T},
    run=_run, replay=_replay,
    contract="after the real run: c = SummaryCollector(); c.visit_many(features): c.failed_scenarios == "
             "[scenarios with status failed], c.errored_scenarios == [scenarios with status in error/hook_error/"
             "cleanup_error/undefined/pending], in model order (outline rows as scenarios)"))

CHECKS.append(BoundedCheck(
    "reporter-v2-text",
    bound={"quick": "SummaryReporterV2 (collector-based) installed as the run's summary reporter: 6 one-scenario "
                    "small trees, the 6 fixed rich trees (class default format and v2), 30 seeded random runs "
                    "(13 option sets, format none/v1/v1A/v1B/v2/v3); no raising hooks",
           "thorough": "as quick with 200 seeded random runs"},
    run=run_reporter_v2, replay=replay_reporter_v2,
    contract="with SummaryReporterV2 as config reporter: " + _TEXT_CONTRACT))

for _fmt in FORMATS:
    CHECKS.append(BoundedCheck(
        "format-%s-tables" % _fmt,
        bound={"quick": "format_summary_%s on the V1 reporter's table shape (dict: every status name of the kind "
                        "-> n, 'all' -> sum) for the 4 kinds (6 status names; step: 11): the all-zero table, "
                        "every single status with n in {1,2,11}, every pair of statuses with both in {1,2,11}: "
                        "991 tables, exhaustive" % _fmt,
               "thorough": "same as quick (exhaustive)"},
        run=_format_runner([_fmt], "dict"), replay=eval_format,
        contract="parse(format_summary_%s(kind, table)): the statuses printed with n > 0 and their numbers are "
                 "exactly the non-zero entries of the table; a printed total equals the sum; one line, of the "
                 "kind asked for; hence all five formats print the same numbers" % _fmt))

CHECKS.append(BoundedCheck(
    "format-statuscounts-tables",
    bound={"quick": "all five formats on the collector's table shape (behave.summary.StatusCounts.from_counts) "
                    "for the same 991 tables each: 4955 cases, exhaustive",
           "thorough": "same as quick (exhaustive)"},
    run=_format_runner(FORMATS, "StatusCounts"), replay=eval_format,
    contract="as format-<fmt>-tables, the table being a StatusCounts (what SummaryReporterV2.print_summary "
             "hands to the formats)"))
