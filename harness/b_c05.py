# -*- coding: utf-8 -*-
"""
harness.b_c05 -- bounded stand-ins (kind B) for C05 "Parser error discipline: only
ParserError, with a usable line number".

Two checks, both on the real behave.parser imported from $VERIF_REPO:

robust-texts
    For every text of the enumerated families and every entry point (parse_feature,
    parse_rule, parse_scenario, parse_steps, parse_tags): the call returns, or raises
    behave.parser.ParserError whose ``.line`` is an ``int`` with
    1 <= line <= number of lines of the text.  Anything else (AttributeError,
    KeyError, IndexError, AssertionError, TypeError, ..., or a ParserError with
    line 0 / None / beyond the text) violates the contract.
    Violations are grouped into classes (entry point, exception type, raising source
    line inside behave/parser.py); texts are visited smallest first (see
    robust_items), so the first member of a class is its smallest input: only that
    representative is reported ``ok=False``; later members are counted as evaluated
    and yielded ``ok=True`` with a "duplicate of class ..." detail.  Replaying any
    member on its own (``--case``) reports it as failing.

fault-line
    For valid documents written by the harness writer (which knows the kind of every
    line it writes) exactly one grammar violation of the catalogue is injected as one
    extra line (or by editing one line in place) at every position where the harness
    grammar model says it is a fault; contract: ParserError is raised and ``e.line``
    == the injected line.  Precondition, checked first: the uninjected text is accepted.

The oracle is the property text plus the harness' own line-kind model of the documents
it writes; no behave function is used to compute an expected value.
"""
from __future__ import print_function
import itertools
import logging
import os

from harness.bounded import BoundedCheck          # also puts $VERIF_REPO first on sys.path
from harness import runlib
from behave import parser as bparser

# action_table() logs "Malformed table row" through logging; keep stderr quiet.  The
# arguments of that logging call are still evaluated (that is where F5 lives).
logging.getLogger("behave").addHandler(logging.NullHandler())

ENTRIES = ("parse_feature", "parse_rule", "parse_scenario", "parse_steps", "parse_tags")
_PARSER_PY = os.path.join("behave", "parser.py")
_LINEBREAKS = u"\n\r\x0b\x0c\x1c\x1d\x1e\x85\u2028\u2029"


# =============================================================================
# observation + contract (shared)
# =============================================================================
def nlines(text):
    """Number of lines of a text whose only line separator is LF (spec side)."""
    n = text.count(u"\n")
    if text and not text.endswith(u"\n"):
        n += 1
    return n


def _parser_frame(exc):
    """(lineno, function) of the innermost frame of behave/parser.py in the traceback."""
    tb = exc.__traceback__
    found = (0, "?")
    while tb is not None:
        code = tb.tb_frame.f_code
        if code.co_filename.endswith(_PARSER_PY):
            found = (tb.tb_lineno, code.co_name)
        tb = tb.tb_next
    return found


def observe(entry, text, language=None):
    """Call the entry point; -> (kind, line, (src_lineno, src_func), message)."""
    fn = getattr(bparser, entry)
    try:
        if entry == "parse_tags":
            fn(text)
        elif language is None:
            fn(text)
        else:
            fn(text, language=language)
    except bparser.ParserError as e:
        return ("ParserError", e.line, _parser_frame(e), str(e))
    except Exception as e:      # noqa: the property says nothing else may escape
        return (type(e).__name__, None, _parser_frame(e), repr(e))
    return ("return", None, (0, ""), "")


def judge_robust(entry, text, language=None):
    """-> (ok, detail, class_key)"""
    kind, line, (srcline, srcfunc), msg = observe(entry, text, language)
    if kind == "return":
        return True, "", None
    n = nlines(text)
    if kind == "ParserError":
        if type(line) is int and 1 <= line <= n:
            return True, "", None
        cls = "%s/ParserError.line-out-of-range/parser.py:%d" % (entry, srcline)
        detail = ("ParserError.line == %r, expected an int in 1..%d (text has %d line(s)); raised in "
                  "behave/parser.py:%d (%s); message: %s; class=%s"
                  % (line, n, n, srcline, srcfunc, msg.replace("\n", " | ")[:300], cls))
        return False, detail, cls
    cls = "%s/%s/parser.py:%d" % (entry, kind, srcline)
    detail = ("%s escaped from %s (expected: return or ParserError with 1 <= line <= %d); innermost "
              "frame in behave/parser.py:%d (%s); %s; class=%s"
              % (kind, entry, n, srcline, srcfunc, msg[:300], cls))
    return False, detail, cls


def mk_case(entry, text, language=None):
    case = {"entry": entry, "text": text}
    if language is not None:
        case["language"] = language
    return case


# =============================================================================
# check 1: robustness over texts
# =============================================================================
# -- the line pool ---------------------------------------------------------------
CORE_POOL = [
    u"Feature: F", u"Rule: R", u"Background: B", u"Scenario: S", u"Scenario Outline: O",
    u"Examples: E", u"Given a", u"And b", u"* c",
    u"@t", u"@t x",
    u"| a | b |", u"| 1 |", u"| x",
    u'"""', u"  '''",
    u"# c", u"# language: de", u"# language: zz",
    u"x", u"",
    u"Szenario: S", u"Angenommen a", u"Und b",
]
EXTRA_POOL = [
    u"Funktionalit\xe4t: F", u"Grundlage: B", u"Szenariogrundriss: O", u"Beispiele: E", u"Regel: R",
    u"# language: zh-CN", u"功能: F", u"场景: S", u"假如a", u"而且b",
    u"例子: E",
    u"But d", u"When <p>", u"Then e:", u"given lower", u"Scenarios: E", u"Example: X",
    u"Scenario Template: O", u"Ability: A", u"Feature:", u"Feature", u"Given",
    u"@t1 @t2 # c", u"@", u"|", u"||", u"| a \\| b |", u'""" x',
    u"    indented text", u"\tGiven tab", u"#language:en", u"# language:",
]
FULL_POOL = CORE_POOL + EXTRA_POOL
# pools for the calls with an explicit language= argument (non-feature entry points only
# see other languages that way)
LANG_POOLS = {
    "de": [u"Funktionalit\xe4t: F", u"Regel: R", u"Grundlage: B", u"Szenario: S", u"Szenariogrundriss: O",
           u"Beispiele: E", u"Angenommen a", u"Und b", u"Aber c", u"@t", u"| a | b |", u"| 1 |", u"| x",
           u'"""', u"# c", u"x", u"Scenario: S", u"Given a"],
    "zh-CN": [u"功能: F", u"规则: R", u"背景: B", u"场景: S",
              u"场景大纲: O", u"例子: E", u"假如a", u"而且b",
              u"但是c", u"@t", u"| a | b |", u"| 1 |", u"| x", u'"""', u"# c", u"x",
              u"Scenario: S", u"Given a"],
}
for _l in FULL_POOL + LANG_POOLS["de"] + LANG_POOLS["zh-CN"]:
    assert not any(ch in _l for ch in _LINEBREAKS), _l
assert len(set(CORE_POOL)) == len(CORE_POOL) == 24
assert len(set(FULL_POOL)) == len(FULL_POOL) == 56


def _seqs(pool, maxlen):
    for n in range(1, maxlen + 1):
        for combo in itertools.product(pool, repeat=n):
            yield u"\n".join(combo)


# -- valid documents for the mutation family ------------------------------------------
def rich_tree():
    S, sc, ol, ru, ft = runlib.step, runlib.scenario, runlib.outline, runlib.rule, runlib.feature
    return ft("F", [
        sc("S1", [S(1, kw="Given", table=[["a", "b"], ["1", "2"], ["3", "4"]]),
                  S(2, kw="And", text="doc line 1\n  doc line 2"),
                  S(3, kw="Then")], tags=["s1", "slow"]),
        ol("O1", [S("o_<n>", "<o>", kw="When"), S("o2", kw="But")],
           [{"name": "E1", "tags": ["e1"], "headings": ["n", "o"], "rows": [["1", "pass"], ["2", "pass"]]},
            {"name": "E2", "tags": [], "headings": ["n", "o"], "rows": [["3", "pass"]]}], tags=["o1"]),
        ru("R1", [sc("S2", [S(4, kw="Given"), S(5, kw="When")]),
                  sc("S3", [S(6, kw="Given")], tags=["s3"])],
           tags=["r1"], background=[S("rbg", kw="Given")]),
    ], tags=["f1", "f2"], background=[S("bg", kw="Given")])


DOC_DE = u"""# language: de
@f1
Funktionalit\xe4t: F
  Beschreibung der Funktion
  Grundlage:
    Angenommen ein Schritt
  @s1
  Szenario: S1
    Angenommen ein Schritt mit Tabelle
      | a | b |
      | 1 | 2 |
    Wenn ein Schritt mit Text
      \"\"\"
      Text
      \"\"\"
    Dann ein Schritt
    Und noch ein Schritt
  Szenariogrundriss: O
    Wenn Schritt <n>
    Beispiele: E
      | n |
      | 1 |
  Regel: R
    Szenario: S2
      Angenommen ein Schritt
"""

DOC_STEPS = u"""Given a step with a table
  | a | b |
  | 1 | 2 |
When a step with text
  '''
  some text
  '''
Then a step
And another
* and a star
"""

DOC_SCENARIO = u"""@s1
Scenario: S
  A description line.
  Given a step
    | a |
    | 1 |
  But another
"""


def mutation_docs():
    return [("rich", runlib.render(rich_tree())), ("de", DOC_DE), ("steps", DOC_STEPS),
            ("scenario", DOC_SCENARIO)]


def _join(lines):
    return u"".join(l + u"\n" for l in lines)


def mutations(text, tier, insert_pool):
    """All single-line mutations of a document: delete, duplicate, swap, insert, truncate."""
    lines = text.split(u"\n")
    assert lines[-1] == u""
    lines = lines[:-1]
    n = len(lines)
    for i in range(n):                                   # delete line i
        yield _join(lines[:i] + lines[i + 1:])
    for i in range(n):                                   # duplicate line i
        yield _join(lines[:i + 1] + lines[i:])
    if tier == "quick":                                  # swap
        pairs = [(i, i + 1) for i in range(n - 1)]
    else:
        pairs = [(i, j) for i in range(n) for j in range(i + 1, n)]
    for i, j in pairs:
        l2 = list(lines)
        l2[i], l2[j] = l2[j], l2[i]
        yield _join(l2)
    for i in range(n + 1):                               # insert a pool line before line i
        for ins in insert_pool:
            yield _join(lines[:i] + [ins] + lines[i:])
    for k in range(n):                                   # truncate the document after k lines
        yield _join(lines[:k])
    yield text[:-1]                                      # no final newline
    for i in range(n):                                   # truncate line i (keep a proper prefix)
        L = lines[i]
        cuts = sorted(set([len(L) // 2, max(len(L) - 1, 0)])) if tier == "quick" else range(len(L))
        for c in cuts:
            if c < len(L):
                yield _join(lines[:i] + [L[:c]] + lines[i + 1:])
                if i == n - 1:
                    yield _join(lines[:i]) + L[:c]       # file cut in the middle of its last line


# -- the input space -------------------------------------------------------------
ROBUST_SIZES = {
    "quick": dict(core_len=3, full_len=2, lang_len=2, n_random=3000, rand_len=(5, 12)),
    "thorough": dict(core_len=4, full_len=3, lang_len=3, n_random=50000, rand_len=(5, 16)),
}


def robust_items(tier, rng):
    """Sorted list of (text, language).  Order: fewest lines first; among texts with the same
    number of lines core-pool soups, then full-pool soups, then language= soups, then mutations,
    then random soups; then shorter, then lexicographic.  (Family before length keeps the class
    representatives the same in both tiers.)"""
    sz = ROBUST_SIZES["thorough" if tier == "thorough" else "quick"]
    items = {}

    def put(text, lang, rank):
        key = (text, lang)
        if items.get(key, 99) > rank:
            items[key] = rank

    put(u"", None, 0)
    for t in _seqs(CORE_POOL, sz["core_len"]):
        put(t, None, 0)
    for t in _seqs(FULL_POOL, sz["full_len"]):
        put(t, None, 1)
    for lang in sorted(LANG_POOLS):
        for t in _seqs(LANG_POOLS[lang], sz["lang_len"]):
            put(t, lang, 2)
    docs = mutation_docs()
    for _name, text in docs:
        put(text, None, 3)
        for m in mutations(text, tier, CORE_POOL):
            put(m, None, 3)
    # seeded random longer soups: half uniform over the full pool, half over the pool plus
    # the lines of the valid documents (keeps more of them inside deep parser states)
    doc_lines = sorted(set(l for _n, d in docs for l in d.split(u"\n")))
    lo, hi = sz["rand_len"]
    for k in range(sz["n_random"]):
        n = rng.randint(lo, hi)
        src = FULL_POOL if k % 2 == 0 else FULL_POOL + doc_lines
        put(u"\n".join(rng.choice(src) for _ in range(n)), None, 4)
    return sorted(items, key=lambda it: (it[0].count(u"\n"), items[it], len(it[0]), it[0], it[1] or u""))


def run_robust(tier, rng):
    reps = {}
    for text, lang in robust_items(tier, rng):
        for entry in ENTRIES:
            if lang is not None and entry == "parse_tags":
                continue            # parse_tags() has no language argument
            ok, detail, cls = judge_robust(entry, text, lang)
            case = mk_case(entry, text, lang)
            if ok:
                yield case, True, ""
            elif cls in reps:
                yield case, True, "duplicate of class %s (representative: %r)" % (cls, reps[cls])
            else:
                reps[cls] = case
                yield case, False, detail


def replay_robust(case):
    ok, detail, _cls = judge_robust(case["entry"], case["text"], case.get("language"))
    return case, ok, detail or "contract holds"


# =============================================================================
# check 2: fault localisation
# =============================================================================
HEADERS = ("feature", "rule", "background", "scenario", "outline")
AFTER_STEPS = ("step", "row", "doc-close")


def doc_model(f):
    """Write the tree (a feature, or one rule on its own) as Gherkin; -> list of
    {"kind", "text", ...}, one per line.
    Mirrors runlib.render (checked by the caller); carries what the parser must not be
    asked: the kind of every line, table widths, whether a step precedes a statement."""
    L = []

    def add(kind, text, **kw):
        d = {"kind": kind, "text": text}
        d.update(kw)
        L.append(d)

    def tags(ts, indent):
        if ts:
            add("tags", indent + " ".join("@" + t for t in ts))

    def steps(ss, indent):
        for s in ss:
            add("step", "%s%s %s" % (indent, s["kw"], runlib.step_text(s)))
            if s.get("text") is not None:
                add("doc-open", '%s  """' % indent)
                for line in s["text"].split("\n"):
                    add("doc-text", "%s  %s" % (indent, line))
                add("doc-close", '%s  """' % indent)
            if s.get("table"):
                for row in s["table"]:
                    add("row", "%s  | %s |" % (indent, " | ".join(row)), width=len(row))

    def items(its, indent, pred):
        for it in its:
            tags(it["tags"], indent)
            if it["kind"] == "rule":
                add("rule", "%sRule: %s" % (indent, it["name"]))
                if it.get("background") is not None:
                    add("background", "%s  Background:" % indent, pred=pred)
                    steps(it["background"], indent + "    ")
                items(it["items"], indent + "  ", pred or bool(it.get("background")))
            elif it["kind"] == "scenario":
                add("scenario", "%sScenario: %s" % (indent, it["name"]), pred=pred)
                steps(it["steps"], indent + "  ")
            else:
                add("outline", "%sScenario Outline: %s" % (indent, it["name"]), pred=pred)
                steps(it["steps"], indent + "  ")
                for ex in it["examples"]:
                    tags(ex.get("tags", []), indent + "  ")
                    add("examples", "%s  Examples: %s" % (indent, ex.get("name", "")))
                    add("ex-row", "%s    | %s |" % (indent, " | ".join(ex["headings"])),
                        width=len(ex["headings"]))
                    for row in ex["rows"]:
                        add("ex-row", "%s    | %s |" % (indent, " | ".join(row)), width=len(row))
            add("blank", "")

    if f["kind"] == "rule":
        # stand-alone rule text for parse_rule(): no tag line, nothing of the feature in scope
        items([dict(f, tags=[])], "", False)
        while L and L[-1]["kind"] == "blank":
            L.pop()
        return L
    tags(f["tags"], "")
    add("feature", "Feature: %s" % f["name"])
    if f.get("background") is not None:
        add("background", "  Background:", pred=False)
        steps(f["background"], "    ")
        add("blank", "")
    items(f["items"], "  ", bool(f.get("background")))
    return L


def model_text(L):
    return u"".join(d["text"] + u"\n" for d in L)


def fault_sites(L, entry):
    """(fault kind, line number p, faulty line, mode) for a document model L.
    mode "insert": the new line becomes line p (1-based), everything from the old line p on
    moves down by one;  mode "replace": line p is replaced by the faulty line."""
    n = len(L)
    sub = entry != "parse_feature"          # stand-alone scenario / steps text
    for p in range(1, n + 2):
        before = [d for d in L[:p - 1] if d["kind"] != "blank"]
        after = [d for d in L[p - 1:] if d["kind"] != "blank"]
        prev = before[-1] if before else None
        nxt = after[0] if after else None
        pk = prev["kind"] if prev else None
        nk = nxt["kind"] if nxt else None
        if pk in ("doc-open", "doc-text"):
            continue                        # inside a doc-string every line is text
        heads = [d for d in before if d["kind"] in HEADERS]
        encl = heads[-1]["kind"] if heads else ("scenario" if entry == "parse_steps" else None)
        in_feature = sub or any(d["kind"] == "feature" for d in before)
        # 1. free (non-step) text after steps / after table rows / after a doc-string
        if pk in AFTER_STEPS or pk == "ex-row":
            yield "free-text-after-steps", p, u"this is not a step", "insert"
        # 2. second Feature, 7. Background after steps: wherever only a step, a table row,
        #    a tag line or a new taggable statement may follow
        if in_feature and (pk in AFTER_STEPS or pk in ("ex-row", "tags")):
            yield "second-feature", p, u"Feature: Second", "insert"
            yield "late-background", p, u"Background: Late", "insert"
        # 3. Examples outside a scenario outline
        if in_feature and encl != "outline" and (pk in AFTER_STEPS or pk == "tags"):
            yield "examples-outside-outline", p, u"Examples: Stray", "insert"
        # 4. And/But as first step with no step before it (no background steps in scope)
        first_step_slot = (pk in ("background", "scenario", "outline") and not prev["pred"]) or \
                          (entry == "parse_steps" and prev is None)
        if first_step_slot:
            yield "and-without-predecessor", p, u"And injected step", "insert"
            yield "but-without-predecessor", p, u"But injected step", "insert"
        # 5. table row with the wrong number of cells, after an existing row
        if pk in ("row", "ex-row"):
            w = prev["width"]
            yield "row-more-cells", p, u"| " + u" | ".join([u"x"] * (w + 1)) + u" |", "insert"
            if w >= 2:
                yield "row-fewer-cells", p, u"| " + u" | ".join([u"x"] * (w - 1)) + u" |", "insert"
        # 6. malformed tag token on a tag line, where a tag line is allowed
        if nk in ("tags", "feature", "rule", "scenario", "outline", "examples"):
            yield "malformed-tag", p, u"@inj bad", "insert"
    # -- the same violations made by editing an existing line in place
    for p in range(1, n + 1):
        d = L[p - 1]
        before = [x for x in L[:p - 1] if x["kind"] != "blank"]
        prev = before[-1] if before else None
        pk = prev["kind"] if prev else None
        if d["kind"] == "tags":
            yield "tag-line-bad-token", p, d["text"] + u" bad", "replace"
        if d["kind"] in ("row", "ex-row") and pk == d["kind"]:      # not the heading row
            w = d["width"]
            ind = d["text"][:len(d["text"]) - len(d["text"].lstrip())]
            yield "row-replaced-more-cells", p, ind + u"| " + u" | ".join([u"x"] * (w + 1)) + u" |", "replace"
            if w >= 2:
                yield "row-replaced-fewer-cells", p, ind + u"| " + u" | ".join([u"x"] * (w - 1)) + u" |", "replace"
        if d["kind"] == "step" and ((pk in ("background", "scenario", "outline") and not prev["pred"]) or
                                    (entry == "parse_steps" and prev is None)):
            ind = d["text"][:len(d["text"]) - len(d["text"].lstrip())]
            rest = d["text"].lstrip().split(u" ", 1)[1]
            yield "first-step-keyword-and", p, ind + u"And " + rest, "replace"
            yield "first-step-keyword-but", p, ind + u"But " + rest, "replace"


def fault_trees(tier):
    S, sc, ol, ru, ft = runlib.step, runlib.scenario, runlib.outline, runlib.rule, runlib.feature
    ex1 = {"name": "E1", "tags": ["e1"], "headings": ["n", "o"], "rows": [["1", "pass"], ["2", "pass"]]}
    ex2 = {"name": "E2", "tags": [], "headings": ["n"], "rows": [["3"]]}
    trees = [
        ft("F", [ru("R", [sc("S1", [S(1)])])]),
        ft("F", [sc("S1", [S(1), S(2, kw="When")]), sc("S2", [S(3)], tags=["t"])], tags=["f1"]),
        ft("F", [sc("S1", [S(1, table=[["a", "b"], ["1", "2"], ["3", "4"]]),
                           S(2, kw="And", text="line one\nline two"), S(3, kw="Then")])],
           background=[S("bg")]),
        ft("F", [ol("O", [S("o_<n>", "<o>"), S("o2", kw="But")], [ex1, ex2], tags=["o"]),
                 sc("S2", [S(4, table=[["c"], ["1"]])], tags=["s2", "x"])]),
        ft("F", [ru("R1", [sc("S1", [S(1)]), sc("S2", [S(2), S(3, kw="And")], tags=["t"])],
                    tags=["r1"], background=[S("rbg")]),
                 ru("R2", [sc("S3", [S(4)])])]),
        ft("F", [ru("R", [sc("S1", [S(1)]), ol("O", [S("o_<n>")], [ex2])])], background=[S("bg")]),
        rich_tree(),
    ]
    if tier == "thorough":
        trees.extend(runlib.small_trees(max_scenarios=2, outcomes=("pass",), max_steps=2))
        trees.extend(runlib.small_trees(max_scenarios=1, outcomes=("pass", "fail"), max_steps=2))
        for w in (1, 2, 3):
            tab = [["h%d" % k for k in range(w)], ["v%d" % k for k in range(w)]]
            trees.append(ft("F", [sc("S", [S(1, table=tab), S(2, kw="But", table=tab)])]))
            trees.append(ft("F", [ol("O", [S("o")], [{"name": "", "tags": [], "headings": tab[0],
                                                       "rows": [tab[1], tab[1]]}])]))
    return trees


def fault_docs(tier):
    """(entry, document model): whole features for parse_feature, every rule on its own for
    parse_rule, every plain scenario for parse_scenario and its steps for parse_steps."""
    seen = set()
    for t in fault_trees(tier):
        L = doc_model(t)
        text = model_text(L)
        if text != runlib.render(t):
            raise RuntimeError("harness writer and runlib.render disagree for %r" % (t,))
        if text in seen:
            continue
        seen.add(text)
        yield "parse_feature", L
        for it in t["items"]:
            if it["kind"] == "rule":
                part = doc_model(it)
                key = ("parse_rule", model_text(part))
                if key not in seen:
                    seen.add(key)
                    yield "parse_rule", part
        for i, d in enumerate(L):
            if d["kind"] != "scenario":
                continue
            j = i + 1
            while j < len(L) and L[j]["kind"] in ("step", "row", "doc-open", "doc-text", "doc-close"):
                j += 1
            body = [dict(x) for x in L[i:j]]
            body[0]["pred"] = False         # stand-alone: no background in scope
            for entry, part in (("parse_scenario", body), ("parse_steps", body[1:])):
                key = (entry, model_text(part))
                if key not in seen:
                    seen.add(key)
                    yield entry, part


def judge_fault(entry, text, line):
    kind, eline, (srcline, srcfunc), msg = observe(entry, text)
    if kind == "ParserError" and type(eline) is int and eline == line:
        return True, ""
    if kind == "return":
        got = "no error (text accepted)"
    elif kind == "ParserError":
        got = "ParserError.line == %r (%s)" % (eline, msg.replace("\n", " | ")[:200])
    else:
        got = "%s: %s" % (kind, msg[:200])
    return False, "%s; expected ParserError with line == %d (the injected line); raised in behave/parser.py:%d (%s)" % (
        got, line, srcline, srcfunc)


def judge_valid(entry, text):
    """The uninjected document must be accepted. -> (ok, detail, class_key)"""
    kind, eline, (srcline, srcfunc), msg = observe(entry, text)
    if kind == "return":
        return True, "", None
    cls = "%s/valid-document-rejected/%s/parser.py:%d" % (entry, kind, srcline)
    return False, ("valid document not accepted: %s (line %r) raised in behave/parser.py:%d (%s): %s; class=%s"
                   % (kind, eline, srcline, srcfunc, msg.replace("\n", " | ")[:200], cls)), cls


def run_fault(tier, rng):
    done = set()
    reps = {}
    for entry, L in fault_docs(tier):
        base = model_text(L)
        # the uninjected document is valid: it must be accepted (guards the writer/model and is the
        # precondition of fault localisation; if it fails, the injections into it are not run)
        ok, detail, cls = judge_valid(entry, base)
        case = {"entry": entry, "fault": "none", "line": 0, "text": base}
        if ok:
            yield case, True, ""
        elif cls in reps:
            yield case, True, "duplicate of class %s (representative: %r)" % (cls, reps[cls])
            continue
        else:
            reps[cls] = case
            yield case, False, detail
            continue
        texts = [d["text"] for d in L]
        for fault, p, inj, mode in fault_sites(L, entry):
            rest = texts[p - 1:] if mode == "insert" else texts[p:]
            text = u"".join(l + u"\n" for l in texts[:p - 1] + [inj] + rest)
            key = (entry, text, p)
            if key in done:
                continue
            done.add(key)
            ok, detail = judge_fault(entry, text, p)
            yield {"entry": entry, "fault": fault, "line": p, "text": text}, ok, detail


def replay_fault(case):
    if case["fault"] == "none":
        ok, detail, _cls = judge_valid(case["entry"], case["text"])
        return case, ok, detail or "contract holds"
    ok, detail = judge_fault(case["entry"], case["text"], case["line"])
    return case, ok, detail or "contract holds"


# =============================================================================
_DEDUP = ("Violations are grouped by (entry point, exception type, raising line in behave/parser.py); texts are "
          "visited smallest first (fewest lines; then core-pool soups before full-pool, language=, mutation and "
          "random texts; then shorter; then lexicographic) and only the first = smallest text of a class is "
          "reported ok=False, later members are evaluated and counted but yielded ok=True as duplicates.")

CHECKS = [
    BoundedCheck(
        "robust-texts",
        bound={
            "quick": ("5 entry points (parse_feature/rule/scenario/steps/tags, default language) x [all line sequences "
                      "of <= 3 lines over a 24-line core pool (keyword lines en+de, tags incl. malformed, table rows "
                      "incl. wrong width / missing pipe, both doc-string delimiters, comment, '# language: de|zz', free "
                      "text, empty line) + all sequences of <= 2 lines over the 56-line full pool (adds zh-CN, aliases, "
                      "lower-case/tab/indented/escaped-pipe variants) + all single-line mutations of 4 valid documents "
                      "(rich en feature, de feature, steps text, scenario text): delete, duplicate, swap adjacent, insert "
                      "each core-pool line at each position, cut after k lines, cut each line at 2 points + 3000 seeded "
                      "random soups of 5..12 lines]; plus 4 entry points with language='de' / 'zh-CN' x all sequences "
                      "<= 2 over an 18-line pool each. " + _DEDUP),
            "thorough": ("as quick with: core-pool sequences <= 4 lines, full-pool sequences <= 3 lines, language= "
                         "sequences <= 3 lines, swaps of all line pairs, every proper prefix of every line, 50000 seeded "
                         "random soups of 5..16 lines. " + _DEDUP),
        },
        run=run_robust, replay=replay_robust,
        contract=("forall text, entry in {parse_feature, parse_rule, parse_scenario, parse_steps, parse_tags}: "
                  "entry(text) returns, or raises behave.parser.ParserError e with type(e.line) is int and "
                  "1 <= e.line <= number_of_lines(text); no other exception type escapes")),
    BoundedCheck(
        "fault-line",
        bound={
            "quick": ("7 hand-built feature trees (tags, feature/rule backgrounds, step tables, doc-string, outline with 2 "
                      "Examples, 2 rules) written by the harness writer (= runlib.render, asserted); entry points "
                      "parse_feature on the document, parse_rule on every rule written on its own, parse_scenario / "
                      "parse_steps on every plain scenario / its steps; first the uninjected text must be accepted (if "
                      "not: reported once per (entry, exception type, raising line in parser.py) with the first document, "
                      "further ones counted as duplicates, and no injection is run on that text); then one faulty line "
                      "per case, at EVERY line position where the harness line-kind model says it is a "
                      "fault: free text | 'Feature:' | 'Background:' after a step/table row/doc-string end/examples row "
                      "(the keyword lines also after a tag line); 'Examples:' after steps or a tag line outside an "
                      "outline; 'And'/'But' as first step with no (background) step in scope; a row with width+1 / "
                      "width-1 cells after any table row; '@inj bad' before any tag line or taggable keyword line; and the "
                      "in-place forms: ' bad' appended to every tag line, every non-heading row replaced by a row of "
                      "width+1 / width-1, keyword of such a first step replaced by And / But. "
                      "Positions inside description zones and doc-strings are not faults and are not used."),
            "thorough": ("as quick plus runlib.small_trees(<=2 scenarios, <=2 steps, with background/rule/outline "
                         "variants) and tables / Examples of width 1..3"),
        },
        run=run_fault, replay=replay_fault,
        contract=("requires text == insert_or_replace(write(tree), fault_line, p) and p is a fault position for that fault "
                  "kind; "
                  "ensures entry(text) raises ParserError e with e.line == p")),
]
