# -*- coding: utf-8 -*-
"""
harness.b_c12 -- bounded stand-ins (kind B) for C12, "Hooks: nested order, after-hooks
always paired, hook faults contained" (DESIGN.md 5.12).

Real runs (harness.runs_common.run2) with recording hooks for all 12 hook names; the
k-th hook invocation of a run can be made to raise.

Oracle (own code, from the property text):
  * ``well_nested``: a recogniser for the bracket grammar
        run      := before_all feature* after_all
        X        := before_tag(t1..tn) before_X(name) body after_X(name) after_tag(t1..tn)
        feature body := (rule | scenario)*, rule body := scenario*, scenario body := step*
        step     := before_step(text) after_step(text)
    (tags = the element's own tags in document order, the same sequence behind the after hook);
  * ``runs_common.Interp`` generates the exact expected hook log of a tree (executed features /
    rules = those containing a selected scenario; scenarios = selected ones; steps = the
    executed prefix that has a step definition; nothing in dry-run) and, with fault
    injection, the expected log after a raising hook: the body of an element whose before
    phase raised is dropped, its after hooks (after_X and one after_tag per own tag) still
    run, an element whose hook raised has failed (so --stop stops behind it), before_all
    raising leaves only after_all, everything else continues as without the fault.  The
    property does not say whether the *remaining before hooks* of the same element still run
    after one of them raised; both answers are accepted.
  * the element concerned by a raising hook: before_X/after_X -> X; before_tag/after_tag ->
    the element that carries the tag; before_step/after_step -> the step; *_all -> none.
"""
from __future__ import print_function
import json

from harness.runs_common import (BoundedCheck, Interp, run2, flag_args, tag_args, observe, calls2,
                                 compare_steps, walk, T, NOT, AND, OR, step, scenario, outline, rule,
                                 feature, short)


# -----------------------------------------------------------------------------
# own grammar for fault-free logs
# -----------------------------------------------------------------------------
def well_nested(log):
    """None when the hook log [(name, label)] is a sentence of the bracket grammar, else a
    description of the first violation."""
    n = len(log)

    class Bad(Exception):
        pass

    def at(i):
        if i >= n:
            raise Bad("log ends early at %d" % i)
        return log[i]

    def expect(i, entry):
        if at(i) != entry:
            raise Bad("position %d: %r, expected %r" % (i, log[i], entry))
        return i + 1

    def element(i, allowed):
        tags = []
        while at(i)[0] == "before_tag":
            tags.append(at(i)[1])
            i += 1
        name, label = at(i)
        kind = name[7:] if name.startswith("before_") else None
        if kind not in allowed:
            raise Bad("position %d: %r, expected the before hook of one of %r" % (i, log[i], sorted(allowed)))
        i += 1
        if kind == "scenario":
            while at(i)[0] == "before_step":
                i = expect(i + 1, ("after_step", at(i)[1]))
        else:
            inner = ("rule", "scenario") if kind == "feature" else ("scenario",)
            while at(i)[0] != "after_" + kind:
                i = element(i, inner)
        i = expect(i, ("after_" + kind, label))
        for t in tags:
            i = expect(i, ("after_tag", t))
        return i

    try:
        if not log:
            return None                 # dry-run: no hook at all
        i = expect(0, ("before_all", None))
        while at(i)[0] != "after_all":
            i = element(i, ("feature",))
        i = expect(i, ("after_all", None))
        if i != n:
            raise Bad("entries behind after_all: %r" % (log[i:],))
    except Bad as e:
        return str(e)
    return None


# -----------------------------------------------------------------------------
# trees
# -----------------------------------------------------------------------------
def family(tier):
    """Enumerated family, small trees first: S1 (tags, steps) directly in the feature or in a
    rule; optionally a second scenario S2 (@s2, one passing step) in front of S1 at feature
    level ("before"; only with a rule, it then precedes the rule) or behind S1 in the same
    container ("after")."""
    stag_opts = ([], ["s"], ["s", "s_"])
    for with_rule in (False, True):
        for second in (None, "after", "before"):
            if second == "before" and not with_rule:
                continue
            for ftags in ([], ["f"]):
                for rtags in (([], ["r"], ["r", "r_"]) if with_rule else ([],)):
                    for stags in stag_opts:
                        for steps in (["pass"], ["fail"], ["pass", "fail"]):
                            s1 = scenario("S1", [step("a%d" % i, o) for i, o in enumerate(steps)], stags)
                            s2 = scenario("S2", [step("b0", "pass")], ["s2"])
                            inner = [s1] + ([s2] if second == "after" else [])
                            if with_rule:
                                items = ([s2] if second == "before" else []) + [rule("R", inner, rtags)]
                            else:
                                items = inner
                            yield [feature("F", items, ftags)]


def big_trees():
    t1 = feature("F", [
        scenario("S1", [step("a1", "pass"), step("a2", "pass")], ["s", "s_"]),
        outline("O", [step("o<n>", "pass")],
                [{"name": "E", "tags": ["e"], "headings": ["n"], "rows": [["1"], ["2"]]}], ["o", "t_<n>"]),
        rule("R", [scenario("S2", [step("b1", "pass")], ["s2"]),
                   scenario("S3", [step("c1", "fail"), step("c2", "pass")])], ["r"],
             background=[step("rbg", "pass")]),
    ], ["f"], background=[step("fbg", "pass")])
    t2a = feature("F1", [scenario("S1", [step("a1", "pass")], ["s"])], ["f1"], filename="f1.feature")
    t2b = feature("F2", [rule("R", [scenario("S2", [step("b1", "pass")], ["s2"])], ["r"])], ["f2"],
                  filename="f2.feature")
    t3 = feature("F", [scenario("S1", [step("a1", "pass"), step("a2", "skip"), step("a3", "pass")], ["s"]),
                       scenario("S2", [step("b1", "undefined"), step("b2", "pass")], ["s2"]),
                       scenario("S3", [step("c1", "pass")], ["s3"])], ["f"])
    return [("all-levels", [t1]), ("two-features", [t2a, t2b]), ("skip-undefined", [t3])]


POSITIVE_EXPRS = [None, T("s2"), OR(T("s"), T("e")), T("nothing")]


# -----------------------------------------------------------------------------
# fault-free: nesting
# -----------------------------------------------------------------------------
def eval_nesting(case):
    """case: trees, expr, stop, dry_run"""
    trees, expr = case["trees"], case.get("expr")
    stop, dry = bool(case.get("stop")), bool(case.get("dry_run"))
    args = flag_args(stop, dry) + (tag_args(expr, "v2") if expr is not None else [])
    ip = Interp(trees, expr, stop, dry).run()
    obs = run2(trees, args)
    problems = []
    if obs.exception is not None:
        problems.append("exception escaped run(): %r" % (obs.exception,))
    g = well_nested(obs.rec.hooks)
    if g is not None:
        problems.append("not well nested: " + g)
    if obs.rec.hooks != ip.hook_log():
        problems.append("hook log %r, expected %r" % (obs.rec.hooks, ip.hook_log()))
    if dry and obs.rec.hooks:
        problems.append("hooks called in dry-run")
    ok = not problems
    detail = "%d hook invocations" % len(obs.rec.hooks) if ok else \
        "; ".join(problems[:4]) + "\nargs=%r\n%s" % (args, short("\n".join(obs.texts), 1200))
    return case, ok, detail


def nesting_cases(tier):
    for trees in family(tier):
        for stop, dry in ((False, False), (True, False), (False, True)):
            yield {"trees": trees, "expr": None, "stop": stop, "dry_run": dry}
        yield {"trees": trees, "expr": T("s2"), "stop": False, "dry_run": False}
    for name, trees in big_trees():
        for expr in POSITIVE_EXPRS:
            for stop, dry in ((False, False), (True, False), (False, True)):
                yield {"trees": trees, "expr": expr, "stop": stop, "dry_run": dry}


def run_nesting(tier, rng):
    for case in nesting_cases(tier):
        yield eval_nesting(case)


# -----------------------------------------------------------------------------
# fault injection
# -----------------------------------------------------------------------------
_FF_CACHE = {}


def fault_free(trees, expr, stop):
    key = json.dumps([trees, expr, stop], sort_keys=True)
    hit = _FF_CACHE.get(key)
    if hit is None:
        args = flag_args(stop) + (tag_args(expr, "v2") if expr is not None else [])
        ip0 = Interp(trees, expr, stop).run()
        obs0 = run2(trees, args)
        hit = (ip0, obs0.rec.hooks, observe(obs0.features, ip0), bool(obs0.failed), args)
        if len(_FF_CACHE) > 64:
            _FF_CACHE.clear()
        _FF_CACHE[key] = hit
    return hit


def _node_key(key):
    return key.split("#")[0] if key is not None else None


def eval_fault(case):
    """case: trees, expr, stop, ks (ordinals of the raising hook invocations, counted in the run
    itself), exc"""
    trees, expr, stop = case["trees"], case.get("expr"), bool(case.get("stop"))
    ks = list(case["ks"])
    exc = {"RuntimeError": RuntimeError, "AssertionError": AssertionError}[case.get("exc", "RuntimeError")]
    ip0, hooks0, seen0, failed0, args = fault_free(trees, expr, stop)
    problems = []
    if hooks0 != ip0.hook_log():
        problems.append("fault-free hook log differs from the expected one (see check nesting)")
    obs = run2(trees, args, raise_at=ks, raise_exc=exc)
    if obs.exception is not None:
        problems.append("exception escaped run(): %r" % (obs.exception,))
    cand = [Interp(trees, expr, stop, raise_at=ks, before_continues=bc).run() for bc in (True, False)]
    ip = cand[0]
    for c in cand:
        if c.hook_log() == obs.rec.hooks:
            ip = c
            break
    else:
        d = 0
        want = ip.hook_log()
        while d < min(len(want), len(obs.rec.hooks)) and want[d] == obs.rec.hooks[d]:
            d += 1
        problems.append("hook log differs from the expected one at position %d: got %r, expected %r" % (
            d, obs.rec.hooks[d:d + 6], want[d:d + 6]))
    if len(ip.raised) != len(ks):
        problems.append("only %d of the %d injection points are reached in the expected run" % (len(ip.raised), len(ks)))
    if obs.exception is None and not obs.failed:
        problems.append("run() -> %r although a hook raised" % (obs.failed,))
    got_calls = calls2(obs.rec)
    if got_calls != ip.calls:
        problems.append("call log %r, expected %r" % (got_calls, ip.calls))
    try:
        seen = observe(obs.features, ip)
    except ValueError as e:
        seen = None
        problems.append(str(e))
    if seen is not None:
        problems += compare_steps(ip, seen)
        # -- exactly the elements concerned are hook-error
        got_he = set(k for k, v in seen.items() if v["status"] == "hook_error")
        for k, v in seen.items():
            for i, s in enumerate(v["steps"] or []):
                if s == "hook_error":
                    got_he.add("%s#%d" % (k, i))
        want_he = set(k for k in ip.fault_keys if k is not None)
        if got_he != want_he:
            def nm(keys):
                return sorted("%s %s" % (ip.kind_of(k), ip.nodes[_node_key(k)].name + ("" if "#" not in k else " step " + k.split("#")[1]))
                              for k in keys)
            problems.append("elements with status hook_error: %r, expected %r" % (nm(got_he), nm(want_he)))
        # -- everything outside the ancestry of the failing elements: as without the fault
        order = [n for f in ip.feats for n in walk(f)]
        touched = set()
        first_idx = len(order)
        aborted_by_before_all = any(k is None and ip.hooks[no]["name"] == "before_all"
                                    for k, no in zip(ip.fault_keys, ip.raised))
        for k in ip.fault_keys:
            if k is None:
                continue
            node = ip.nodes[_node_key(k)]
            touched.add(node.key)
            touched.update(a.key for a in node.ancestors())
            touched.update(d.key for d in walk(node))
            first_idx = min(first_idx, order.index(node))
        if not aborted_by_before_all:
            for idx, n in enumerate(order):
                if n.key in touched:
                    continue
                if stop and idx > first_idx:
                    continue        # --stop still stops at the first failure
                if seen[n.key] != seen0[n.key]:
                    problems.append("%s %s (outside the failing element's ancestry): %r, without the fault %r" % (
                        n.kind, n.name, seen[n.key], seen0[n.key]))
    ok = not problems
    where = [(ip0.hooks[k]["name"], ip0.hooks[k]["label"]) for k in ks[:1] if k < len(ip0.hooks)]
    detail = "raising %r: contained" % (where,) if ok else \
        "raising %r (first injection point, fault-free numbering): " % (where,) + "; ".join(problems[:5]) + \
        "\nargs=%r\n%s" % (args, short("\n".join(obs.texts), 1200))
    return case, ok, detail


def is_rule_tag_hook(ip, k):
    h = ip.hooks[k]
    return h["name"] in ("before_tag", "after_tag") and ip.kind_of(h["key"]) == "rule"


def single_cases(tier):
    excs = ["RuntimeError"] if tier == "quick" else ["RuntimeError", "AssertionError"]

    def gen(trees, expr, stop):
        ip0 = Interp(trees, expr, stop).run()
        for k in range(len(ip0.hooks)):
            if is_rule_tag_hook(ip0, k):
                continue                # -> check fault-rule-tag-hook
            for exc in excs:
                yield {"trees": trees, "expr": expr, "stop": stop, "ks": [k], "exc": exc}
    for trees in family(tier):
        two = len(Interp(trees).scen_nodes()) > 1
        for stop in ((False, True) if (two or tier != "quick") else (False,)):
            for c in gen(trees, None, stop):
                yield c
    for name, trees in big_trees():
        for expr in POSITIVE_EXPRS[:3]:
            for stop in (False, True):
                for c in gen(trees, expr, stop):
                    yield c


def run_single(tier, rng):
    for case in single_cases(tier):
        yield eval_fault(case)


def pair_cases(tier):
    if tier == "quick":
        pool = [[feature("F", [scenario("S1", [step("a0", "pass")], ["s"])], ["f"])],
                [feature("F", [scenario("S1", [step("a0", "pass")], ["s"]),
                               scenario("S2", [step("b0", "pass")], ["s2"])], [])]]
        stops = (False,)
    else:
        pool = [t for t in family(tier)][::3] + [trees for _, trees in big_trees()]
        stops = (False, True)
    for trees in pool:
        for stop in stops:
            ip0 = Interp(trees, None, stop).run()
            for k1 in range(len(ip0.hooks)):
                if is_rule_tag_hook(ip0, k1):
                    continue
                ip1 = Interp(trees, None, stop, raise_at=[k1]).run()
                for k2 in range(k1 + 1, len(ip1.hooks)):
                    if is_rule_tag_hook(ip1, k2):
                        continue
                    yield {"trees": trees, "expr": None, "stop": stop, "ks": [k1, k2], "exc": "RuntimeError"}


def run_pairs(tier, rng):
    for case in pair_cases(tier):
        yield eval_fault(case)


def rule_tag_cases():
    """Injection points that are the before_tag / after_tag hook of a *rule* tag (kept apart
    from fault-single: DESIGN 9-F7)."""
    small = [feature("F", [rule("R", [scenario("S1", [step("a0", "pass")])], ["r"])])]
    two = [feature("F", [scenario("S0", [step("z0", "pass")]),
                         rule("R", [scenario("S1", [step("a0", "pass")], ["s"]),
                                    scenario("S2", [step("b0", "fail")])], ["r", "r_"])], ["f"])]
    for trees in (small, two):
        for stop in (False, True):
            ip0 = Interp(trees, None, stop).run()
            for k in range(len(ip0.hooks)):
                if is_rule_tag_hook(ip0, k):
                    yield {"trees": trees, "expr": None, "stop": stop, "ks": [k], "exc": "RuntimeError"}


def run_rule_tag(tier, rng):
    for case in rule_tag_cases():
        yield eval_fault(case)


# -----------------------------------------------------------------------------
# hooks are not called for de-selected elements
# -----------------------------------------------------------------------------
def selection_cases():
    one = [feature("F", [scenario("S1", [step("a0", "pass")], ["s"])])]
    ruled = [feature("F", [scenario("S0", [step("z0", "pass")]),
                           rule("R", [scenario("S1", [step("a0", "pass")], ["s"])], ["r"])], ["f"])]
    two = [feature("F1", [scenario("S1", [step("a0", "pass")], ["s"])], ["f1"], filename="f1.feature"),
           feature("F2", [scenario("S2", [step("b0", "pass")], ["s2"])], ["f2"], filename="f2.feature")]
    out = []
    for trees, exprs in ((one, [T("s"), T("x"), NOT(T("s")), NOT(T("x"))]),
                         (ruled, [T("s"), T("r"), NOT(T("s")), NOT(T("r")), AND(T("f"), NOT(T("s"))), T("x")]),
                         (two, [T("s"), T("f2"), NOT(T("s")), NOT(T("f1")), AND(NOT(T("s")), NOT(T("s2")))])):
        for e in exprs:
            out.append({"trees": trees, "expr": e, "stop": False, "dry_run": False})
    out.append({"trees": ruled, "expr": None, "stop": False, "dry_run": True})
    out.append({"trees": two, "expr": T("s"), "stop": False, "dry_run": True})
    return out


def run_selection(tier, rng):
    for case in selection_cases():
        yield eval_nesting(case)


CHECKS = [
    BoundedCheck(
        "nesting",
        bound={"quick": "family: S1 (tags {none, [s], [s, s_]}, steps {[pass], [fail], [pass, fail]}) in the feature (tags "
                        "{none, [f]}) or in a rule (tags {none, [r], [r, r_]}), optional second scenario S2 @s2 behind "
                        "S1 or in front of the rule (180 trees) x {no flag, --stop, --dry-run, --tags=s2}; plus 3 "
                        "larger trees (all levels tagged incl. outline with parametrised tag, examples, backgrounds; "
                        "two features; skip/undefined steps) x 4 negation-free tag expressions x {no flag, --stop, "
                        "--dry-run}; exhaustive, fault-free",
               "thorough": "as quick"},
        run=run_nesting, replay=eval_nesting,
        contract="the recorded hook log is a sentence of the bracket grammar (own recogniser) and equals the log the "
                 "interpreter generates for the tree (one before_tag/after_tag per own tag in order around "
                 "before_X/after_X; only executed elements; empty in dry-run)"),
    BoundedCheck(
        "fault-single",
        bound={"quick": "the 180 trees of nesting (no tag expression; --stop additionally for trees with two scenarios) "
                        "and the 3 larger trees x {none, s2, s or e} x {no flag, --stop}: EVERY hook invocation k of the "
                        "fault-free run raises RuntimeError, except the tag hooks of a rule's "
                        "own tags (see fault-rule-tag-hook); exhaustive",
               "thorough": "180 trees x {no flag, --stop} and the 3 larger trees as quick: every k (same exception) x "
                           "{RuntimeError, AssertionError}; exhaustive"},
        run=run_single, replay=eval_fault,
        contract="no exception escapes run(); run() is truthy; the hook log equals the interpreter's log for the "
                 "faulted run (body of the element dropped after a raising before hook, after_X and every after_tag "
                 "still called, rest of the run unchanged, --stop stops, before_all leaves only after_all); call log "
                 "likewise; the set of elements/steps with status hook_error == {element concerned}; every element "
                 "outside the concerned element's ancestry has the statuses (own and steps) of the fault-free run "
                 "(with --stop: every element in front of it)"),
    BoundedCheck(
        "fault-rule-tag-hook",
        bound={"quick": "the injection points left out of fault-single/fault-pairs: before_tag / after_tag of a rule's "
                        "own tag; 2 trees (F{Rule R[r]{S1}}; F[f]{S0; Rule R[r, r_]{S1[s]; S2 failing}}) x {no flag, "
                        "--stop} x every such k (2 + 2 + 4 + 4 = 12 cases)",
               "thorough": "as quick"},
        run=run_rule_tag, replay=eval_fault,
        contract="as fault-single; the element concerned by a raising tag hook of a rule is the rule"),
    BoundedCheck(
        "fault-pairs",
        bound={"quick": "2 trees (F[f]{S1[s]} and F{S1[s]; S2[s2]}) x all pairs k1 < k2 of injection points (k2 "
                        "numbered in the run with k1 raising; tag hooks of rule tags excluded); RuntimeError; "
                        "exhaustive",
               "thorough": "every 3rd tree of the family (60) and the 3 larger trees x {no flag, --stop} x all "
                           "pairs k1 < k2; RuntimeError; exhaustive"},
        run=run_pairs, replay=eval_fault,
        contract="as fault-single with two raising invocations"),
    BoundedCheck(
        "hooks-only-for-selected",
        bound={"quick": "3 trees (one scenario; scenario + tagged rule in a tagged feature; two features) x 15 tag "
                        "expressions with and without negation + 2 dry-run cases (17 cases)",
               "thorough": "as quick"},
        run=run_selection, replay=eval_nesting,
        contract="as nesting: no hook of a feature/rule/scenario is called unless it contains/is a selected "
                 "scenario (own evaluator over effective tags); none in dry-run"),
]
