# -*- coding: utf-8 -*-
"""
harness.runlib -- shared builders for bounded stand-ins and replay adapters that
need *real runs* (under /venv/bin/python):

* abstract feature trees (plain dicts) and a Gherkin writer ``render``;
* one generic step definition whose behaviour is encoded in the step text
  (``step <id> <outcome>``), so a tree fully determines the program;
* recording hooks / recording formatter;
* ``run(trees, args)`` -> Observation with verdict, call log, hook log, formatter
  events and the model after the run.

Outcome alphabet (C01/C02): pass, fail (AssertionError), error (RuntimeError),
pending (StepNotImplementedError), undefined (no step definition), skip
(context.scenario.skip()), kbi (KeyboardInterrupt), print (writes markers).
"""
from __future__ import print_function
import contextlib
import io
import itertools
import sys

from behave.api.pending_step import StepNotImplementedError
from behave.configuration import Configuration
from behave.formatter.base import Formatter
from behave.matchers import ParseMatcher
from behave.parser import parse_feature
from behave.runner import ModelRunner
from behave.step_registry import StepRegistry

OUTCOMES = ("pass", "fail", "error", "pending", "undefined", "skip", "kbi")


# -- abstract trees ------------------------------------------------------------
def step(sid, outcome="pass", kw="Given", table=None, text=None):
    return {"kw": kw, "id": str(sid), "outcome": outcome, "table": table, "text": text}


def scenario(name, steps, tags=()):
    return {"kind": "scenario", "name": name, "tags": list(tags), "steps": list(steps)}


def outline(name, steps, examples, tags=()):
    """steps may contain <col> placeholders in their id/outcome; examples:
    [{"name":..., "tags":[...], "headings":[...], "rows":[[...], ...]}]"""
    return {"kind": "outline", "name": name, "tags": list(tags), "steps": list(steps),
            "examples": list(examples)}


def rule(name, items, tags=(), background=None):
    return {"kind": "rule", "name": name, "tags": list(tags), "items": list(items),
            "background": background}


def feature(name, items, tags=(), background=None, filename="f.feature"):
    return {"kind": "feature", "name": name, "tags": list(tags), "items": list(items),
            "background": background, "filename": filename}


def step_text(s):
    if s["outcome"] == "undefined":
        return "an undefined thing %s" % s["id"]
    return "step %s %s" % (s["id"], s["outcome"])


def _render_steps(steps, indent, out):
    for s in steps:
        out.append("%s%s %s" % (indent, s["kw"], step_text(s)))
        if s.get("text") is not None:
            out.append('%s  """' % indent)
            for line in s["text"].split("\n"):
                out.append("%s  %s" % (indent, line))
            out.append('%s  """' % indent)
        if s.get("table"):
            for row in s["table"]:
                out.append("%s  | %s |" % (indent, " | ".join(row)))


def _render_tags(tags, indent, out):
    if tags:
        out.append(indent + " ".join("@" + t for t in tags))


def _render_items(items, indent, out):
    for it in items:
        if it["kind"] == "rule":
            _render_tags(it["tags"], indent, out)
            out.append("%sRule: %s" % (indent, it["name"]))
            if it.get("background") is not None:
                out.append("%s  Background:" % indent)
                _render_steps(it["background"], indent + "    ", out)
            _render_items(it["items"], indent + "  ", out)
        elif it["kind"] == "scenario":
            _render_tags(it["tags"], indent, out)
            out.append("%sScenario: %s" % (indent, it["name"]))
            _render_steps(it["steps"], indent + "  ", out)
        else:
            _render_tags(it["tags"], indent, out)
            out.append("%sScenario Outline: %s" % (indent, it["name"]))
            _render_steps(it["steps"], indent + "  ", out)
            for ex in it["examples"]:
                _render_tags(ex.get("tags", []), indent + "  ", out)
                out.append("%s  Examples: %s" % (indent, ex.get("name", "")))
                out.append("%s    | %s |" % (indent, " | ".join(ex["headings"])))
                for row in ex["rows"]:
                    out.append("%s    | %s |" % (indent, " | ".join(row)))
        out.append("")


def render(f):
    out = []
    _render_tags(f["tags"], "", out)
    out.append("Feature: %s" % f["name"])
    if f.get("background") is not None:
        out.append("  Background:")
        _render_steps(f["background"], "    ", out)
        out.append("")
    _render_items(f["items"], "  ", out)
    return "\n".join(out) + "\n"


# -- the program: one generic step definition ------------------------------------
class Recorder(object):
    def __init__(self):
        self.calls = []          # (scenario name, step id, outcome)
        self.hooks = []          # (hook name, element name or tag)
        self.events = []         # formatter events (name, payload)
        self.hook_call_no = 0
        self.raise_at = set()    # ordinals of hook invocations that raise
        self.raise_exc = RuntimeError
        self.on_step = None      # optional callable(context, sid, outcome)


def make_registry(rec):
    reg = StepRegistry()

    def generic(context, sid, outcome):
        sc = getattr(context, "scenario", None)
        rec.calls.append((sc.name if sc is not None else None, sid, outcome))
        if rec.on_step is not None:
            rec.on_step(context, sid, outcome)
        if outcome == "pass":
            return
        if outcome == "fail":
            assert False, "step %s fails" % sid
        if outcome == "error":
            raise RuntimeError("step %s raises" % sid)
        if outcome == "pending":
            raise StepNotImplementedError("step %s pending" % sid)
        if outcome == "skip":
            context.scenario.skip("by step %s" % sid)
            return
        if outcome == "kbi":
            raise KeyboardInterrupt()
        raise ValueError("unknown outcome %r" % outcome)
    reg.steps["step"].append(ParseMatcher(generic, "step {sid} {outcome}"))
    return reg


HOOK_NAMES = ("before_all", "after_all", "before_feature", "after_feature", "before_rule",
              "after_rule", "before_scenario", "after_scenario", "before_step", "after_step",
              "before_tag", "after_tag")


def make_hooks(rec, names=HOOK_NAMES, extra=None):
    hooks = {}

    def mk(name):
        def hook(context, *args):
            arg = args[0] if args else None
            label = getattr(arg, "name", arg)
            if name.endswith("_step") and arg is not None:
                label = arg.name
            rec.hooks.append((name, label))
            no = rec.hook_call_no
            rec.hook_call_no += 1
            if extra is not None:
                extra(name, context, args)
            if no in rec.raise_at:
                raise rec.raise_exc("hook %s #%d raises" % (name, no))
        hook.__name__ = name
        return hook
    for n in names:
        hooks[n] = mk(n)
    return hooks


class RecordingFormatter(Formatter):
    name = "recording"

    def __init__(self, rec, stream_opener=None, config=None):
        self.rec = rec

    def uri(self, uri):
        self.rec.events.append(("uri", uri))

    def feature(self, feature):
        self.rec.events.append(("feature", feature.name))

    def rule(self, rule):
        self.rec.events.append(("rule", rule.name))

    def background(self, background):
        self.rec.events.append(("background", background.name))

    def scenario(self, scenario):
        self.rec.events.append(("scenario", scenario.name))

    def step(self, step):
        self.rec.events.append(("step", step.name))

    def match(self, match):
        self.rec.events.append(("match", getattr(match, "func", None) is not None))

    def result(self, step):
        self.rec.events.append(("result", step.name, step.status.name))

    def eof(self):
        self.rec.events.append(("eof",))

    def close(self):
        self.rec.events.append(("close",))


class Observation(object):
    pass


def run(trees, args=(), hooks=True, raise_at=(), raise_exc=RuntimeError, on_step=None,
        hook_extra=None, formatters=(), record_events=True, quiet=True, texts=None):
    """Parse the rendered trees and run them with the real ModelRunner."""
    rec = Recorder()
    rec.raise_at = set(raise_at)
    rec.raise_exc = raise_exc
    rec.on_step = on_step
    cfg_out = io.StringIO()
    with (contextlib.redirect_stdout(cfg_out) if quiet else contextlib.nullcontext()):
        # reporters bind sys.stdout when the configuration is created
        config = Configuration(list(args) or ["-f", "null"], load_config=False)
    feats = []
    texts = texts or [render(t) for t in trees]
    for t, text in zip(trees, texts):
        feats.append(parse_feature(text, filename=t.get("filename", "f.feature")))
    runner = ModelRunner(config, feats, step_registry=make_registry(rec))
    if hooks:
        runner.hooks = make_hooks(rec, extra=hook_extra) if hooks is True else hooks
    fm = list(formatters)
    if record_events:
        fm.append(RecordingFormatter(rec))
    runner.formatters = fm
    out = cfg_out
    obs = Observation()
    obs.exception = None
    ctx = contextlib.redirect_stdout(out) if quiet else contextlib.nullcontext()
    with ctx:
        try:
            obs.failed = runner.run()
        except BaseException as e:      # noqa  (the property says nothing may escape)
            obs.failed = None
            obs.exception = e
    obs.rec = rec
    obs.runner = runner
    obs.features = feats
    obs.config = config
    obs.stdout = out.getvalue()
    obs.texts = texts
    return obs


def walk_model(feature):
    """(kind, element) for every feature/rule/outline/scenario of a parsed feature, in order."""
    from behave.model import Rule, ScenarioOutline
    yield ("feature", feature)

    def rec(items):
        for it in items:
            if isinstance(it, Rule):
                yield ("rule", it)
                for x in rec(it.run_items):
                    yield x
            elif isinstance(it, ScenarioOutline):
                yield ("outline", it)
                for s in it.scenarios:
                    yield ("scenario", s)
            else:
                yield ("scenario", it)
    for x in rec(feature.run_items):
        yield x


def small_trees(max_scenarios=2, outcomes=("pass", "fail"), max_steps=2, with_rule=True,
                with_outline=True, with_background=True):
    """A small exhaustive family of feature trees (used by several properties)."""
    seqs = []
    for n in range(1, max_steps + 1):
        seqs.extend(itertools.product(outcomes, repeat=n))
    ids = itertools.count(1)
    for ns in range(1, max_scenarios + 1):
        for combo in itertools.product(seqs, repeat=ns):
            items = [scenario("S%d" % (k + 1), [step("%d_%d" % (k + 1, j + 1), o) for j, o in enumerate(seq)])
                     for k, seq in enumerate(combo)]
            yield feature("F", items)
            if with_background:
                yield feature("F", items, background=[step("bg", "pass")])
            if with_rule and ns >= 1:
                yield feature("F", [rule("R", items, background=[step("rbg", "pass")] if with_background else None)])
    if with_outline:
        for o1, o2 in itertools.product(outcomes, repeat=2):
            yield feature("F", [outline("O", [step("o_<n>", "<o>")],
                                        [{"name": "E1", "tags": [], "headings": ["n", "o"],
                                          "rows": [["1", o1], ["2", o2]]}])])
