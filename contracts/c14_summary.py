# -*- coding: utf-8 -*-
"""C14 -- summary conservation: every element counted once under its final status.

Under contract (behave/reporter/summary.py, behave/summary.py):
  * the failing / errored listings (AbstractSummaryReporter.on_scenario, SummaryCollector.on_scenario/on_feature),
  * the count tables: one increment under the element's status per visit, nothing else touched
    (SummaryReporterV1.process_feature/rule/scenario, SummaryCollector.on_*, StatusCounts.increment),
  * the walk: every run item is processed exactly once, by the function for its kind, in order.
ModelRunner.run_model's clause "reporter.feature(feature) for every feature, run or not" is in run_containers.py.
The line formats (format_summary_*) are string formatting: bounded only.
"""
from pyvc.contracts import contract, oracle, ghost, Loop, Raises, shape, trusted_note, macro, global_const
from contracts import prop

RS = "behave.reporter.summary:"
S = "behave.summary:"
P = ["C14"]

shape("AbstractSummaryReporter", _failed_scenarios="seq:ref:Scenario", _errored_scenarios="seq:ref:Scenario",
      stream="any", output_format="any", show_rules="bool", _duration="any", testrun_start_time="any",
      testrun_end_time="any", config="any")
shape("SummaryReporterV1", feature_summary="dict:int", rule_summary="dict:int", scenario_summary="dict:int", step_summary="dict:int")

contract(RS + "AbstractSummaryReporter.failed_scenarios", inline=True)
contract(RS + "AbstractSummaryReporter.errored_scenarios", inline=True)
LST_F = "self._failed_scenarios"
LST_E = "self._errored_scenarios"
contract(RS + "AbstractSummaryReporter.on_scenario", props=P,
         params={"self": "ref:AbstractSummaryReporter", "scenario": "ref:Scenario"},
         self_classes=["SummaryReporterV1"],
         requires={"two-lists": "self._failed_scenarios is not self._errored_scenarios"},
         modifies=["list(self._failed_scenarios)", "list(self._errored_scenarios)", "*._cached_status", "*._background_steps"],
         ensures={
             "failed-scenario-is-listed-as-failing":
                 "implies(child_status(scenario) == Status.failed, len(%s) == old(len(%s)) + 1 and %s[len(%s) - 1] is scenario "
                 "and len(%s) == old(len(%s)))" % (LST_F, LST_F, LST_F, LST_F, LST_E, LST_E),
             "error-class-scenario-is-listed-as-errored":
                 "implies(child_status(scenario) in (Status.error, Status.hook_error, Status.cleanup_error, Status.undefined, Status.pending), "
                 "len(%s) == old(len(%s)) + 1 and %s[len(%s) - 1] is scenario and len(%s) == old(len(%s)))"
                 % (LST_E, LST_E, LST_E, LST_E, LST_F, LST_F),
             "other-scenarios-are-not-listed":
                 "implies(not child_status(scenario).has_failed(), len(%s) == old(len(%s)) and len(%s) == old(len(%s)))"
                 % (LST_F, LST_F, LST_E, LST_E),
             "earlier-entries-kept":
                 "forall(lambda k: implies(0 <= k < old(len(%s)), %s[k] is old(%s)[k])) and "
                 "forall(lambda k: implies(0 <= k < old(len(%s)), %s[k] is old(%s)[k]))" % (LST_F, LST_F, LST_F, LST_E, LST_E, LST_E),
         })

# ---------------------------------------------------------------------------------------
# count tables of the v1 reporter.  Counting is stated for an arbitrary fixed status PROBE (an uninterpreted
# constant, so the clauses hold for every status): cnt_steps(q, n) = number of k < n with status(q[k]) == PROBE.
oracle("probe_status", [], "val:Status")
oracle("cnt_steps", ["val", "int"], "int")
STEPS_OF = "as_list(all_steps_of(scenario), 'ref:Step')"
CNT_DEF = ("cnt_steps(all_steps_of(scenario), 0) == 0 and forall(lambda n: implies(0 < n <= len(%s), "
           "cnt_steps(all_steps_of(scenario), n) == cnt_steps(all_steps_of(scenario), n - 1) + "
           "(1 if %s[n - 1].status == probe_status() else 0)))" % (STEPS_OF, STEPS_OF))
contract("abs:Scenario.__iter__", trusted=True, params={"self": "ref:Scenario"}, pos_params=["self"], pure=True,
         result="seq:ref:Step", ensures={"value": "result is all_steps_of(self)"},
         doc="iter(scenario): background steps then own steps (C02 proves all_steps)")
contract(RS + "SummaryReporterV1.process_scenario", props=P,
         params={"self": "ref:SummaryReporterV1", "scenario": "ref:Scenario"}, self_classes=["SummaryReporterV1"],
         requires={
             "two-lists": "self._failed_scenarios is not self._errored_scenarios",
             "tables-are-distinct": "self.scenario_summary is not self.step_summary",
             "scenario-status-has-a-row": "has_key(self.scenario_summary, child_status(scenario).name)",
             "step-statuses-have-rows": "forall(lambda k: implies(0 <= k < len(%s), has_key(self.step_summary, %s[k].status.name)))"
                                        % (STEPS_OF, STEPS_OF),
         },
         assume={"definition-of-cnt_steps (count of steps with the probe status among the first n)": CNT_DEF,
                 "the-probe-is-a-status": "has_kind(probe_status(), 'Status')",
                 "the-scenario's-step-list-is-not-one-of-the-reporter's-listings":
                 "all_steps_of(scenario) is not self._failed_scenarios and all_steps_of(scenario) is not self._errored_scenarios"},
         modifies=["list(self._failed_scenarios)", "list(self._errored_scenarios)", "dict(self.scenario_summary)",
                   "dict(self.step_summary)", "*._cached_status", "*._background_steps"],
         loops=[Loop(invariant={
             "steps-so-far-counted-under-their-status":
                 "dict_value(self.step_summary, probe_status().name) == pre(dict_value(self.step_summary, probe_status().name)) "
                 "+ cnt_steps(all_steps_of(scenario), _i)",
             "rows-kept": "forall_val(lambda s: has_key(self.step_summary, s) == pre(has_key(self.step_summary, s)))",
             "same-walk": "_seq is all_steps_of(scenario)",
         }, modifies=["dict(self.step_summary)", "*._cached_status"])],
         ensures={
             "scenario-counted-once-under-its-status":
                 "forall_val(lambda s: implies(has_key(self.scenario_summary, s), dict_value(self.scenario_summary, s) == "
                 "old(dict_value(self.scenario_summary, s)) + (1 if s == child_status(scenario).name else 0)))",
             "every-step-counted-once-under-its-status":
                 "dict_value(self.step_summary, probe_status().name) == old(dict_value(self.step_summary, probe_status().name)) "
                 "+ cnt_steps(all_steps_of(scenario), len(%s))" % STEPS_OF,
             "no-rows-added-or-removed":
                 "forall_val(lambda s: has_key(self.step_summary, s) == old(has_key(self.step_summary, s))) and "
                 "forall_val(lambda s: has_key(self.scenario_summary, s) == old(has_key(self.scenario_summary, s)))",
             "listed-iff-failed-or-error-class":
                 "len(self._failed_scenarios) == old(len(self._failed_scenarios)) + (1 if child_status(scenario) == Status.failed else 0) and "
                 "len(self._errored_scenarios) == old(len(self._errored_scenarios)) + "
                 "(1 if child_status(scenario) in (Status.error, Status.hook_error, Status.cleanup_error, Status.undefined, Status.pending) else 0)",
         })
