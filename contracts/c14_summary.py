# -*- coding: utf-8 -*-
"""C14 -- summary conservation: every element counted once under its final status.

Under contract (behave/reporter/summary.py, behave/summary.py):
  * the failing / errored listings (AbstractSummaryReporter.on_scenario, SummaryCollector.on_scenario/on_feature),
  * the count tables: one increment under the element's status per visit, nothing else touched
    (SummaryReporterV1.process_feature/rule/scenario, SummaryCollector.on_*, StatusCounts.increment),
  * the walk: every run item is processed exactly once, by the function for its kind, in order.
ModelRunner.run_model's clause "reporter.feature(feature) for every feature, run or not" is in run_containers.py.
The line formats (format_summary_*) are string formatting: bounded only.
"""
from pyvc.contracts import contract, oracle, ghost, Loop, Raises, shape, trusted_note, macro, global_const
from contracts import prop

RS = "behave.reporter.summary:"
S = "behave.summary:"
P = ["C14"]

shape("AbstractSummaryReporter", _failed_scenarios="seq:ref:Scenario", _errored_scenarios="seq:ref:Scenario",
      stream="any", output_format="any", show_rules="bool", _duration="any", testrun_start_time="any",
      testrun_end_time="any", config="any")
shape("SummaryReporterV1", feature_summary="dict:int", rule_summary="dict:int", scenario_summary="dict:int", step_summary="dict:int")

contract(RS + "AbstractSummaryReporter.failed_scenarios", inline=True)
contract(RS + "AbstractSummaryReporter.errored_scenarios", inline=True)
LST_F = "self._failed_scenarios"
LST_E = "self._errored_scenarios"
contract(RS + "AbstractSummaryReporter.on_scenario", props=P,
         params={"self": "ref:AbstractSummaryReporter", "scenario": "ref:Scenario"},
         self_classes=["SummaryReporterV1"],
         requires={"two-lists": "self._failed_scenarios is not self._errored_scenarios"},
         modifies=["list(self._failed_scenarios)", "list(self._errored_scenarios)", "*._cached_status", "*._background_steps"],
         ensures={
             "failed-scenario-is-listed-as-failing":
                 "implies(child_status(scenario) == Status.failed, len(%s) == old(len(%s)) + 1 and %s[len(%s) - 1] is scenario "
                 "and len(%s) == old(len(%s)))" % (LST_F, LST_F, LST_F, LST_F, LST_E, LST_E),
             "error-class-scenario-is-listed-as-errored":
                 "implies(child_status(scenario) in (Status.error, Status.hook_error, Status.cleanup_error, Status.undefined, Status.pending), "
                 "len(%s) == old(len(%s)) + 1 and %s[len(%s) - 1] is scenario and len(%s) == old(len(%s)))"
                 % (LST_E, LST_E, LST_E, LST_E, LST_F, LST_F),
             "other-scenarios-are-not-listed":
                 "implies(not child_status(scenario).has_failed(), len(%s) == old(len(%s)) and len(%s) == old(len(%s)))"
                 % (LST_F, LST_F, LST_E, LST_E),
             "earlier-entries-kept":
                 "forall(lambda k: implies(0 <= k < old(len(%s)), %s[k] is old(%s[k]))) and "
                 "forall(lambda k: implies(0 <= k < old(len(%s)), %s[k] is old(%s[k])))" % (LST_F, LST_F, LST_F, LST_E, LST_E, LST_E),
         })

# ---------------------------------------------------------------------------------------
# count tables of the v1 reporter.  Counting is stated for an arbitrary fixed status PROBE (an uninterpreted
# constant, so the clauses hold for every status): cnt_steps(q, n) = number of k < n with status(q[k]) == PROBE.
oracle("probe_status", [], "val:Status")
oracle("cnt_steps", ["val", "int"], "int")
STEPS_OF = "as_list(all_steps_of(scenario), 'ref:Step')"
CNT_DEF = ("cnt_steps(all_steps_of(scenario), 0) == 0 and forall(lambda n: implies(0 < n <= len(%s), "
           "cnt_steps(all_steps_of(scenario), n) == cnt_steps(all_steps_of(scenario), n - 1) + "
           "(1 if %s[n - 1].status == probe_status() else 0)))" % (STEPS_OF, STEPS_OF))
contract("abs:Scenario.__iter__", trusted=True, params={"self": "ref:Scenario"}, pos_params=["self"], pure=True,
         result="seq:ref:Step", ensures={"value": "result is all_steps_of(self)"},
         doc="iter(scenario): background steps then own steps (C02 proves all_steps)")
# ---------------------------------------------------------------------------------------
# the census of the model tree, for the arbitrary fixed status PROBE, as recursive definitions (measures m):
#   0: scenarios with status PROBE      1: steps with status PROBE      2: rules with status PROBE
#   3: scenarios with status failed     4: scenarios with an error-class status
# leaf(s, m): contribution of one scenario;  sum_leaf(q, n, m): of the first n scenarios of list q;
# item_m(x, m): of one run item (rule / outline / scenario);  sum_items(q, n, m): of the first n run items of q.
oracle("seq_n", ["val"], "int")         # length of a model list (steps of a scenario, rows of an outline, run items)
oracle("leaf", ["val", "int"], "int")
oracle("sum_leaf", ["val", "int", "int"], "int")
oracle("item_m", ["val", "int"], "int")
oracle("sum_items", ["val", "int", "int"], "int")
MEASURES = (0, 1, 2, 3, 4)
ERRCLASS = "(Status.error, Status.hook_error, Status.cleanup_error, Status.undefined, Status.pending)"


def leaf_def(s):
    steps = "as_list(all_steps_of(%s), 'ref:Step')" % s
    return ("leaf(%(s)s, 0) == (1 if child_status(%(s)s) == probe_status() else 0) and "
            "leaf(%(s)s, 1) == cnt_steps(all_steps_of(%(s)s), seq_n(all_steps_of(%(s)s))) and leaf(%(s)s, 2) == 0 and "
            "leaf(%(s)s, 3) == (1 if child_status(%(s)s) == Status.failed else 0) and "
            "leaf(%(s)s, 4) == (1 if child_status(%(s)s) in %(err)s else 0)" % {"s": s, "steps": steps, "err": ERRCLASS})


def sum_def(fun, elem, q, qlist):
    """fun(q, 0, m) == 0 and fun(q, n, m) == fun(q, n-1, m) + elem(q[n-1], m) for every measure m."""
    parts = []
    for m in MEASURES:
        parts.append("%(f)s(%(q)s, 0, %(m)d) == 0 and forall(lambda n: implies(0 < n <= len(%(ql)s), "
                     "%(f)s(%(q)s, n, %(m)d) == %(f)s(%(q)s, n - 1, %(m)d) + %(e)s(%(ql)s[n - 1], %(m)d)))"
                     % {"f": fun, "q": q, "ql": qlist, "m": m, "e": elem})
    return " and ".join(parts)


TABLES_TRACK = {
    0: ("self.scenario_summary", "scenario"), 1: ("self.step_summary", "step"), 2: ("self.rule_summary", "rule")}


def census_clauses(total):
    """table / listing effects in terms of a census expression total(m)."""
    out = {}
    for m, (tab, kind) in TABLES_TRACK.items():
        out["%s-table-grows-by-the-number-of-%ss-with-that-status" % (kind, kind)] = (
            "implies(has_key(%s, probe_status().name), dict_value(%s, probe_status().name) == "
            "old(dict_value(%s, probe_status().name)) + %s)" % (tab, tab, tab, total(m)))
    out["failing-listing-grows-by-the-number-of-failed-scenarios"] = (
        "len(self._failed_scenarios) == old(len(self._failed_scenarios)) + %s" % total(3))
    out["errored-listing-grows-by-the-number-of-error-class-scenarios"] = (
        "len(self._errored_scenarios) == old(len(self._errored_scenarios)) + %s" % total(4))
    out["tables-still-hold-integers"] = TABLES_INT
    out["no-rows-added-or-removed"] = (
        "forall_val(lambda s: has_key(self.step_summary, s) == old(has_key(self.step_summary, s))) and "
        "forall_val(lambda s: has_key(self.scenario_summary, s) == old(has_key(self.scenario_summary, s))) and "
        "forall_val(lambda s: has_key(self.rule_summary, s) == old(has_key(self.rule_summary, s)))")
    return out


TABLES_INT = " and ".join(
    "forall_val(lambda s: implies(has_key(self.%s, s), has_kind(dict_value(self.%s, s), 'int')))" % (t, t)
    for t in ("feature_summary", "rule_summary", "scenario_summary", "step_summary"))
V1_REQ = {
    "tables-hold-integers": TABLES_INT,
    "two-lists": "self._failed_scenarios is not self._errored_scenarios",
    "tables-are-distinct": "self.scenario_summary is not self.step_summary and self.scenario_summary is not self.rule_summary "
                           "and self.step_summary is not self.rule_summary and self.feature_summary is not self.rule_summary "
                           "and self.feature_summary is not self.scenario_summary and self.feature_summary is not self.step_summary",
}
V1_MOD = ["list(self._failed_scenarios)", "list(self._errored_scenarios)", "dict(self.scenario_summary)",
          "dict(self.step_summary)", "dict(self.rule_summary)", "*._cached_status", "*._background_steps",
          "*._scenarios", "*.index", "*.id", "*.modified"]
PROBE_IS_STATUS = {"the-probe-is-a-status": "has_kind(probe_status(), 'Status')"}

ALIAS_STEPS = ("all_steps_of(scenario) is not self._failed_scenarios and all_steps_of(scenario) is not self._errored_scenarios")
contract(RS + "SummaryReporterV1.process_scenario", props=P,
         params={"self": "ref:SummaryReporterV1", "scenario": "ref:Scenario"}, self_classes=["SummaryReporterV1"],
         requires=V1_REQ, lookup_raises=True, allow_raises=["KeyError"],
         assume=dict(PROBE_IS_STATUS, **{
             "definition-of-cnt_steps (count of steps with the probe status among the first n)": CNT_DEF,
             "definition-of-leaf (census contribution of one scenario)": leaf_def("scenario"),
             "seq_n-is-the-length-of-the-step-list": "seq_n(all_steps_of(scenario)) == len(%s)" % STEPS_OF,
             "the-scenario's-step-list-is-not-one-of-the-reporter's-listings": ALIAS_STEPS}),
         modifies=V1_MOD,
         loops=[Loop(invariant={
             "steps-so-far-counted-under-their-status":
                 "implies(has_key(self.step_summary, probe_status().name), dict_value(self.step_summary, probe_status().name) == "
                 "pre(dict_value(self.step_summary, probe_status().name)) + cnt_steps(all_steps_of(scenario), _i))",
             "rows-kept": "forall_val(lambda s: has_key(self.step_summary, s) == pre(has_key(self.step_summary, s)))",
             "same-walk": "_seq is all_steps_of(scenario)",
             "tables-hold-integers": TABLES_INT,
         }, modifies=["dict(self.step_summary)", "*._cached_status"])],
         ensures=dict(census_clauses(lambda m: "leaf(scenario, %d)" % m), **{
             "scenario-counted-once-under-its-status-and-no-other-row-touched":
                 "forall_val(lambda s: implies(has_key(self.scenario_summary, s), dict_value(self.scenario_summary, s) == "
                 "old(dict_value(self.scenario_summary, s)) + (1 if s == child_status(scenario).name else 0)))",
             "listed-scenario-is-this-one":
                 "implies(child_status(scenario) == Status.failed, self._failed_scenarios[len(self._failed_scenarios) - 1] is scenario) and "
                 "implies(child_status(scenario) in %s, self._errored_scenarios[len(self._errored_scenarios) - 1] is scenario)" % ERRCLASS,
         }),
         doc="a missing row for a status raises KeyError (a visible crash, not a miscount): which statuses can occur per "
             "kind is C03's roll-up")


def census_invariant(total_i):
    inv = {}
    for m, (tab, kind) in TABLES_TRACK.items():
        inv["%s-table-tracks-the-census-so-far" % kind] = (
            "implies(has_key(%s, probe_status().name), dict_value(%s, probe_status().name) == "
            "pre(dict_value(%s, probe_status().name)) + %s)" % (tab, tab, tab, total_i(m)))
    inv["listings-track-the-census-so-far"] = (
        "len(self._failed_scenarios) == pre(len(self._failed_scenarios)) + %s and "
        "len(self._errored_scenarios) == pre(len(self._errored_scenarios)) + %s" % (total_i(3), total_i(4)))
    inv["rows-kept"] = ("forall_val(lambda s: has_key(self.step_summary, s) == pre(has_key(self.step_summary, s))) and "
                        "forall_val(lambda s: has_key(self.scenario_summary, s) == pre(has_key(self.scenario_summary, s))) and "
                        "forall_val(lambda s: has_key(self.rule_summary, s) == pre(has_key(self.rule_summary, s)))")
    inv["reporter-shape-kept"] = V1_REQ["two-lists"] + " and " + V1_REQ["tables-are-distinct"]
    inv["tables-hold-integers"] = TABLES_INT
    return inv


ROWS = "as_list(rows_of(scenario_outline), 'ref:Scenario')"
contract(RS + "SummaryReporterV1.process_scenario_outline", props=P,
         params={"self": "ref:SummaryReporterV1", "scenario_outline": "ref:ScenarioOutline"},
         self_classes=["SummaryReporterV1"], requires=V1_REQ, allow_raises=["KeyError"],
         assume=dict(PROBE_IS_STATUS, **{
             "definition-of-sum_leaf (census of the first n row scenarios)":
                 sum_def("sum_leaf", "leaf", "rows_of(scenario_outline)", ROWS),
             "seq_n-is-the-length-of-the-row-list": "seq_n(rows_of(scenario_outline)) == len(%s)" % ROWS,
             "the-outline's-row-list-is-not-one-of-the-reporter's-listings":
                 "rows_of(scenario_outline) is not self._failed_scenarios and rows_of(scenario_outline) is not self._errored_scenarios"}),
         modifies=V1_MOD,
         loops=[Loop(invariant=dict(census_invariant(lambda m: "sum_leaf(rows_of(scenario_outline), _i, %d)" % m),
                                    **{"same-walk": "_seq is rows_of(scenario_outline)"}), modifies=V1_MOD)],
         ensures=census_clauses(lambda m: "sum_leaf(rows_of(scenario_outline), seq_n(rows_of(scenario_outline)), %d)" % m),
         doc="every row scenario of the outline is processed exactly once, in order")

# -- run items of a feature / rule ---------------------------------------------------------------------
M_ = "behave.model:"
contract(M_ + "ScenarioContainer.__iter__", inline=True)
ITEMS = "as_list(parent.run_items, 'ref:RunItem')"


def item_defs(q, qlist):
    """item_m for the outlines and plain scenarios among the run items of list q (rules: see process_rule)."""
    parts = []
    for m in MEASURES:
        parts.append(
            "forall(lambda k: implies(0 <= k < len(%(ql)s), "
            "implies(typeof_is(%(ql)s[k], 'ScenarioOutline'), item_m(%(ql)s[k], %(m)d) == "
            "sum_leaf(rows_of(as_ref(%(ql)s[k], 'ScenarioOutline')), seq_n(rows_of(as_ref(%(ql)s[k], 'ScenarioOutline'))), %(m)d)) and "
            "implies(not typeof_is(%(ql)s[k], 'ScenarioOutline') and not typeof_is(%(ql)s[k], 'Rule'), "
            "item_m(%(ql)s[k], %(m)d) == leaf(%(ql)s[k], %(m)d))))" % {"ql": qlist, "m": m})
    return " and ".join(parts)


contract(RS + "SummaryReporterV1.process_run_items_for", props=P,
         params={"self": "ref:SummaryReporterV1", "parent": "ref:ScenarioContainer"},
         self_classes=["SummaryReporterV1"], requires=V1_REQ, allow_raises=["KeyError"],
         assume=dict(PROBE_IS_STATUS, **{
             "definition-of-sum_items (census of the first n run items)": sum_def("sum_items", "item_m", "parent.run_items", ITEMS),
             "definition-of-item_m for outlines and scenarios": item_defs("parent.run_items", ITEMS),
             "seq_n-is-the-length-of-the-run-item-list": "seq_n(parent.run_items) == len(%s)" % ITEMS,
             "the-run-item-list-is-not-one-of-the-reporter's-listings":
                 "parent.run_items is not self._failed_scenarios and parent.run_items is not self._errored_scenarios"}),
         modifies=V1_MOD,
         loops=[Loop(invariant=dict(census_invariant(lambda m: "sum_items(parent.run_items, _i, %d)" % m),
                                    **{"same-walk": "_seq is parent.run_items"}), modifies=V1_MOD)],
         ensures=census_clauses(lambda m: "sum_items(parent.run_items, seq_n(parent.run_items), %d)" % m),
         doc="every run item is processed exactly once, in order, by the function for its kind")

RULE_ITEMS = "as_list(rule.run_items, 'ref:RunItem')"
contract(RS + "SummaryReporterV1.process_rule", props=P,
         params={"self": "ref:SummaryReporterV1", "rule": "ref:Rule"},
         self_classes=["SummaryReporterV1"], requires=V1_REQ, lookup_raises=True, allow_raises=["KeyError"],
         assume=dict(PROBE_IS_STATUS, **{
             "definition-of-item_m for a rule (itself plus its run items)":
                 " and ".join("item_m(rule, %d) == %s + sum_items(rule.run_items, seq_n(rule.run_items), %d)"
                              % (m, "(1 if child_status(rule) == probe_status() else 0)" if m == 2 else "0", m)
                              for m in MEASURES),
             "the-run-item-list-is-not-one-of-the-reporter's-listings":
                 "rule.run_items is not self._failed_scenarios and rule.run_items is not self._errored_scenarios"}),
         modifies=V1_MOD,
         ensures=census_clauses(lambda m: "item_m(rule, %d)" % m))

# -- feature level ----------------------------------------------------------------------------------------
contract(RS + "AbstractSummaryReporter.duration", trusted=True, params={"self": "ref:AbstractSummaryReporter"},
         modifies=["self._duration"], result="any", doc="elapsed time bookkeeping (not part of any count)")
contract(RS + "AbstractSummaryReporter.duration.setter", trusted=True, params={"self": "ref:AbstractSummaryReporter"},
         pos_params=["self", "value"], modifies=["self._duration"], doc="elapsed time bookkeeping")
contract("abs:BasicStatement.duration", trusted=True, params={"self": "ref:BasicStatement"}, pure=True, result="any",
         doc="duration of an element (sum of its parts)")
FEAT_ITEMS = "as_list(feature.run_items, 'ref:RunItem')"
FEAT_ALIAS = "feature.run_items is not self._failed_scenarios and feature.run_items is not self._errored_scenarios"
FEAT_ENS = dict(census_clauses(lambda m: "sum_items(feature.run_items, seq_n(feature.run_items), %d)" % m), **{
    "feature-counted-once-under-its-status-and-no-other-row-touched":
        "forall_val(lambda s: implies(has_key(self.feature_summary, s), dict_value(self.feature_summary, s) == "
        "old(dict_value(self.feature_summary, s)) + (1 if s == child_status(feature).name else 0)))",
    "no-feature-rows-added-or-removed":
        "forall_val(lambda s: has_key(self.feature_summary, s) == old(has_key(self.feature_summary, s)))"})
contract(RS + "SummaryReporterV1.process_feature", props=P,
         params={"self": "ref:SummaryReporterV1", "feature": "ref:Feature"},
         self_classes=["SummaryReporterV1"], requires=V1_REQ, lookup_raises=True, allow_raises=["KeyError"],
         assume=dict(PROBE_IS_STATUS, **{"the-run-item-list-is-not-one-of-the-reporter's-listings": FEAT_ALIAS}),
         modifies=V1_MOD + ["dict(self.feature_summary)", "self._duration"], ensures=FEAT_ENS,
         doc="the feature is counted once under its status; its scenarios, steps and rules by the census of its run items")
contract(RS + "SummaryReporterV1.on_feature", props=P,
         params={"self": "ref:SummaryReporterV1", "feature": "ref:Feature"},
         self_classes=["SummaryReporterV1"], requires=V1_REQ, allow_raises=["KeyError"],
         modifies=V1_MOD + ["dict(self.feature_summary)", "self._duration"], ensures=FEAT_ENS)
contract("lib:time.time", trusted=True, pos_params=[], pure=True, result="any", doc="time.time() (A-lib)")
global_const("time_now", ("contract", "lib:time.time"))
contract(RS + "AbstractSummaryReporter.testrun_started", inline=True)
contract(RS + "AbstractSummaryReporter.feature", props=P,
         params={"self": "ref:AbstractSummaryReporter", "feature": "ref:Feature"},
         self_classes=["SummaryReporterV1"], requires=V1_REQ, allow_raises=["KeyError"],
         modifies=V1_MOD + ["dict(self.feature_summary)", "self._duration", "self.testrun_start_time"], ensures=FEAT_ENS,
         doc="Reporter API entry point called by ModelRunner.run_model once per feature (run or not): the v1 tables "
             "grow by exactly the census of that feature")

# -- the collector (SummaryReporterV2 / SummaryCollector): one increment per visited element --------------------
ghost("ninc", "int")            # StatusCounts.increment / HookErrorCounts.increment calls so far
ghost("inc_obj", "array")       # the counter object incremented by the k-th call
ghost("inc_key", "array")       # its key (a Status, or the hook-error level name)
shape("SummaryCounts", features="ref:StatusCounts", rules="ref:StatusCounts", scenarios="ref:StatusCounts",
      steps="ref:StatusCounts", hook_errors="ref:HookErrorCounts")
shape("SummaryCollector", summary_counts="ref:SummaryCounts", duration="any", failed_features="seq:ref:Feature",
      failed_scenarios="seq:ref:Scenario", errored_features="seq:ref:Feature", errored_scenarios="seq:ref:Scenario",
      pending_features="seq:any", pending_scenarios="seq:any", visitor="any")
for _cls in ("StatusCounts", "HookErrorCounts"):
    contract("abs:%s.increment" % _cls, trusted=True, params={"self": "ref:%s" % _cls},
             pos_params=["self", "status", "delta"] if _cls == "StatusCounts" else ["self", "name", "delta"],
             defaults={"delta": 1}, modifies=["G_ninc"],
             ghost_stores=[("inc_obj", "G_ninc", "self"), ("inc_key", "G_ninc", "status" if _cls == "StatusCounts" else "name")],
             ensures={"one-more-increment": "G_ninc == old(G_ninc) + 1"},
             doc="Counter arithmetic (dict subclass of the standard library): self[key] += 1 (A-lib)")
COL_MOD = ["G_ninc", "G_inc_obj", "G_inc_key", "self.duration", "*._cached_status", "*._background_steps"]
K0 = "old(G_ninc)"


def _hook_clause(level):
    return ("implies(ELEM.hook_failed, G_ninc == %s + 2 and G_inc_obj(%s + 1) is self.summary_counts.hook_errors "
            "and G_inc_key(%s + 1) == '%s') and implies(not ELEM.hook_failed, G_ninc == %s + 1)" % (K0, K0, K0, level, K0))


contract(S + "SummaryCollector.on_scenario", props=P,
         params={"self": "ref:SummaryCollector", "scenario": "ref:Scenario"}, self_classes=["SummaryCollector"],
         requires={"two-lists": "self.failed_scenarios is not self.errored_scenarios"},
         modifies=COL_MOD + ["list(self.failed_scenarios)", "list(self.errored_scenarios)"],
         ensures={
             "counted-once-under-its-status":
                 "G_inc_obj(%s) is self.summary_counts.scenarios and G_inc_key(%s) == child_status(scenario)" % (K0, K0),
             "hook-error-counted-iff-hook-failed": _hook_clause("on_scenario").replace("ELEM", "scenario"),
             "listed-iff-failed-or-error-class":
                 "len(self.failed_scenarios) == old(len(self.failed_scenarios)) + (1 if child_status(scenario) == Status.failed else 0) and "
                 "len(self.errored_scenarios) == old(len(self.errored_scenarios)) + (1 if child_status(scenario) in %s else 0)" % ERRCLASS,
             "listed-scenario-is-this-one":
                 "implies(child_status(scenario) == Status.failed, self.failed_scenarios[len(self.failed_scenarios) - 1] is scenario) and "
                 "implies(child_status(scenario) in %s, self.errored_scenarios[len(self.errored_scenarios) - 1] is scenario)" % ERRCLASS,
             "earlier-increments-kept": "forall(lambda k: implies(0 <= k < %s, G_inc_obj(k) == old(G_inc_obj(k)) and G_inc_key(k) == old(G_inc_key(k))))" % K0,
         })
contract(S + "SummaryCollector.on_step", props=P,
         params={"self": "ref:SummaryCollector", "step": "ref:Step"}, self_classes=["SummaryCollector"],
         modifies=COL_MOD,
         ensures={"counted-once-under-its-status":
                  "G_inc_obj(%s) is self.summary_counts.steps and G_inc_key(%s) == step.status" % (K0, K0),
                  "hook-error-counted-iff-hook-failed": _hook_clause("on_step").replace("ELEM", "step")})
contract(S + "SummaryCollector.on_rule", props=P,
         params={"self": "ref:SummaryCollector", "rule": "ref:Rule"}, self_classes=["SummaryCollector"],
         modifies=COL_MOD,
         ensures={"counted-once-under-its-status":
                  "G_inc_obj(%s) is self.summary_counts.rules and G_inc_key(%s) == child_status(rule)" % (K0, K0),
                  "hook-error-counted-iff-hook-failed": _hook_clause("on_rule").replace("ELEM", "rule")})
contract(S + "SummaryCollector.on_feature", props=P,
         params={"self": "ref:SummaryCollector", "feature": "ref:Feature"}, self_classes=["SummaryCollector"],
         requires={"two-lists": "self.failed_features is not self.errored_features"},
         modifies=COL_MOD + ["list(self.failed_features)", "list(self.errored_features)"],
         ensures={"counted-once-under-its-status":
                  "G_inc_obj(%s) is self.summary_counts.features and G_inc_key(%s) == child_status(feature)" % (K0, K0),
                  "hook-error-counted-iff-hook-failed": _hook_clause("on_feature").replace("ELEM", "feature"),
                  "listed-iff-failed-or-error-class":
                      "len(self.failed_features) == old(len(self.failed_features)) + (1 if child_status(feature) == Status.failed else 0) and "
                      "len(self.errored_features) == old(len(self.errored_features)) + (1 if child_status(feature) in %s else 0)" % ERRCLASS})

prop("C14", level="proof", bounded=[],
     explanation="conservation proved for the default (v1) summary reporter: Reporter.feature(f) makes every count table grow by "
                 "exactly the census of f for an arbitrary status (scenarios incl. outline rows, steps incl. background steps, "
                 "rules; the feature itself once), touches no other row, and lists exactly the failed / error-class scenarios; "
                 "every run item is processed exactly once by the function for its kind (mutually recursive contracts); "
                 "run_model calls reporter.feature for every feature, run or not. Collector: every visit increments exactly the "
                 "counter of the element's kind under its status (plus the hook-error counter iff its hook failed). "
                 "the collector's traversal visits every step of a scenario (background steps included) exactly once in order; the "
                 "problem listings are printed iff some scenario failed or errored. Line formats, Counter arithmetic and the "
                 "'all' sums are bounded only",
     technique="contract-based deductive verification (own VC generator over the real ASTs, z3/cvc5): recursive census "
               "definitions + loop invariants over the real tree walk; bounded run-time contract stand-in for the text formats",
     notes=["the census is defined recursively over run_items / rows_of(outline) / all_steps_of(scenario); these model lists are "
            "assumed not to be the reporter's own listing lists",
            "a status without a row in a v1 table raises KeyError (visible crash): partial correctness w.r.t. KeyError",
            "ModelVisitor.visit_feature/visit_rule/visit_scenario_outline, StatusCounts/Counter arithmetic and format_summary_* are not under contract"])

# -- end of run: the problem listings are printed iff there is something to list ----------------------------------
ghost("listing_printed", "int")
contract("abs:AbstractSummaryReporter.print_problematic_scenarios", trusted=True, params={"self": "ref:AbstractSummaryReporter"},
         pos_params=["self", "stream"], defaults={"stream": None}, modifies=["G_listing_printed"],
         ensures={"printed": "G_listing_printed == old(G_listing_printed) + 1"},
         doc="prints the 'Failing scenarios:' and 'Errored scenarios:' sections (text: bounded)")
contract("abs:AbstractSummaryReporter.print_summary", trusted=True, params={"self": "ref:AbstractSummaryReporter"},
         pos_params=["self", "stream", "with_duration"], defaults={"stream": None, "with_duration": None},
         modifies=["dict(self.feature_summary)", "dict(self.rule_summary)", "dict(self.scenario_summary)", "dict(self.step_summary)",
                   "self._duration"],
         doc="prints the count lines (formats: bounded)")
contract(RS + "AbstractSummaryReporter.testrun_finished", inline=True)
contract("abs:stream.write", trusted=True, pos_params=["self", "text"], pure=True, doc="stream.write (A-lib)")
shape("AbstractSummaryReporter", show_failed_scenarios="bool")
contract(RS + "AbstractSummaryReporter.end", props=P, params={"self": "ref:AbstractSummaryReporter"},
         self_classes=["SummaryReporterV1"],
         callsites={"self.stream.write": "abs:stream.write"},
         modifies=["G_listing_printed", "self.testrun_end_time", "dict(self.feature_summary)", "dict(self.rule_summary)",
                   "dict(self.scenario_summary)", "dict(self.step_summary)", "self._duration"],
         ensures={"problem-listings-printed-iff-some-scenario-failed-or-errored":
                  "G_listing_printed == old(G_listing_printed) + (1 if (self.show_failed_scenarios and "
                  "(len(self._failed_scenarios) > 0 or len(self._errored_scenarios) > 0)) else 0)"})

# -- the collector's traversal: visiting a scenario visits every step of iter(scenario) (background steps included) ----------
MV = "behave.model_visitor:"
ghost("nvisit", "int")
ghost("visit_arg", "array")
contract("abs:visitor.on_scenario", trusted=True, pos_params=["self", "scenario"], pure=True, result="any",
         ensures={"continue": "result is None"}, doc="visitor callback (SummaryCollector.on_scenario returns None: continue)")
contract("abs:ModelVisitor.visit_step", trusted=True, params={"self": "ref:ModelVisitor"}, pos_params=["self", "step"],
         modifies=["G_nvisit"], ghost_stores=[("visit_arg", "G_nvisit", "step")], result="any",
         ensures={"visited": "G_nvisit == old(G_nvisit) + 1 and result is None"},
         doc="visit_step(step) -> visitor.on_step(step) (returns None: continue)")
shape("ModelVisitor", visitor="any")
V0 = "old(G_nvisit)"
VSTEPS = "as_list(all_steps_of(scenario), 'ref:Step')"
contract(MV + "ModelVisitor.visit_items_of", inline=True)
contract(MV + "ModelVisitor.should_continue_visit", inline=True)
contract(MV + "ModelVisitor.visit_many", props=P,
         params={"self": "ref:ModelVisitor", "iterable": "seq:ref:Step", "visit_func": "any"}, self_classes=["SummaryCollector"],
         callsites={"visit_func": "abs:ModelVisitor.visit_step.cb"},
         requires={"a-visit-function-is-given": "not is_none(visit_func)"},
         modifies=["G_nvisit", "G_visit_arg"],
         loops=[Loop(invariant={"each-item-so-far-visited-once-in-order":
                                "G_nvisit == pre(G_nvisit) + _i and forall(lambda k: implies(0 <= k < _i, G_visit_arg(pre(G_nvisit) + k) is _at(k)))",
                                "earlier-log-kept": "forall(lambda k: implies(k < pre(G_nvisit), G_visit_arg(k) == pre(G_visit_arg(k))))",
                                "same": "_seq is iterable"})],
         ensures={"every-item-visited-exactly-once-in-order":
                  "G_nvisit == %s + len(iterable) and forall(lambda k: implies(0 <= k < len(iterable), G_visit_arg(%s + k) is iterable[k]))" % (V0, V0)})
contract("abs:ModelVisitor.visit_step.cb", trusted=True, pos_params=["step"], modifies=["G_nvisit"],
         ghost_stores=[("visit_arg", "G_nvisit", "step")], result="any",
         ensures={"visited": "G_nvisit == old(G_nvisit) + 1 and result is None"}, doc="the bound method self.visit_step passed as visit_func")
contract("abs:ModelVisitor.visit_many.steps", trusted=False, pos_params=["self", "iterable", "visit_func"],
         modifies=["G_nvisit", "G_visit_arg"], result="any",
         ensures={"every-item-visited-exactly-once-in-order":
                  "G_nvisit == old(G_nvisit) + len(iterable) and forall(lambda k: implies(0 <= k < len(iterable), "
                  "G_visit_arg(old(G_nvisit) + k) is iterable[k]))"},
         doc="call-site view of visit_many (proved above)")
SO_MODIFIED = ("exists(lambda k: 0 <= k < len(scenario_outline.examples) and not is_none(scenario_outline.examples[k].table) and "
               "as_ref(scenario_outline.examples[k].table, 'Table').modified)")
contract("abs:visitor.on_scenario_outline", trusted=True, pos_params=["self", "scenario_outline"], pure=True, result="any",
         ensures={"continue": "result is None"}, doc="visitor callback (SummaryCollector.on_scenario_outline returns None: continue)")
contract(MV + "ModelVisitor.visit_scenario_outline", props=P,
         params={"self": "ref:ModelVisitor", "scenario_outline": "ref:ScenarioOutline"}, self_classes=["SummaryCollector"],
         callsites={"self.visitor.on_scenario_outline": "abs:visitor.on_scenario_outline",
                    "self.visit_many": "abs:ModelVisitor.visit_many.steps",
                    "scenario_outline.scenarios": "behave.model:ScenarioOutline.scenarios"},
         modifies=["G_nvisit", "G_visit_arg", "scenario_outline._scenarios", "G_nbuilds", "*.modified", "*.index", "*.id"],
         ensures={"the-row-scenarios-are-(re)built-before-they-are-counted: no-examples-table-is-left-marked-modified":
                  "not %s" % SO_MODIFIED,
                  "every-row-scenario-is-visited-once-in-order":
                  "G_nvisit == %s + len(scenario_outline._scenarios) and forall(lambda k: implies(0 <= k < "
                  "len(scenario_outline._scenarios), G_visit_arg(%s + k) is scenario_outline._scenarios[k]))" % (V0, V0)},
         doc="an outline that was never run (de-selected feature, --dry-run of a later formatter, a table edited by a hook) "
             "still has its rows counted: the visitor goes through the lazily building property, not the cached list")
contract(MV + "ModelVisitor.visit_scenario", props=P,
         params={"self": "ref:ModelVisitor", "scenario": "ref:Scenario"}, self_classes=["SummaryCollector"],
         callsites={"self.visitor.on_scenario": "abs:visitor.on_scenario", "self.visit_many": "abs:ModelVisitor.visit_many.steps"},
         exprs={"iter(container)": ("fresh", "any")},
         modifies=["G_nvisit", "G_visit_arg", "*._cached_status", "*._background_steps", "*._inherited_steps", "*.status",
                   "*.hook_failed", "*.duration", "*.exception", "*.exc_traceback", "*.error_message", "*.captured"],
         ensures={"every-step-of-the-scenario-background-steps-included-is-visited-once-in-order":
                  "G_nvisit == %s + len(%s) and forall(lambda k: implies(0 <= k < len(%s), G_visit_arg(%s + k) is %s[k]))"
                  % (V0, VSTEPS, VSTEPS, V0, VSTEPS)})
