# -*- coding: utf-8 -*-
"""C03 -- status roll-up follows the documented table (DESIGN.md 5.3).

Top-level clauses are transcribed from the property statement and from
docs/appendix.status.rst (tables "Common Status Values", "Specific Status
Values for Steps", "From Inner Status to Outer Status"), not from the code."""
from pyvc.contracts import contract, Loop, Raises

M = "behave.model:"
MC = "behave.model_core:"
P = ["C03"]

# the 11 documented (reportable) statuses
DOC = ("(Status.untested, Status.untested_pending, Status.untested_undefined, Status.skipped, "
       "Status.passed, Status.failed, Status.error, Status.hook_error, Status.pending, "
       "Status.pending_warn, Status.undefined)")
COMMON = "(Status.untested, Status.skipped, Status.passed, Status.failed, Status.error, Status.hook_error)"
ERR = "(Status.error, Status.hook_error, Status.pending, Status.undefined)"          # Error? == yes
UNT = "(Status.untested, Status.untested_pending, Status.untested_undefined)"       # Untested? == yes
PEND = "(Status.untested_pending, Status.pending, Status.pending_warn)"              # Pending? == yes
UNDEF = "(Status.untested_undefined, Status.undefined)"                              # Undefined? == yes


def doc(clause):
    return "implies(self in %s, %s)" % (DOC, clause)


# -- classification predicates ------------------------------------------------
def pred(name, ensures):
    c = contract(MC + "Status." + name, params={"self": "Status"}, result="bool", pure=True,
                 ensures=ensures, inline=True, props=P)
    return c


pred("is_error", {"table-error": doc("result == (self in %s)" % ERR)})
pred("is_failure", {"table-failed": doc("result == (self == Status.failed)")})
pred("is_untested", {"table-untested": doc("result == (self in %s)" % UNT)})
pred("is_pending", {"table-pending": doc("result == (self in %s)" % PEND)})
pred("is_undefined", {"table-undefined": doc("result == (self in %s)" % UNDEF)})
pred("has_failed", {"error-or-failure": doc("result == ((self in %s) or self == Status.failed)" % ERR)})
pred("is_passed", {"passed-like": doc("result == (self in (Status.passed, Status.pending_warn))")})
# helper (no documented column): the statuses after which the cache is no longer recomputed
pred("is_final", {"final-set": doc("result == (self in (Status.skipped, Status.passed, Status.failed, "
                                   "Status.error, Status.hook_error, Status.undefined, Status.untested_undefined, "
                                   "Status.pending, Status.pending_warn))")})

# coherence: every reportable status is exactly one of passed-like, failure, error, skipped, untested
contract("lemma:C03.partition", params={"s": "Status"}, spec_only=True, props=P,
         ensures={"exactly-one": "implies(s in %s, "
                  "(1 if s.is_passed() else 0) + (1 if s.is_failure() else 0) + (1 if s.is_error() else 0)"
                  " + (1 if s == Status.skipped else 0) + (1 if s.is_untested() else 0) == 1)" % DOC,
                  "has-failed-is-error-or-failure":
                  "implies(s in %s, s.has_failed() == (s.is_error() or s.is_failure()))" % DOC})

# -- inner -> outer -----------------------------------------------------------
OUTER = ("(Status.error if step_status in %s else Status.failed if step_status == Status.failed "
         "else Status.untested if step_status in %s else Status.passed if step_status == Status.pending_warn "
         "else step_status)" % (ERR, UNT))
contract(MC + "ScenarioStatus.from_step_status", params={"step_status": "Status", "dry_run": "bool"},
         requires={"documented": "step_status in " + DOC}, result="Status", pure=True, props=P,
         ensures={"inner-to-outer-table": "result == " + OUTER},
         doc="table 'From Inner Status to Outer Status', all 11 rows")
OUTER2 = ("(Status.error if status in %s else Status.failed if status == Status.failed "
          "else Status.passed if status == Status.pending_warn else status)" % ERR)
contract(MC + "OuterStatus.from_inner_status", params={"status": "Status"},
         requires={"reachable": "status in %s or status in (Status.pending, Status.pending_warn, Status.undefined)"
                   % COMMON},
         result="Status", pure=True, props=P,
         ensures={"inner-to-outer-table": "result == " + OUTER2},
         doc="same table restricted to statuses an inner *element* can report")

# -- the cache --------------------------------------------------------------------
contract("abs:TagAndStatusStatement.compute_status", trusted=True,
         params={"self": "ref:TagAndStatusStatement"}, result="Status",
         modifies=["*._cached_status", "*._background_steps"],
         ensures={"value": "result == child_status(self)"},
         doc="dynamic dispatch target of the getter; each override is proved in this file")
contract(MC + "TagAndStatusStatement.status", params={"self": "ref:TagAndStatusStatement"},
         result="Status", props=P, modifies=["*._cached_status", "*._background_steps"],
         ensures={
             "final-is-sticky": "implies(old(self._cached_status).is_final(), "
                                "result == old(self._cached_status) and self._cached_status == old(self._cached_status))",
             "recomputed-until-final": "implies(not old(self._cached_status).is_final(), "
                                       "result == child_status(self) and self._cached_status == result)",
         })
contract(MC + "TagAndStatusStatement.clear_status", inline=True, props=P,
         modifies=["self._cached_status"],
         ensures={"untested": "self._cached_status == Status.untested"})
contract(MC + "TagAndStatusStatement.reset", props=P,
         modifies=["self._cached_status", "self.should_skip", "self.skip_reason"],
         ensures={"clean": "self._cached_status == Status.untested and self.should_skip == False "
                           "and self.skip_reason is None"})

# -- Scenario ---------------------------------------------------------------------
ST = "as_list(all_steps_of(self), 'ref:Step')"


def q_exists(pred_):
    return "exists(lambda k: 0 <= k < len(%s) and %s)" % (ST, pred_.replace("$", ST + "[k].status"))


def q_forall(pred_):
    return "forall(lambda k: implies(0 <= k < len(%s), %s))" % (ST, pred_.replace("$", ST + "[k].status"))


contract(M + "Scenario.compute_status", params={"self": "ref:Scenario"}, self_classes=["Scenario"],
         result="Status", props=P, modifies=["self._background_steps"],
         requires={"children-documented": q_forall("$ in " + DOC)},
         loops=[Loop(invariant={
             "earlier-steps-passed": "forall(lambda k: implies(0 <= k < _i, "
                                     "_seq[k].status in (Status.passed, Status.pending_warn)))",
             "same-seq": "_seq is all_steps_of(self)",
             "no-hook-failure": "not self.hook_failed",
         })],
         ensures={
             "hook-error": "implies(self.hook_failed, result == Status.hook_error)",
             "error-class-inside-gives-error":
                 "implies(not self.hook_failed and %s and not %s, result == Status.error)"
                 % (q_exists("$.is_error()"), q_exists("$.is_failure()")),
             "failed-assertion-gives-failed":
                 "implies(not self.hook_failed and %s and not %s, result == Status.failed)"
                 % (q_exists("$.is_failure()"), q_exists("$.is_error()")),
             "anything-failed-inside-means-failed-class":
                 "implies(%s, result.has_failed())" % q_exists("$.has_failed()"),
             "skipped-only-if-all-skipped":
                 "implies(not self.hook_failed and len(%s) > 0 and result == Status.skipped, %s)"
                 % (ST, q_forall("$ == Status.skipped")),
             "all-skipped-gives-skipped":
                 "implies(not self.hook_failed and len(%s) > 0 and %s, result == Status.skipped)"
                 % (ST, q_forall("$ == Status.skipped")),
             "passed-only-if-rest-passed":
                 "implies(not self.hook_failed and len(%s) > 0 and result == Status.passed, %s)"
                 % (ST, q_forall("$.is_passed() or $ == Status.skipped")),
             "all-passed-gives-passed":
                 "implies(not self.hook_failed and len(%s) > 0 and %s, result == Status.passed)"
                 % (ST, q_forall("$.is_passed()")),
             "nothing-executed-is-untested-never-passed":
                 "implies(not self.hook_failed and len(%s) > 0 and %s, result == Status.untested)"
                 % (ST, q_forall("$.is_untested()")),
             "result-in-common-set": "result in " + COMMON,
         })

# -- Feature / Rule ------------------------------------------------------------------
RI = "self.run_items"


def c_exists(pred_):
    return "exists(lambda k: 0 <= k < len(%s) and %s)" % (RI, pred_.replace("$", "child_status(%s[k])" % RI))


def c_forall(pred_):
    return "forall(lambda k: implies(0 <= k < len(%s), %s))" % (RI, pred_.replace("$", "child_status(%s[k])" % RI))


contract(M + "ScenarioContainer.compute_status", params={"self": "ref:ScenarioContainer"},
         self_classes=["Feature", "Rule"], result="Status", props=P + ["C09:skipped-iff-all-skipped"],
         modifies=["*._cached_status"],
         loops=[Loop(invariant={
             "skipped-iff-all-earlier-skipped":
                 "skipped == forall(lambda k: implies(0 <= k < _i, child_status(_seq[k]) == Status.skipped))",
             "passed-count": "passed_count >= 0 and ((passed_count > 0) == "
                             "exists(lambda k: 0 <= k < _i and child_status(_seq[k]) == Status.passed))",
             "earlier-are-passed-or-skipped":
                 "forall(lambda k: implies(0 <= k < _i, child_status(_seq[k]) in (Status.passed, Status.skipped)))",
             "same-seq": "_seq is self.run_items and not self.hook_failed",
         })],
         ensures={
             "hook-error": "implies(self.hook_failed, result == Status.hook_error)",
             "error-class-inside-gives-error":
                 "implies(not self.hook_failed and %s and not %s, result == Status.error)"
                 % (c_exists("$.is_error()"), c_exists("$.is_failure()")),
             "failed-inside-gives-failed":
                 "implies(not self.hook_failed and %s and not %s, result == Status.failed)"
                 % (c_exists("$.is_failure()"), c_exists("$.is_error()")),
             "anything-failed-inside-means-failed-class":
                 "implies(%s, result.has_failed())" % c_exists("$.has_failed()"),
             "skipped-iff-all-skipped":
                 "implies(not self.hook_failed and len(%s) > 0, (result == Status.skipped) == %s)"
                 % (RI, c_forall("$ == Status.skipped")),
             "passed-only-if-rest-passed":
                 "implies(not self.hook_failed and len(%s) > 0 and result == Status.passed, %s and %s)"
                 % (RI, c_forall("$ == Status.passed or $ == Status.skipped"), c_exists("$ == Status.passed")),
             "all-passed-gives-passed":
                 "implies(not self.hook_failed and len(%s) > 0 and %s, result == Status.passed)"
                 % (RI, c_forall("$ == Status.passed")),
             "nothing-executed-is-untested-never-passed":
                 "implies(not self.hook_failed and len(%s) > 0 and %s, result == Status.untested)"
                 % (RI, c_forall("$ == Status.untested")),
             "result-in-common-set": "result in " + COMMON,
         })

# -- ScenarioOutline -----------------------------------------------------------------
SC = "self._scenarios"


def o_exists(pred_):
    return "exists(lambda k: 0 <= k < len(%s) and %s)" % (SC, pred_.replace("$", "child_status(%s[k])" % SC))


def o_forall(pred_):
    return "forall(lambda k: implies(0 <= k < len(%s), %s))" % (SC, pred_.replace("$", "child_status(%s[k])" % SC))


contract(M + "ScenarioOutline.compute_status", params={"self": "ref:ScenarioOutline"},
         self_classes=["ScenarioOutline"], result="Status", props=P + ["C09:skipped-iff-all-skipped"],
         modifies=["*._cached_status"],
         loops=[Loop(invariant={
             "skipped-count": "0 <= skipped_count <= _i and ((skipped_count == _i) == "
                              "forall(lambda k: implies(0 <= k < _i, child_status(_seq[k]) == Status.skipped)))",
             "earlier-not-failed":
                 "forall(lambda k: implies(0 <= k < _i, not child_status(_seq[k]).has_failed()))",
             "earlier-in-common-set":
                 "forall(lambda k: implies(0 <= k < _i, child_status(_seq[k]) in %s))" % COMMON,
             "untested-count": "untested_count >= 0 and ((untested_count > 0) == "
                               "exists(lambda k: 0 <= k < _i and child_status(_seq[k]) == Status.untested))",
             "passed-count": "passed_count >= 0 and ((passed_count > 0) == "
                             "exists(lambda k: 0 <= k < _i and child_status(_seq[k]) == Status.passed))",
             "same-seq": "_seq is self._scenarios",
         })],
         ensures={
             "error-class-inside-gives-error":
                 "implies(%s and not %s, result == Status.error)"
                 % (o_exists("$.is_error()"), o_exists("$.is_failure()")),
             "failed-inside-gives-failed":
                 "implies(%s and not %s, result == Status.failed)"
                 % (o_exists("$.is_failure()"), o_exists("$.is_error()")),
             "anything-failed-inside-means-failed-class":
                 "implies(%s, result.has_failed())" % o_exists("$.has_failed()"),
             "skipped-iff-all-skipped":
                 "implies(len(%s) > 0, (result == Status.skipped) == %s)"
                 % (SC, o_forall("$ == Status.skipped")),
             "passed-only-if-rest-passed":
                 "implies(len(%s) > 0 and result == Status.passed, %s and %s)"
                 % (SC, o_forall("$ == Status.passed or $ == Status.skipped"), o_exists("$ == Status.passed")),
             "all-passed-gives-passed":
                 "implies(len(%s) > 0 and %s, result == Status.passed)" % (SC, o_forall("$ == Status.passed")),
             "nothing-executed-is-untested-never-passed":
                 "implies(len(%s) > 0 and %s, result == Status.untested)" % (SC, o_forall("$ == Status.untested")),
             "result-in-common-set": "result in " + COMMON,
         })


from contracts import prop
prop("C03", level="proof",
     bounded=[MC + "Status." + n for n in ("is_error", "is_failure", "is_untested", "is_pending", "is_undefined",
                                           "has_failed", "is_passed", "is_final")] +
             [MC + "ScenarioStatus.from_step_status", MC + "OuterStatus.from_inner_status",
              MC + "TagAndStatusStatement.status", M + "Scenario.compute_status",
              M + "ScenarioContainer.compute_status", M + "ScenarioOutline.compute_status"],
     explanation="status predicates / inner-to-outer tables proved for every enum member; the three "
                 "compute_status roll-ups proved with loop invariants for child sequences of any length; the "
                 "status cache (`.status` keeps a final value) is empty or explicitly set when ScenarioOutline.run / "
                 "ScenarioContainer.run return, whatever the child runs left in it (a hook reading a container's status "
                 "between two children must not freeze it); Scenario.run resets the run-time state first (latest run only). "
                 "Bounded: real runs with hooks reading every status at every hook invocation == the same runs with passive hooks",
     notes=["childless elements are out of scope (property text)",
            "in the run contracts the child runs may write any element's status cache (over-approximates hooks that read "
            ".status mid-run); user hooks called directly by a container are assumed not to write caches (reads after the "
            "children finished cache the right value)",
            "error-vs-failed precedence when both occur is not constrained (property is silent)"])
