# -*- coding: utf-8 -*-
"""C17 -- rerun file lists exactly the unsuccessful scenarios (DESIGN.md 5.17)."""
from pyvc.contracts import contract, oracle, Loop, shape, trusted_note, macro
from contracts import prop

F = "behave.formatter.rerun:"
P = ["C17"]

shape("RerunFormatter", failed_scenarios="seq:ref:Scenario", current_feature="opt:ref:Feature",
      stream_opener="any", stream="any", config="any")
oracle("walk_of", ["ref"], "val")        # the flat scenario list of a feature/rule (rows of outlines included)
oracle("rank", ["val"], "int")           # position of a scenario in that list

contract("abs:ScenarioContainer.walk_scenarios", trusted=True, params={"self": "ref:ScenarioContainer"},
         pos_params=["self", "with_outlines", "with_rules"], defaults={"with_outlines": False, "with_rules": False},
         pure=False, result="seq:ref:Scenario",
         ensures={"value": "result is walk_of(self)", "fresh-list": "is_fresh(result)"},
         doc="flat list of the scenarios of a feature/rule in run order (proved in c10 for the default arguments)")
trusted_note("abs:ScenarioContainer.walk_scenarios",
             "walk_scenarios() abstracted to the sequence walk_of(container) of distinct Scenario objects")

W = "as_list(walk_of(old(self.current_feature)), 'ref:Scenario')"
NEW = "self.failed_scenarios"
contract(F + "RerunFormatter.eof", props=P, params={"self": "ref:RerunFormatter"},
         self_classes=["RerunFormatter"],
         modifies=["self.current_feature", "list(self.failed_scenarios)", "*._cached_status", "*._background_steps"],
         assume={
             "scenarios-are-distinct-and-ranked":
                 "implies(not is_none(self.current_feature), forall(lambda k: implies(0 <= k < len(%s), rank(%s[k]) == k)))"
                 % (W.replace("old(self.current_feature)", "self.current_feature"),
                    W.replace("old(self.current_feature)", "self.current_feature")),
             # C03 link (proved there, modulo its listed known findings for dry-run):
             "failed-scenario-makes-feature-failed (C03)":
                 "implies(not is_none(self.current_feature), implies(exists(lambda k: 0 <= k < len(%s) and child_status(%s[k]).has_failed()), "
                 "child_status(self.current_feature).has_failed()))"
                 % (W.replace("old(self.current_feature)", "self.current_feature"),
                    W.replace("old(self.current_feature)", "self.current_feature")),
         },
         loops=[Loop(invariant={
             "prefix-kept": "len(self.failed_scenarios) >= old(len(self.failed_scenarios)) and "
                            "forall(lambda j: implies(0 <= j < old(len(self.failed_scenarios)), "
                            "self.failed_scenarios[j] is old(self.failed_scenarios[j])))",
             "appended-are-failed-scenarios-seen-so-far":
                 "forall(lambda j: implies(old(len(self.failed_scenarios)) <= j < len(self.failed_scenarios), "
                 "child_status(self.failed_scenarios[j]).has_failed() and 0 <= rank(self.failed_scenarios[j]) < _i "
                 "and self.failed_scenarios[j] is _at(rank(self.failed_scenarios[j]))))",
             "every-failed-scenario-seen-so-far-is-listed":
                 "forall(lambda k: implies(0 <= k < _i and child_status(_at(k)).has_failed(), "
                 "exists(lambda j: old(len(self.failed_scenarios)) <= j < len(self.failed_scenarios) "
                 "and self.failed_scenarios[j] is _at(k))))",
             "run-order": "forall(lambda j1: forall(lambda j2: implies(old(len(self.failed_scenarios)) <= j1 < j2 "
                          "and j2 < len(self.failed_scenarios), "
                          "rank(self.failed_scenarios[j1]) < rank(self.failed_scenarios[j2]))))",
             "same": "_seq is walk_of(self.current_feature) and self.current_feature is old(self.current_feature) "
                     "and self.failed_scenarios is old(self.failed_scenarios)",
         }, modifies=["list(self.failed_scenarios)", "*._cached_status", "*._background_steps"])],
         ensures={
             "earlier-entries-kept":
                 "len(%s) >= old(len(self.failed_scenarios)) and forall(lambda j: implies(0 <= j < old(len(self.failed_scenarios)), "
                 "%s[j] is old(self.failed_scenarios[j])))" % (NEW, NEW),
             "only-unsuccessful-scenarios-of-this-feature":
                 "implies(not is_none(old(self.current_feature)), forall(lambda j: implies(old(len(self.failed_scenarios)) <= j < len(%s), "
                 "child_status(%s[j]).has_failed() and 0 <= rank(%s[j]) < len(%s) and %s[j] is %s[rank(%s[j])])))"
                 % (NEW, NEW, NEW, W, NEW, W, NEW),
             "every-unsuccessful-scenario-listed":
                 "implies(not is_none(old(self.current_feature)), forall(lambda k: implies(0 <= k < len(%s) and child_status(%s[k]).has_failed(), "
                 "exists(lambda j: old(len(self.failed_scenarios)) <= j < len(%s) and %s[j] is %s[k]))))"
                 % (W, W, NEW, NEW, W),
             "in-run-order":
                 "forall(lambda j1: forall(lambda j2: implies(old(len(self.failed_scenarios)) <= j1 < j2 and j2 < len(%s), "
                 "rank(%s[j1]) < rank(%s[j2]))))" % (NEW, NEW, NEW),
             "nothing-listed-without-feature":
                 "implies(is_none(old(self.current_feature)), len(%s) == old(len(self.failed_scenarios)))" % NEW,
             "feature-reset": "self.current_feature is None",
         })

contract(F + "RerunFormatter.feature", props=P, params={"self": "ref:RerunFormatter", "feature": "ref:Feature"},
         modifies=["self.current_feature"],
         ensures={"remembers-feature": "self.current_feature is feature"})

prop("C17", level="proof", bounded=[],
     explanation="RerunFormatter.eof proved to append exactly the scenarios of the finished feature whose status "
                 "has_failed(), in run order; file writing / feed-back are bounded",
     notes=["link 'a failed scenario makes its feature failed-class' is assumed here and proved under C03 "
            "(with the dry-run known findings KF-C03-2*)"])

# -- end of run: the rerun file is written iff something failed; a stale file of an earlier run is removed otherwise ---------
from pyvc.contracts import ghost
ghost("rr_written", "bool")
ghost("rr_removed", "bool")
oracle("file_exists", ["val"], "bool")
contract("abs:RerunFormatter.report_scenario_failures", trusted=True, params={"self": "ref:RerunFormatter"}, pos_params=["self"],
         modifies=["G_rr_written"], ensures={"written": "G_rr_written == True"}, doc="writes the rerun file content (text: bounded)")
contract("abs:RerunFormatter.open", trusted=True, params={"self": "ref:RerunFormatter"}, pos_params=["self"], pure=True, result="any")
contract("abs:RerunFormatter.close_stream", trusted=True, params={"self": "ref:RerunFormatter"}, pos_params=["self"], pure=True)
contract("lib:os.path.exists", trusted=True, pos_params=["path"], pure=True, result="bool", ensures={"value": "result == file_exists(path)"})
contract("lib:os.remove", trusted=True, pos_params=["path"], modifies=["G_rr_removed"], ensures={"removed": "G_rr_removed == True"})
shape("StreamOpener", name="any")
shape("RerunFormatter", stream_opener="ref:StreamOpener")
contract(F + "RerunFormatter.close", props=P, params={"self": "ref:RerunFormatter"}, self_classes=["RerunFormatter"],
         modifies=["G_rr_written", "G_rr_removed", "self.stream"],
         ensures={"written-iff-some-scenario-is-listed":
                  "G_rr_written == (old(G_rr_written) or len(self.failed_scenarios) > 0)",
                  "stale-file-removed-when-nothing-failed":
                  "implies(len(self.failed_scenarios) == 0 and truthy(self.stream_opener.name) and file_exists(self.stream_opener.name), "
                  "G_rr_removed == True)",
                  "never-removed-when-something-failed": "implies(len(self.failed_scenarios) > 0, G_rr_removed == old(G_rr_removed))"})
