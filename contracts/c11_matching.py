# -*- coding: utf-8 -*-
"""C11 -- step matching and dispatch (DESIGN.md 5.11)."""
from pyvc.contracts import contract, oracle, ghost, Loop, shape, trusted_note, macro, Raises, global_const
from contracts import prop

S = "behave.step_registry:"
MT = "behave.matchers:"
P = ["C11"]

shape("StepRegistry", steps="dict:seq:ref:Matcher", error_handler="any")
shape("Matcher", func="any", pattern="str", step_type="str", _location="any")
shape("Match", func="any", arguments="seq:ref:Argument", location="any")
shape("MatchWithError", stored_error="any")
shape("Argument", start="any", end="any", original="any", value="any", name="opt:str")

oracle("match_result", ["ref", "val"], "val")        # step_definition.match(text)
oracle("matches_text", ["ref", "val"], "bool")       # existing.matches(pattern)
oracle("same_def", ["ref", "val", "val"], "bool")    # same_step_definition(existing, pattern, location)

contract("abs:Matcher.match", trusted=True, params={"self": "ref:Matcher"}, pos_params=["self", "step_text"],
         pure=True, ensures={"value": "result == match_result(self, step_text)"},
         doc="dynamic dispatch target in the registry loops; Matcher.match itself is proved below")
contract("abs:Matcher.matches", trusted=True, params={"self": "ref:Matcher"}, pos_params=["self", "step_text"],
         pure=True, result="any", ensures={"value": "truthy(result) == matches_text(self, step_text)"})
trusted_note("abs:Matcher.match", "in the registry loops a matcher's match()/matches() is a pure function of (matcher, text); "
             "full-text / case-sensitive matching lives in parse/re (A-lib) and is checked bounded")

TYPES = "('given', 'when', 'then', 'step')"
macro("reg_ok", ["reg"],
      "has_key(reg.steps, 'given') and has_key(reg.steps, 'when') and has_key(reg.steps, 'then') and has_key(reg.steps, 'step')")
macro("typed_list", ["reg", "t"], "as_list(dict_value(reg.steps, t), 'ref:Matcher')")
macro("ncand", ["reg", "t"],
      "len(typed_list(reg, t)) + (0 if t == 'step' else len(typed_list(reg, 'step')))")
macro("cand", ["reg", "t", "k"],
      "ite(k < len(typed_list(reg, t)), typed_list(reg, t)[k], typed_list(reg, 'step')[k - len(typed_list(reg, t))])")


def finder(name, hit, miss_value):
    contract(S + "StepRegistry." + name, props=P,
             params={"self": "ref:StepRegistry", "step": "ref:Step"}, self_classes=["StepRegistry"],
             requires={"registry-shape": "reg_ok(self)", "known-step-type": "step.step_type in " + TYPES},
             loops=[Loop(invariant={
                 "no-earlier-candidate-matched":
                     "forall(lambda k: implies(0 <= k < _i, not truthy(match_result(_at(k), step.name))))",
                 "candidates-are-type-list-then-generic-list":
                     "_n == ncand(self, step.step_type) and "
                     "forall(lambda k: implies(0 <= k < _n, _at(k) is cand(self, step.step_type, k)))",
             })],
             ensures={
                 "first-matching-candidate-wins":
                     "forall(lambda j: implies(0 <= j < ncand(self, step.step_type) "
                     "and truthy(match_result(cand(self, step.step_type, j), step.name)) "
                     "and forall(lambda i: implies(0 <= i < j, not truthy(match_result(cand(self, step.step_type, i), step.name)))), "
                     "result == %s))" % hit,
                 "no-candidate-matches-gives-none":
                     "implies(forall(lambda j: implies(0 <= j < ncand(self, step.step_type), "
                     "not truthy(match_result(cand(self, step.step_type, j), step.name)))), result is None)",
             },
             doc="candidates = definitions of the step's own type (registration order) followed by generic ones; "
                 "frame: registry lists unchanged (no `modifies`)")


finder("find_match", "match_result(cand(self, step.step_type, j), step.name)", None)
finder("find_step_definition", "cand(self, step.step_type, j)", None)

# -- Matcher.match / matches / MatchWithError.run ------------------------------------------
oracle("cm_outcome", ["ref", "val"], "int")      # 0 returns, 1 NotImplementedError, 2 other exception
oracle("cm_result", ["ref", "val"], "val")
contract("abs:Matcher.check_match", trusted=True, params={"self": "ref:Matcher"},
         pos_params=["self", "step_text"], pure=True,
         raises=[Raises("NotImplementedError", when="cm_outcome(self, step_text) == 1"),
                 Raises("Exception", when="cm_outcome(self, step_text) == 2")],
         ensures={"value": "result == cm_result(self, step_text) and cm_outcome(self, step_text) == 0"},
         doc="parse/re based check_match of the concrete matcher (A-lib); may raise")
contract("new:Match", pos_params=["func", "arguments"], defaults={"arguments": None}, fresh_result="Match",
         ensures={"fields": "result.func == func and result.arguments is arguments and exact_type(result, 'Match')"})
contract("new:MatchWithError", pos_params=["func", "error"], fresh_result="MatchWithError",
         ensures={"fields": "result.func == func and result.stored_error == error"})
contract(MT + "Matcher.match", props=P + ["C02"], params={"self": "ref:Matcher", "step_text": "str"},
         raises=[Raises("NotImplementedError", when="cm_outcome(self, step_text) == 1")],
         ensures={
             "conversion-error-is-kept-for-the-step":
                 "implies(cm_outcome(self, step_text) == 2, typeof_is(result, 'MatchWithError') "
                 "and as_ref(result, 'MatchWithError').func == self.func)",
             "no-match": "implies(cm_outcome(self, step_text) == 0 and is_none(cm_result(self, step_text)), result is None)",
             "match-carries-function-and-arguments":
                 "implies(cm_outcome(self, step_text) == 0 and not is_none(cm_result(self, step_text)), "
                 "exact_type(result, 'Match') and as_ref(result, 'Match').func == self.func "
                 "and as_ref(result, 'Match').arguments is cm_result(self, step_text))",
         })
contract("abs:self.match", trusted=False, pos_params=["self", "step_text"], pure=True,
         ensures={"value": "result == match_result(self, step_text)"})
contract(MT + "Matcher.matches", props=P, params={"self": "ref:Matcher", "step_text": "str"},
         callsites={"self.match": "abs:self.match"},
         ensures={
             "identical-text-matches": "implies(self.pattern == step_text, result == True)",
             "otherwise-real-match-only":
                 "implies(self.pattern != step_text, truthy(result) == (truthy(match_result(self, step_text)) "
                 "and typeof_is(match_result(self, step_text), 'Match') "
                 "and not typeof_is(match_result(self, step_text), 'MatchWithError')))",
         })
contract(MT + "MatchWithError.run", props=P + ["C02"], params={"self": "ref:MatchWithError", "context": "any"},
         raises=[Raises("StepParseError", when="True")],
         doc="always raises StepParseError (the stored conversion error is reported by Step.run as an error)")

# -- Match.run: positional / keyword split ---------------------------------------------------
ghost("sf_calls", "int")
ghost("sf_last_args", "val")
ghost("sf_last_kwargs", "val")
oracle("n_unnamed", ["ref", "int"], "int")     # number of anonymous arguments among the first k
contract("user:step_function", trusted=True, pos_params=["context"], vararg="args", kwarg="kwargs",
         modifies=["G_sf_calls", "G_sf_last_args", "G_sf_last_kwargs"],
         ensures={"recorded": "G_sf_calls == old(G_sf_calls) + 1 and G_sf_last_args is args and G_sf_last_kwargs is kwargs"},
         doc="the user's step function: ghost record of the call (A-user: returns normally here; exceptions are Step.run's business)")
contract("ctx:user_mode.enter", trusted=True, pos_params=[], pure=True, doc="context.use_with_user_mode() enter")
contract("ctx:user_mode.exit", trusted=True, pos_params=[], pure=True, doc="context.use_with_user_mode() exit")
ARGS = "as_list(self.arguments, 'ref:Argument')"
contract(MT + "Match.run", props=P + ["C02"], params={"self": "ref:Match", "context": "any"},
         self_classes=["Match"],
         callsites={"self.func": "user:step_function"},
         with_items={"context.use_with_user_mode()": ("ctx:user_mode.enter", "ctx:user_mode.exit")},
         modifies=["G_sf_calls", "G_sf_last_args", "G_sf_last_kwargs"],
         assume={"definition-of-n_unnamed":
                 "n_unnamed(self, 0) == 0 and forall(lambda k: implies(0 <= k < len(%s), n_unnamed(self, k + 1) == "
                 "n_unnamed(self, k) + (1 if %s[k].name is None else 0)))" % (ARGS, ARGS),
                 },
         loops=[Loop(invariant={
             "positional-so-far": "len(args) == n_unnamed(self, _i) and forall(lambda k: implies(0 <= k < _i and "
                                  "_at(k).name is None, args[n_unnamed(self, k)] == _at(k).value))",
             "keyword-so-far": "forall(lambda k: implies(0 <= k < _i and _at(k).name is not None, "
                               "has_key(kwargs, _at(k).name)))"
                               " and forall(lambda x: implies(has_key(kwargs, x), exists(lambda k: 0 <= k < _i and _at(k).name == x)))",
             "count-is-monotone": "forall(lambda k: implies(0 <= k <= _i, n_unnamed(self, k) <= n_unnamed(self, _i)))",
             "same": "_seq is self.arguments and 0 <= n_unnamed(self, _i) <= _i",
         })],
         ensures={
             "called-exactly-once": "G_sf_calls == old(G_sf_calls) + 1",
             "anonymous-parameters-by-position-in-text-order":
                 "len(as_list(G_sf_last_args, 'any')) == n_unnamed(self, len(%s)) and "
                 "forall(lambda k: implies(0 <= k < len(%s) and %s[k].name is None, "
                 "as_list(G_sf_last_args, 'any')[n_unnamed(self, k)] == %s[k].value))" % (ARGS, ARGS, ARGS, ARGS),
             "named-parameters-by-keyword":
                 "forall(lambda k: implies(0 <= k < len(%s) and %s[k].name is not None, has_key(G_sf_last_kwargs, %s[k].name)))"
                 " and forall(lambda x: implies(has_key(G_sf_last_kwargs, x), "
                 "exists(lambda k: 0 <= k < len(%s) and %s[k].name == x)))" % (ARGS, ARGS, ARGS, ARGS, ARGS),
         })

# -- "re" matchers: the compiled expression is the (anchored) pattern, however it gets compiled ------------------------
oracle("compiled", ["val"], "val")            # re.compile(pattern, re.UNICODE)
shape("RegexMatcher", _regex="any")
global_const("re", ("module", "re"))
contract("lib:re.compile", trusted=True, pos_params=["pattern", "flags"], defaults={"flags": 0}, pure=True, result="any",
         ensures={"value": "result == compiled(pattern) and not is_none(result)"},
         doc="re.compile(pattern, re.UNICODE): a function of the pattern text (A-lib); may raise re.error for a bad pattern (A-user)")
ANCHORED = "compiled('^%s$' % self.pattern)"
PLAIN = "compiled(self.pattern)"
for _cls, _expr in (("RegexMatcher", PLAIN), ("SimplifiedRegexMatcher", ANCHORED)):
    contract(MT + _cls + ".regex", props=P, params={"self": "ref:" + _cls}, self_classes=[_cls], result="any",
             callsites={"re.compile": "lib:re.compile"}, modifies=["self._regex"],
             ensures={"compiled-lazily-once": "implies(not is_none(old(self._regex)), result == old(self._regex) and self._regex == old(self._regex))",
                      "the-expression-that-is-compiled": "implies(is_none(old(self._regex)), result == %s and self._regex == result)" % _expr},
             doc="full-text matching of the 're' matcher comes from the '^...$' anchors added here" if _cls != "RegexMatcher" else "")
contract(MT + "RegexMatcher.compile", props=P, params={"self": "ref:RegexMatcher"},
         self_classes=["RegexMatcher", "SimplifiedRegexMatcher", "CucumberRegexMatcher"],
         callsites={"re.compile": "lib:re.compile"}, modifies=["self._regex"],
         requires={"nothing-compiled-yet-or-the-matcher's-own-expression":
                   "is_none(self._regex) or self._regex == (%s if typeof_is(self, 'SimplifiedRegexMatcher') else %s)" % (ANCHORED, PLAIN)},
         ensures={"returns-the-matcher": "result is self",
                  "compiles-the-matcher's-own-expression-anchored-for-the-re-matcher":
                      "self._regex == (%s if typeof_is(self, 'SimplifiedRegexMatcher') else %s)" % (ANCHORED, PLAIN)},
         doc="add_step_definition compiles every new matcher through this method: the 're' matcher must end up with the "
             "anchored expression (whole-text match), 're0' with the pattern as written")

# -- the matcher class in force: a default chosen by the user survives the per-module reset ------------------------------
shape("StepMatcherFactory", step_matcher_class_mapping="dict", default_matcher="any", default_matcher_name="any", _current_matcher="any")
contract(MT + "StepMatcherFactory.use_default_step_matcher", props=P, params={"self": "ref:StepMatcherFactory", "name": "opt:str"},
         self_classes=["StepMatcherFactory"], lookup_raises=True,
         raises=[Raises("KeyError", when="truthy(name) and not has_key(self.step_matcher_class_mapping, name)", label="unknown-matcher-name")],
         modifies=["self.default_matcher", "self.default_matcher_name", "self._current_matcher"],
         ensures={"without-a-name-the-stored-default-class-becomes-current-and-stays-the-default":
                  "implies(not truthy(name), self._current_matcher == old(self.default_matcher) and "
                  "self.default_matcher == old(self.default_matcher) and result == old(self.default_matcher))",
                  "with-a-name-that-class-becomes-default-and-current":
                  "implies(truthy(name), self.default_matcher == dict_value(self.step_matcher_class_mapping, name) and "
                  "self._current_matcher == self.default_matcher and self.default_matcher_name == name and result == self.default_matcher)"},
         doc="load_step_modules resets to the default before every step module: a default installed with "
             "use_current_step_matcher_as_default() (class only, no name) must survive that reset")
contract(MT + "StepMatcherFactory.use_current_step_matcher_as_default", props=P, params={"self": "ref:StepMatcherFactory"},
         self_classes=["StepMatcherFactory"], modifies=["self.default_matcher"],
         ensures={"the-current-class-is-the-default-from-now-on": "self.default_matcher == self._current_matcher"})

# -- step definition identity: the location of the innermost wrapped function ----------------------------------------------
oracle("wrapped_of", ["val"], "val")        # getattr(f, "__wrapped__", None)
oracle("unwrapped", ["val", "int"], "val")  # f after k unwrap steps
contract("abs:getattr.__wrapped__", trusted=True, pos_params=["func", "name", "default"], pure=True, result="any",
         ensures={"value": "result == wrapped_of(func)"}, doc="getattr(func, '__wrapped__', None) (A-lib)")
contract("behave.model_core:unwrap_function", props=P, params={"func": "any", "max_depth": "int"},
         exprs={"getattr(func, '__wrapped__', None)": ("contract", "abs:getattr.__wrapped__")},
         requires={"a-depth-limit": "max_depth >= 0"},
         assume={"definition-of-unwrapped: follow __wrapped__ k times":
                 "unwrapped(func, 0) == func and forall(lambda k: implies(0 <= k, unwrapped(func, k + 1) == wrapped_of(unwrapped(func, k))))"},
         loops=[Loop(invariant={"k-levels-removed": "0 <= iteration <= max_depth and func == unwrapped(pre(func), iteration) and "
                                                    "wrapped == wrapped_of(func) and "
                                                    "forall(lambda k: implies(0 <= k < iteration, truthy(wrapped_of(unwrapped(pre(func), k)))))"})],
         ensures={"every-wrapper-level-is-removed-up-to-the-depth-limit":
                  "exists(lambda n: 0 <= n <= max_depth and result == unwrapped(func, n) and "
                  "(n == max_depth or not truthy(wrapped_of(unwrapped(func, n)))) and "
                  "forall(lambda k: implies(0 <= k < n, truthy(wrapped_of(unwrapped(func, k))))))"},
         doc="the location of a step definition (Matcher.location, same_step_definition) is that of the innermost function: "
             "two different functions under the same stack of decorators stay different definitions")

prop("C11", level="proof", bounded=[],
     explanation="dispatch order (own type before generic, earlier before later, first hit wins), Matcher.match/matches "
                 "outcome mapping and the positional/keyword split of Match.run proved; full-text and case-sensitive "
                 "matching (parse/re) and check_match spans are bounded",
     notes=["add_step_definition / ambiguity detection: bounded stand-in (registration histories)"])

# -- 're' matcher arguments: one reported argument per regex group, in group order, offsets of that group ------------
oracle("re_match", ["val", "val"], "val")       # compiled.match(text)
oracle("re_groups", ["val"], "val")             # match.groups() (a tuple)
oracle("re_start", ["val", "val"], "val")
oracle("re_end", ["val", "val"], "val")
oracle("re_group_name", ["val", "val"], "val")  # name of the group with that number (None if unnamed)
contract("abs:re.Pattern.match", trusted=True, pos_params=["self", "text"], pure=True, result="any",
         ensures={"value": "result == re_match(self, text)"}, doc="compiled.match(text) (A-lib: a function of expression and text)")
contract("abs:re.Match.groups", trusted=True, pos_params=["self"], pure=True, result="seq:any",
         ensures={"value": "result is re_groups(self)"}, doc="match.groups(): one entry per group, None for a group that did not participate")
contract("abs:re.Match.start", trusted=True, pos_params=["self", "group"], pure=True, result="any", ensures={"value": "result == re_start(self, group)"})
contract("abs:re.Match.end", trusted=True, pos_params=["self", "group"], pure=True, result="any", ensures={"value": "result == re_end(self, group)"})
contract("abs:group_index.get", trusted=True, pos_params=["self", "index", "default"], pure=True, result="opt:str",
         ensures={"value": "result == re_group_name(self, index)"}, doc="number -> name map built from regex.groupindex")
contract("new:Argument", trusted=True, pos_params=["start", "end", "original", "value", "name"], defaults={"name": None},
         fresh_result="Argument",
         ensures={"stores": "result.start == start and result.end == end and result.original == original and result.value == value "
                            "and result.name == name"}, doc="behave.model_core.Argument(start, end, original, value, name)")
GR = "as_list(re_groups(re_match(self._regex, step_text)), 'any')"
contract(MT + "RegexMatcher.check_match", props=P, params={"self": "ref:RegexMatcher", "step_text": "str"},
         self_classes=["RegexMatcher", "SimplifiedRegexMatcher", "CucumberRegexMatcher"], result="opt:seq:ref:Argument",
         callsites={"self.regex.match": "abs:re.Pattern.match", "matched.groups": "abs:re.Match.groups",
                    "matched.start": "abs:re.Match.start", "matched.end": "abs:re.Match.end",
                    "group_index.get": "abs:group_index.get", "Argument": "new:Argument"},
         exprs={"dict(((y, x) for x, y in self.regex.groupindex.items()))": ("fresh", "any")},
         modifies=["self._regex"], locals={"args": "seq:ref:Argument"},
         loops=[Loop(modifies=["list(args)"], invariant={
             "one-argument-per-group-so-far-in-group-order":
                 "len(args) == _i and forall(lambda k: implies(0 <= k < _i, is_fresh(as_list(args, 'ref:Argument')[k]) and as_list(args, 'ref:Argument')[k].value == _seq[k] and "
                 "as_list(args, 'ref:Argument')[k].start == re_start(matched, k + 1) and as_list(args, 'ref:Argument')[k].end == re_end(matched, k + 1)))",
             "same": "_seq is re_groups(matched)"})],
         ensures={
             "no-match-no-arguments": "implies(not truthy(re_match(self._regex, step_text)), is_none(result))",
             "one-argument-per-regex-group-in-group-order (a group that did not participate is reported as None, not dropped: "
             "positional step parameters keep their positions)":
                 "implies(truthy(re_match(self._regex, step_text)), not is_none(result) and len(as_list(result, 'ref:Argument')) == len(%s) and "
                 "forall(lambda k: implies(0 <= k < len(%s), as_list(result, 'ref:Argument')[k].value == %s[k] and "
                 "as_list(result, 'ref:Argument')[k].start == re_start(re_match(self._regex, step_text), k + 1) and "
                 "as_list(result, 'ref:Argument')[k].end == re_end(re_match(self._regex, step_text), k + 1))))" % (GR, GR, GR)},
         doc="positional arguments are passed to the step function by position: dropping an optional group that did not "
             "match would shift every later argument")
