# -*- coding: utf-8 -*-
"""Shared vocabulary of the run-method contracts (C01, C02, C09, C12, C13, C15, C18):
ghost state, oracles (the universally quantified user behaviour), abstract contracts of
user code, of the Context (layered scopes, proved/bounded under C13) and of formatters."""
from pyvc.contracts import (contract, oracle, ghost, Loop, Raises, shape, trusted_note, macro,
                            global_const, virtual_class)

R = "behave.runner:"
M = "behave.model:"

# ---------------------------------------------------------------------------------------
# ghost state (exists only in contracts; changed only by callee contracts at abstracted calls)
ghost("bad", "int")            # number of "something went wrong" events so far (C01)
ghost("nhooks", "int")         # hook invocations so far (C12)
ghost("hook_name", "array")
ghost("hook_arg", "array")
ghost("hook_out", "array")     # sys.stdout while the k-th hook ran (C18: nothing a step hook writes reaches the real stream)
ghost("hook_err", "array")
ghost("ncalls", "int")         # step-function invocations so far (C02)
ghost("calls", "array")        # the Match objects run, in order
ghost("nev", "int")            # formatter events so far, broadcast to every formatter (C15)
ghost("ev_kind", "array")
ghost("ev_arg", "array")
ghost("ev_status", "array")    # for a result event: the status the step had when the event was emitted
ghost("ctx_depth", "int")      # context scope depth (C13)
ghost("ctx_scenario", "val")   # value of context.scenario (ABSENT when not set in any open scope)
ghost("ctx_feature", "val")
ghost("ctx_aborted", "bool")
ghost("ctx_saved_scenario", "array")
ghost("ctx_rule", "val")       # value of context.rule (ABSENT when not set in any open scope)
ghost("ctx_saved_rule", "array")
ghost("npops", "int")
ghost("ncleanup_runs", "int")

# oracles: the quantifier of the properties ("for all behaviours of user code")
oracle("hook_raises", ["int"], "bool")        # does the k-th hook invocation raise?
oracle("call_outcome", ["int"], "int")        # outcome of the k-th step-function invocation
oracle("step_match", ["ref"], "val")          # step_registry.find_match(step): None or a Match
oracle("pop_raises", ["int"], "bool")         # does a cleanup of the k-th closed scope raise?
oracle("eff_tag", ["ref", "val"], "bool")     # tag in element.effective_tags
oracle("tag_check", ["val", "ref"], "bool")   # tag_expression.check(effective tags of element)
oracle("name_selected", ["val", "ref"], "bool")

global_const("ABSENT", ("sentinel", 7))
global_const("_text", ("contract", "lib:textutil.text"))
global_const("ExceptionUtil", ("module", "ExceptionUtil"))
contract("lib:textutil.text", trusted=True, pos_params=["value"], pure=True, result="str",
         ensures={"text-of-a-string-is-that-string": "implies(has_kind(value, 'str'), result == value)"},
         doc="behave.textutil.text(): conversion to text (A-noeffect)")

# the element a failing before_tag/after_tag hook is attributed to: innermost of scenario, rule, feature
macro("hook_target", [], "ite(G_ctx_scenario is ABSENT, ite(G_ctx_rule is ABSENT, G_ctx_feature, G_ctx_rule), G_ctx_scenario)")

# outcome alphabet of a step function (C01/C02)
RETURNS, ASSERT_FAIL, EXCEPTION, NOT_IMPLEMENTED, KBI, SKIP_SCENARIO = range(6)

shape("ModelRunner", config="ref:Configuration", features="seq:ref:Feature", hooks="dict", formatters="seq:any",
      _undefined_steps="seq:ref:Step", step_registry="any", capture_controller="ref:CaptureController",
      context="opt:ref:Context", feature="any", hook_failures="int")
shape("Context")
shape("Configuration", name="any", name_re="any", tag_expression="any", reporters="seq:any")

# ---------------------------------------------------------------------------------------
# Context: layered scopes (view proved under C13); only what the run methods rely on
contract("abs:Context._push", trusted=True, params={"self": "ref:Context"}, pos_params=["self", "layer"],
         defaults={"layer": None},
         modifies=["G_ctx_depth"],
         ghost_stores=[("ctx_saved_scenario", "G_ctx_depth", "G_ctx_scenario"),
                       ("ctx_saved_rule", "G_ctx_depth", "G_ctx_rule")],
         ensures={"deeper": "G_ctx_depth == old(G_ctx_depth) + 1"},
         doc="opens a scope")
contract("abs:Context._pop", trusted=True, params={"self": "ref:Context"}, pos_params=["self"],
         modifies=["G_ctx_depth", "G_ctx_scenario", "G_ctx_rule", "G_npops", "G_bad", "G_ncleanup_runs"],
         raises=[Raises("Exception", when="pop_raises(G_npops)",
                        ensures={"scope-closed": "G_ctx_depth == old(G_ctx_depth) - 1 and G_npops == old(G_npops) + 1 "
                                                 "and G_ctx_scenario == old(G_ctx_saved_scenario(G_ctx_depth - 1)) "
                                                 "and G_ctx_rule == old(G_ctx_saved_rule(G_ctx_depth - 1)) "
                                                 "and G_bad == old(G_bad) + 1"})],
         ensures={"scope-closed": "G_ctx_depth == old(G_ctx_depth) - 1 and G_npops == old(G_npops) + 1 "
                                  "and G_ctx_scenario == old(G_ctx_saved_scenario(G_ctx_depth - 1)) "
                                  "and G_ctx_rule == old(G_ctx_saved_rule(G_ctx_depth - 1)) and G_bad == old(G_bad)"},
         doc="closes the scope on normal and exceptional exit (finally), runs its cleanups; raises iff a cleanup raised")
contract("abs:Context.__setattr__", trusted=True, params={"self": "ref:Context"}, pos_params=["self", "attr", "value"],
         modifies=["G_ctx_scenario", "G_ctx_feature", "G_ctx_rule"],
         ensures={"scenario": "G_ctx_scenario == ite(attr == 'scenario', value, old(G_ctx_scenario))",
                  "rule": "G_ctx_rule == ite(attr == 'rule', value, old(G_ctx_rule))",
                  "feature": "G_ctx_feature == ite(attr == 'feature', value, old(G_ctx_feature))"},
         doc="attribute store in the innermost scope")
contract("abs:Context.__getattr__", trusted=True, params={"self": "ref:Context"}, pos_params=["self", "attr"],
         pure=True,
         raises=[Raises("AttributeError", when="(attr == 'scenario' and G_ctx_scenario is ABSENT) or "
                                               "(attr == 'rule' and G_ctx_rule is ABSENT)")],
         ensures={"scenario": "implies(attr == 'scenario', result == G_ctx_scenario)",
                  "rule": "implies(attr == 'rule', result == G_ctx_rule)",
                  "feature": "implies(attr == 'feature', result == G_ctx_feature)",
                  "aborted": "implies(attr == 'aborted', result == G_ctx_aborted)"},
         doc="attribute lookup through the open scopes")
contract("abs:Context._set_root_attribute", trusted=True, params={"self": "ref:Context"},
         pos_params=["self", "attr", "value"], modifies=["G_ctx_aborted"],
         ensures={"aborted": "G_ctx_aborted == ite(attr == 'aborted', truthy(value), old(G_ctx_aborted))"})
contract(R + "Context.abort", inline=True)
contract(R + "ModelRunner.aborted", inline=True)
contract(R + "ModelRunner.abort", inline=True)
contract(R + "ModelRunner.undefined_steps", inline=True)
contract(R + "ModelRunner.start_capture", inline=True)
contract(R + "ModelRunner.stop_capture", inline=True)
contract(R + "ModelRunner.teardown_capture", inline=True)
contract("ctx:user_mode.enter", trusted=True, pos_params=[], pure=True, doc="context.use_with_user_mode() enter")
contract("ctx:user_mode.exit", trusted=True, pos_params=[], pure=True, doc="context.use_with_user_mode() exit (mode restored)")
trusted_note("abs:Context._pop", "Context scope operations abstracted to a depth counter and the value of "
             "context.scenario/feature/aborted (layered-scope view: C13)")

# ---------------------------------------------------------------------------------------
# user hooks
contract("user:hook", trusted=True, pos_params=["context"], vararg="args", globals={"sys": ("singleton", "SysModule")},
         modifies=["G_nhooks", "G_hook_name", "G_hook_arg", "G_hook_out", "G_hook_err", "G_bad"],
         ghost_stores=[("hook_out", "G_nhooks", "sys.stdout"), ("hook_err", "G_nhooks", "sys.stderr")],
         raises=[Raises("Exception", when="hook_raises(G_nhooks)",
                        ensures={"logged": "G_nhooks == old(G_nhooks) + 1 and G_bad == old(G_bad) + 1"})],
         ensures={"logged": "G_nhooks == old(G_nhooks) + 1 and G_bad == old(G_bad)"},
         doc="a user hook function: raises an Exception subclass iff hook_raises(k) (A-hook)")
trusted_note("user:hook", "A-hook: hooks raise only Exception subclasses and touch the model only through documented API; a hook "
             "raising KeyboardInterrupt is outside the contracts -- its effect on capture is the bounded check "
             "real-runs-hook-interrupt (KF-C18-3)")

contract(R + "ModelRunner.run_hook", props=["C12", "C01"],
         params={"self": "ref:ModelRunner", "name": "str", "context": "ref:Context", "args": "tuple:any"},
         self_classes=["ModelRunner"], globals={"sys": ("singleton", "SysModule")},
         requires={"context-is-the-runners": "self.context is context",
                   "element-and-tag-hooks-get-their-argument": "implies(str_in('tag', name) or not str_in('all', name), len(args) >= 1)",
                   "element-hooks-get-a-model-element":
                       "implies(not str_in('tag', name) and not str_in('all', name), typeof_is(args[0], 'BasicStatement'))",
                   "context-attributes-are-model-elements":
                       "(G_ctx_scenario is ABSENT or typeof_is(G_ctx_scenario, 'Scenario')) and "
                       "(is_none(G_ctx_feature) or typeof_is(G_ctx_feature, 'Feature')) and (G_ctx_rule is ABSENT or typeof_is(G_ctx_rule, 'Rule'))"},
         callsites={"self.hooks[name]": "user:hook"},
         with_items={"context.use_with_user_mode()": ("ctx:user_mode.enter", "ctx:user_mode.exit")},
         modifies=["G_nhooks", "G_hook_name", "G_hook_arg", "G_hook_out", "G_hook_err", "G_bad", "G_ctx_aborted", "self.hook_failures",
                   "*.hook_failed", "*.error_message", "*.exception", "*.exc_traceback"],
         ensures={
             "no-hook-in-dry-run-or-when-undefined":
                 "implies(self.config.dry_run or not has_key(self.hooks, name), "
                 "G_nhooks == old(G_nhooks) and G_bad == old(G_bad) and self.hook_failures == old(self.hook_failures) "
                 "and G_ctx_aborted == old(G_ctx_aborted) and unchanged('hook_failed') and unchanged('error_message') and unchanged('exception') and unchanged('exc_traceback'))",
             "hook-called-once":
                 "implies(not self.config.dry_run and has_key(self.hooks, name), G_nhooks == old(G_nhooks) + 1)",
             "the-hook-sees-the-streams-in-force-at-the-call":
                 "implies(not self.config.dry_run and has_key(self.hooks, name), G_hook_out(old(G_nhooks)) is old(sys.stdout) "
                 "and G_hook_err(old(G_nhooks)) is old(sys.stderr))",
             "earlier-hook-log-kept":
                 "forall(lambda k: implies(k < old(G_nhooks), G_hook_out(k) == old(G_hook_out(k)) and G_hook_err(k) == old(G_hook_err(k))))",
             "passing-hook-changes-nothing":
                 "implies(not self.config.dry_run and has_key(self.hooks, name) and not hook_raises(old(G_nhooks)), "
                 "G_bad == old(G_bad) and self.hook_failures == old(self.hook_failures) and G_ctx_aborted == old(G_ctx_aborted) and unchanged('hook_failed') and unchanged('error_message') and unchanged('exception') and unchanged('exc_traceback'))",
             "raising-hook-is-contained-and-counted":
                 "implies(not self.config.dry_run and has_key(self.hooks, name) and hook_raises(old(G_nhooks)), "
                 "self.hook_failures == old(self.hook_failures) + 1 and G_bad == old(G_bad) + 1)",
             "bad-events-never-decrease": "G_bad >= old(G_bad)",
             "abort-only-with-a-bad-event": "implies(G_ctx_aborted and not old(G_ctx_aborted), G_bad > old(G_bad))",
             "element-hook-failure-marks-that-element":
                 "implies(not self.config.dry_run and has_key(self.hooks, name) and hook_raises(old(G_nhooks)) "
                 "and not str_in('tag', name) and not str_in('all', name) and len(args) > 0 and truthy(args[0]), "
                 "as_ref(args[0], 'BasicStatement').hook_failed == True and not is_none(as_ref(args[0], 'BasicStatement').error_message))",
             "element-hook-failure-touches-only-that-element":
                 "implies(not self.config.dry_run and has_key(self.hooks, name) and hook_raises(old(G_nhooks)) "
                 "and not str_in('tag', name) and not str_in('all', name) and len(args) > 0, unchanged_except('hook_failed', args[0]) and unchanged_except('error_message', args[0]) and unchanged_except('exception', args[0]) and unchanged_except('exc_traceback', args[0]) and G_ctx_aborted == old(G_ctx_aborted))",
             "tag-hook-failure-touches-only-that-element":
                 "implies(not self.config.dry_run and has_key(self.hooks, name) and hook_raises(old(G_nhooks)) "
                 "and str_in('tag', name), unchanged_except('hook_failed', hook_target()) and unchanged_except('error_message', hook_target()) and unchanged_except('exception', hook_target()) and unchanged_except('exc_traceback', hook_target()) and G_ctx_aborted == old(G_ctx_aborted))",
             "all-hook-failure-touches-no-element":
                 "implies(not self.config.dry_run and has_key(self.hooks, name) and hook_raises(old(G_nhooks)) "
                 "and not str_in('tag', name) and str_in('all', name), unchanged('hook_failed') and unchanged('error_message') and unchanged('exception') and unchanged('exc_traceback'))",
             "all-hook-failure-aborts":
                 "implies(not self.config.dry_run and has_key(self.hooks, name) and hook_raises(old(G_nhooks)) "
                 "and not str_in('tag', name) and str_in('all', name), G_ctx_aborted == True)",
             "tag-hook-failure-marks-innermost-of-scenario-rule-feature":
                 "implies(not self.config.dry_run and has_key(self.hooks, name) and hook_raises(old(G_nhooks)) "
                 "and str_in('tag', name) and len(args) > 0, "
                 "implies(truthy(hook_target()), "
                 "as_ref(hook_target(), 'BasicStatement').hook_failed == True))",
         },
         doc="an exception in a hook never escapes (no `raises` entry): it is recorded on the element concerned")

contract("abs:TagAndStatusStatement.effective_tags", trusted=True, params={"self": "ref:TagAndStatusStatement"},
         pure=False, fresh_result="set",
         ensures={"members": "forall_val(lambda t: has_key(result, t) == eff_tag(self, t))"},
         doc="own tags united with all ancestors' tags (proved under C09 on the real getters)")
