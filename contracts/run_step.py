# -*- coding: utf-8 -*-
"""Step.run under contract: C02 (outcome -> status, called exactly once), C01 (keep_going and
bad-event accounting), C12 (before_step/after_step bracket, hook error containment),
C15 (one match and one result event unless quiet), C18 (real streams restored on every exit)."""
from pyvc.contracts import contract, oracle, ghost, Loop, Raises, shape, trusted_note, macro
from contracts.runs_common import R, M

P = ["C02", "C01", "C12", "C15", "C18"]
SYS = {"sys": ("singleton", "SysModule")}

# -- abstractions used by Step.run -------------------------------------------------------
contract("abs:find_match", trusted=True, pos_params=["self", "step"], modifies=["G_bad"], result="opt:ref:Match",
         ensures={"value": "result == step_match(step)",
                  "typed": "is_none(result) or typeof_is(result, 'Match')",
                  "undefined-step-is-a-bad-event": "G_bad == old(G_bad) + (1 if is_none(step_match(step)) else 0)"},
         doc="step_registry.find_match(step) (dispatch proved under C11); an undefined step is a bad event")
SCN = "as_ref(G_ctx_scenario, 'Scenario')"
STEPS = "as_list(all_steps_of(%s), 'ref:Step')" % SCN
BAD_OUTCOME = ("(call_outcome(old(G_ncalls)) in (1, 2, 4) or (call_outcome(old(G_ncalls)) == 3 and "
               "not (G_ctx_scenario is not ABSENT and eff_tag(%s, 'wip'))))" % SCN)
MATCH_COMMON = {
    "call-logged": "G_ncalls == old(G_ncalls) + 1",
    "bad-event-iff-bad-outcome": "G_bad == old(G_bad) + (1 if %s else 0)" % BAD_OUTCOME,
    "only-skip-touches-the-model":
        "implies(call_outcome(old(G_ncalls)) != 5, unchanged('status') and unchanged('should_skip') "
        "and unchanged('_cached_status') and unchanged('skip_reason'))",
}
contract("abs:Match.run", trusted=True, params={"self": "ref:Match"}, pos_params=["self", "context"],
         modifies=["G_ncalls", "G_bad", "*.status", "*.should_skip", "*.skip_reason", "*._cached_status"],
         ghost_stores=[("calls", "G_ncalls", "self")],
         raises=[Raises("AssertionError", when="call_outcome(G_ncalls) == 1", ensures=MATCH_COMMON),
                 Raises("StepNotImplementedError", when="call_outcome(G_ncalls) == 3", ensures=MATCH_COMMON),
                 Raises("KeyboardInterrupt", when="call_outcome(G_ncalls) == 4", ensures=MATCH_COMMON),
                 Raises("Exception", when="call_outcome(G_ncalls) == 2", ensures=MATCH_COMMON)],
         ensures=dict(MATCH_COMMON, **{
             "returned": "call_outcome(old(G_ncalls)) in (0, 5)",
             "skip-needs-a-scenario": "implies(G_ctx_scenario is ABSENT, call_outcome(old(G_ncalls)) != 5)",
             "skip-scenario-marks-unexecuted-steps-skipped":
                 "implies(call_outcome(old(G_ncalls)) == 5 and G_ctx_scenario is not ABSENT, "
                 "%s.should_skip == True and unchanged_except('should_skip', G_ctx_scenario) and unchanged_outside('status', %s) and "
                 "forall(lambda k: implies(0 <= k < len(%s), %s[k].status == "
                 "ite(old(%s[k].status) in (Status.untested, Status.skipped), Status.skipped, old(%s[k].status)))))"
                 % (SCN, STEPS, STEPS, STEPS, STEPS, STEPS),
         }),
         doc="running the matched step function (user code): behaves per call_outcome(k): 0 returns, 1 AssertionError, "
             "2 other Exception (incl. type-conversion errors of MatchWithError), 3 StepNotImplementedError, "
             "4 KeyboardInterrupt, 5 returns after context.scenario.skip()")
trusted_note("abs:Match.run", "A-user: step functions behave per the outcome alphabet and touch the model only "
             "through Scenario.skip()")

contract("new:NoMatch", trusted=True, pos_params=[], fresh_result="NoMatch", doc="NoMatch() marker object")
contract("abs:CaptureController.captured", trusted=True, params={"self": "ref:CaptureController"}, pure=False,
         fresh_result="Captured", doc="snapshot of the captured output (text content: bounded)")
contract("abs:Captured.make_report", trusted=True, params={"self": "ref:Captured"}, pos_params=["self"],
         pure=True, result="str", doc="report text of the captured output (bounded)")
shape("Captured")

# formatter events (broadcast to every formatter, see pyvc.stmts.broadcast_loop)
def fmt_event(kind):
    contract("abs:fmt." + kind, trusted=True, pos_params=["arg"], defaults={"arg": None},
             modifies=["G_nev"],
             ghost_stores=[("ev_kind", "G_nev", "'%s'" % kind), ("ev_arg", "G_nev", "arg")] +
                          ([("ev_status", "G_nev", "as_ref(arg, 'Step').status")] if kind == "result" else []),
             ensures={"event": "G_nev == old(G_nev) + 1"},
             doc="formatter.%s(...) broadcast to all active formatters: appends one event to the ghost event log "
                 "(A-fmt: formatters do not raise or touch the model)" % kind)


for _k in ("uri", "feature", "rule", "background", "scenario", "step", "match", "result", "eof",
           "rule_finished", "close", "entity", "entity_finished"):
    fmt_event(_k)

# -- the contract ----------------------------------------------------------------------------
HAS_BEFORE = "(not runner.config.dry_run and has_key(runner.hooks, 'before_step'))"
HAS_AFTER = "(not runner.config.dry_run and has_key(runner.hooks, 'after_step'))"
N0 = "old(G_nhooks)"
BEFORE_RAISED = "(%s and hook_raises(%s))" % (HAS_BEFORE, N0)
AFTER_IDX = "(%s + (1 if %s else 0))" % (N0, HAS_BEFORE)
AFTER_RAISED = "(%s and hook_raises(%s))" % (HAS_AFTER, AFTER_IDX)
DEFINED = "(not is_none(step_match(self)))"
CALLED = "(%s and not %s)" % (DEFINED, BEFORE_RAISED)
K0 = "old(G_ncalls)"
WIP = "(G_ctx_scenario is not ABSENT and eff_tag(%s, 'wip'))" % SCN
DRY = "runner.config.dry_run"

contract(M + "Step.run", props=P,
         params={"self": "ref:Step", "runner": "ref:ModelRunner", "quiet": "bool", "capture": "bool"},
         self_classes=["Step"], globals=SYS, result="bool",
         requires={
             "runner-has-context": "not is_none(runner.context)",
             "capture-controller-invariant": "cinv(runner.capture_controller, sys)",
             "context-attributes-are-model-elements":
                 "(G_ctx_scenario is ABSENT or typeof_is(G_ctx_scenario, 'Scenario')) and "
                 "(is_none(G_ctx_feature) or typeof_is(G_ctx_feature, 'Feature')) and (G_ctx_rule is ABSENT or typeof_is(G_ctx_rule, 'Rule'))",
             "not-capturing-at-entry": "is_none(runner.capture_controller.old_stdout) and is_none(runner.capture_controller.old_stderr)",
             "step-is-not-an-all-hook-target": "True",
         },
         callsites={"runner.step_registry.find_match": "abs:find_match"},
         locals={"current_scenario": "opt:ref:Scenario"},
         loops=[Loop(broadcast=("abs:fmt.match", "match")), Loop(broadcast=("abs:fmt.result", "result")),
                Loop(broadcast=("abs:fmt.match", "match")), Loop(broadcast=("abs:fmt.result", "result"))],
         modifies=["G_bad", "G_nhooks", "G_hook_name", "G_hook_arg", "G_hook_out", "G_hook_err", "G_ncalls", "G_calls", "G_nev", "G_ev_kind",
                   "G_ev_arg", "G_ev_status", "G_ctx_aborted", "*.status", "*.hook_failed", "*.duration", "*.exception",
                   "*.exc_traceback", "*.error_message", "*.captured", "*.should_skip", "*.skip_reason",
                   "*._cached_status", "runner.hook_failures", "list(runner._undefined_steps)",
                   "runner.capture_controller.old_stdout", "runner.capture_controller.old_stderr",
                   "sys.stdout", "sys.stderr"],
         ensures={
             # ---- C02: outcome -> status -----------------------------------------------------
             "undefined-step": "implies(not %s, self.status == (Status.untested_undefined if %s else Status.undefined) "
                               "and G_ncalls == %s and result == False "
                               "and len(runner._undefined_steps) == old(len(runner._undefined_steps)) + 1)" % (DEFINED, DRY, K0),
             "failing-before-hook-keeps-step-function-from-running":
                 "implies(%s and %s, G_ncalls == %s and self.status == Status.hook_error)" % (DEFINED, BEFORE_RAISED, K0),
             "step-function-called-exactly-once":
                 "implies(%s, G_ncalls == %s + 1 and typeof_is(G_calls(%s), 'Match') and G_calls(%s) == step_match(self))"
                 % (CALLED, K0, K0, K0),
             "returned-gives-passed":
                 "implies(%s and not %s and call_outcome(%s) == 0, self.status == Status.passed)" % (CALLED, AFTER_RAISED, K0),
             "assertion-error-gives-failed":
                 "implies(%s and not %s and call_outcome(%s) == 1, self.status == Status.failed)" % (CALLED, AFTER_RAISED, K0),
             "other-exception-gives-error":
                 "implies(%s and not %s and call_outcome(%s) == 2, self.status == Status.error)" % (CALLED, AFTER_RAISED, K0),
             "keyboard-interrupt-gives-error-and-aborts":
                 "implies(%s and not %s and call_outcome(%s) == 4, self.status == Status.error and G_ctx_aborted == True)"
                 % (CALLED, AFTER_RAISED, K0),
             "not-implemented-gives-pending":
                 "implies(%s and not %s and call_outcome(%s) == 3, self.status == "
                 "(Status.untested_pending if %s else (Status.pending_warn if %s else Status.pending)))"
                 % (CALLED, AFTER_RAISED, K0, DRY, WIP),
             "skipping-the-scenario-leaves-the-step-skipped":
                 "implies(%s and not %s and call_outcome(%s) == 5 and G_ctx_scenario is not ABSENT and "
                 "exists(lambda k: 0 <= k < len(%s) and %s[k] is self), "
                 "self.status == Status.skipped and %s.should_skip == True)" % (CALLED, AFTER_RAISED, K0, STEPS, STEPS, SCN),
             "failing-after-hook-gives-hook-error":
                 "implies(%s and %s, self.status == Status.hook_error)" % (DEFINED, AFTER_RAISED),
             "other-steps-keep-their-status-unless-skipped-by-the-scenario":
                 "forall(lambda r: implies(r != ref_of(self), field_of(r, 'status', 'Step') == old(field_of(r, 'status', 'Step')) "
                 "or (old(field_of(r, 'status', 'Step')) in (Status.untested, Status.skipped) "
                 "and field_of(r, 'status', 'Step') == Status.skipped)))",
             "other-steps-change-only-to-skipped":
                 "forall(lambda r: implies(r != ref_of(self), field_of(r, 'status', 'Step') == old(field_of(r, 'status', 'Step')) "
                 "or field_of(r, 'status', 'Step') == Status.skipped))",
             "other-passed-steps-stay-passed":
                 "forall(lambda r: implies(r != ref_of(self) and old(field_of(r, 'status', 'Step')) in (Status.passed, Status.pending_warn), "
                 "field_of(r, 'status', 'Step') == old(field_of(r, 'status', 'Step'))))",
             "keep-going-only-with-passed-or-skipped-status":
                 "implies(result and not %s, self.status in (Status.passed, Status.pending_warn, Status.skipped))" % DRY,
             "skipped-status-means-the-scenario-was-skipped":
                 "implies(self.status == Status.skipped, G_ctx_scenario is not ABSENT and %s.should_skip == True)" % SCN,
             "should-skip-set-only-by-a-skipping-step":
                 "forall(lambda r: field_of(r, 'should_skip') == old(field_of(r, 'should_skip')) or "
                 "(G_ctx_scenario is not ABSENT and r == ref_of(G_ctx_scenario) and %s and call_outcome(%s) == 5))" % (CALLED, K0),
             "only-this-steps-hook-flag-changes": "unchanged_except('hook_failed', self)",
             "own-hook-flag-means-bad-event": "implies(self.hook_failed, G_bad > old(G_bad))",
             "abort-only-with-a-bad-event": "implies(G_ctx_aborted and not old(G_ctx_aborted), G_bad > old(G_bad))",
             "hook-failures-grow-only-with-a-bad-event": "implies(runner.hook_failures > old(runner.hook_failures), G_bad > old(G_bad))",
             "undefined-steps-found-are-bad-events": "implies(len(runner._undefined_steps) > old(len(runner._undefined_steps)), G_bad > old(G_bad))",
             "undefined-list-grows-only-for-an-undefined-step":
                 "len(runner._undefined_steps) == old(len(runner._undefined_steps)) + (0 if %s else 1)" % DEFINED,
             # ---- C01 ------------------------------------------------------------------------------
             "failed-step-stops-the-scenario": "implies(self.status.has_failed(), result == False)",
             "keep-going-iff-not-failed": "implies(not %s, result == (not self.status.has_failed()))" % DRY,
             "failed-step-is-a-bad-event":
                 "implies(not %s and self.status.has_failed(), G_bad > old(G_bad))" % DRY,
             "bad-event-means-failed-step":
                 "implies(not %s and G_bad > old(G_bad), self.status.has_failed())" % DRY,
             "bad-events-never-decrease": "G_bad >= old(G_bad)",
             # ---- C12 --------------------------------------------------------------------------------
             "hooks-bracket-the-step":
                 "implies(%s, G_nhooks == %s + (1 if %s else 0) + (1 if %s else 0))" % (DEFINED, N0, HAS_BEFORE, HAS_AFTER),
             "no-hook-for-undefined-step": "implies(not %s, G_nhooks == %s)" % (DEFINED, N0),
             "hook-failures-counted":
                 "runner.hook_failures == old(runner.hook_failures) + (1 if %s and %s else 0) + (1 if %s and %s else 0)"
                 % (DEFINED, BEFORE_RAISED, DEFINED, AFTER_RAISED),
             # ---- C15 ------------------------------------------------------------------------------------
             "one-match-and-one-result-event":
                 "implies(not quiet, G_nev == old(G_nev) + 2 and G_ev_kind(old(G_nev)) == 'match' "
                 "and G_ev_kind(old(G_nev) + 1) == 'result' and G_ev_arg(old(G_nev) + 1) is self)",
             "the-result-event-shows-the-final-status":
                 "implies(not quiet, G_ev_status(old(G_nev) + 1) == self.status)",
             "quiet-emits-nothing": "implies(quiet, G_nev == old(G_nev))",
             # ---- C18 -------------------------------------------------------------------------------------
             "step-hooks-run-while-output-is-captured":
                 "implies(%s and capture and runner.capture_controller.config.stdout_capture, "
                 "implies(%s, G_hook_out(%s) is runner.capture_controller.stdout_capture) and "
                 "implies(%s, G_hook_out(%s) is runner.capture_controller.stdout_capture)) and "
                 "implies(%s and capture and runner.capture_controller.config.stderr_capture, "
                 "implies(%s, G_hook_err(%s) is runner.capture_controller.stderr_capture) and "
                 "implies(%s, G_hook_err(%s) is runner.capture_controller.stderr_capture))"
                 % (DEFINED, HAS_BEFORE, N0, HAS_AFTER, AFTER_IDX, DEFINED, HAS_BEFORE, N0, HAS_AFTER, AFTER_IDX),
             "real-streams-restored": "sys.stdout is old(sys.stdout) and sys.stderr is old(sys.stderr)",
             "capture-invariant-kept": "cinv(runner.capture_controller, sys) and is_none(runner.capture_controller.old_stdout) "
                                       "and is_none(runner.capture_controller.old_stderr)",
             "failure-report-attached": "implies(self.status.has_failed() and %s, not is_none(self.error_message))" % DEFINED,
         },
         doc="no `raises`: nothing escapes Step.run under A-user/A-hook")


from contracts import prop
_RUN_NOTES = ["A-user / A-hook: user step functions and hooks behave per the outcome alphabet / hook_raises oracle",
              "formatter calls are summarised as broadcast events after a structural check of each emission loop (A-fmt)"]
prop("C02", level="proof", bounded=[],
     explanation="Step.run proved: outcome->status mapping for every outcome of the alphabet, step function called exactly "
                 "once (never after a failing before_step hook, never for an undefined step), keep_going iff not failed; "
                 "Scenario.run: no step function once a step did not pass, none in dry-run, remaining steps skipped/undefined; "
                 "the step sequence itself: per-scenario untested copies of the inherited background steps (feature background, "
                 "then rule background) followed by the scenario's own steps (copy/reset helpers, Scenario.background_steps, "
                 "Background.inherited_steps/iter_steps/all_steps, Scenario.iter_steps); a failing type conversion yields a "
                 "MatchWithError whose run() raises (Matcher.match)",
     notes=_RUN_NOTES)
