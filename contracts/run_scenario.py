# -*- coding: utf-8 -*-
"""Scenario.run under contract (C01 verdict link, C02 step loop, C09 selection, C12 hook bracket,
C13 scope balance, C15 events, C18 capture set-up/tear-down)."""
from pyvc.contracts import contract, oracle, ghost, Loop, Raises, shape, trusted_note, macro
from contracts.runs_common import R, M
from contracts import prop

P = ["C01", "C02", "C03", "C09", "C12", "C13", "C15", "C18"]
SYS = {"sys": ("singleton", "SysModule")}

# selection (tags / name) of a scenario: pure functions of the scenario and the configuration
contract("abs:TagAndStatusStatement.should_run_with_tags", trusted=True,
         params={"self": "ref:TagAndStatusStatement"}, pos_params=["self", "tag_expression"], pure=True,
         result="bool", ensures={"value": "result == tag_check(tag_expression, self)"},
         doc="tag_expression.check(effective_tags): pure function of the element's effective tag set (C07/C08/C09)")
contract("abs:Scenario.should_run_with_name_select", trusted=True, params={"self": "ref:Scenario"},
         pos_params=["self", "config"], pure=True, result="bool",
         ensures={"value": "result == name_selected(config, self)"},
         doc="--name selection (regex search on the scenario name: bounded under C10)")
contract(M + "Scenario.should_run", props=P + ["C10"], params={"self": "ref:Scenario", "config": "opt:ref:Configuration"},
         self_classes=["Scenario"], result="bool", pure=True,
         callsites={"self.should_run_with_tags": "abs:TagAndStatusStatement.should_run_with_tags",
                    "self.should_run_with_name_select": "abs:Scenario.should_run_with_name_select"},
         ensures={"runs-iff-not-marked-skipped-and-selected-by-tags-and-by-name":
                  "result == (not self.should_skip and (is_none(config) or "
                  "(tag_check(as_ref(config, 'Configuration').tag_expression, self) and name_selected(config, self))))"},
         doc="the run decision of a scenario: the skip mark, the tag expression and the --name selection, all three (C09, C10)")
contract("abs:Scenario.captured.reset", trusted=True, pos_params=[], pure=True, doc="clears the captured output holder")
contract("new:Context", trusted=True, pos_params=["runner"], fresh_result="Context", doc="Context(runner)")
contract(R + "ModelRunner.setup_capture", inline=True)
contract("abs:Scenario.__iter__", trusted=True, params={"self": "ref:Scenario"}, pos_params=["self"],
         result="seq:ref:Step", modifies=["self._background_steps"],
         ensures={"value": "result is all_steps_of(self)"}, doc="iter(scenario) == all_steps")

oracle("step_rank", ["val"], "int")     # position of a step object in its scenario's step list (distinct objects)
SEL0 = "(not old(self.should_skip) and tag_check(runner.config.tag_expression, self) and name_selected(runner.config, self))"
STEPS = "as_list(all_steps_of(self), 'ref:Step')"


HFLAGS = "forall(lambda r: implies(field_of(r, 'hook_failed', 'Step') and not old(field_of(r, 'hook_failed', 'Step')), G_bad > old(G_bad)))"
CAP = ("cinv(runner.capture_controller, sys) and is_none(runner.capture_controller.old_stdout) "
       "and is_none(runner.capture_controller.old_stderr) and not is_none(runner.context) "
       "and sys.stdout is old(sys.stdout) and sys.stderr is old(sys.stderr)")
CTX = ("G_ctx_scenario is self and (is_none(G_ctx_feature) or typeof_is(G_ctx_feature, 'Feature')) and (G_ctx_rule is ABSENT or typeof_is(G_ctx_rule, 'Rule')) "
       "and G_ctx_depth == old(G_ctx_depth) + 1")
HOOKMOD = ["G_nhooks", "G_hook_name", "G_hook_arg", "G_hook_out", "G_hook_err", "G_bad", "G_ctx_aborted", "runner.hook_failures", "*.hook_failed", "*.error_message", "*.exception", "*.exc_traceback"]
STEPMOD = ["G_bad", "G_nhooks", "G_hook_name", "G_hook_arg", "G_hook_out", "G_hook_err", "G_ncalls", "G_calls", "G_nev", "G_ev_kind", "G_ev_arg", "G_ev_status",
           "G_ctx_aborted", "*.status", "*.hook_failed", "*.duration", "*.exception", "*.exc_traceback",
           "*.error_message", "*.captured", "*.should_skip", "*.skip_reason", "*._cached_status",
           "runner.hook_failures", "list(runner._undefined_steps)", "runner.capture_controller.old_stdout",
           "runner.capture_controller.old_stderr", "sys.stdout", "sys.stderr"]
PASSED = "(Status.passed, Status.pending_warn)"
UNDEF0 = "old(len(runner._undefined_steps))"

FINAL = "own-hook-failure-is-the-final-status,raising-cleanup-fails-the-scenario,a-scenario-whose-own-hook-failed-reports-failure-to-its-container"
contract(M + "Scenario.run", props=P + ["C17:" + FINAL, "C16:" + FINAL],
         params={"self": "ref:Scenario", "runner": "ref:ModelRunner"}, self_classes=["Scenario"],
         globals=SYS, result="bool",
         requires={
             "runner-has-context": "not is_none(runner.context)",
             "capture-controller-invariant": "cinv(runner.capture_controller, sys)",
             "not-capturing-at-entry": "is_none(runner.capture_controller.old_stdout) and is_none(runner.capture_controller.old_stderr)",
             "context-attributes-are-model-elements":
                 "(G_ctx_scenario is ABSENT or typeof_is(G_ctx_scenario, 'Scenario')) and "
                 "(is_none(G_ctx_feature) or typeof_is(G_ctx_feature, 'Feature')) and (G_ctx_rule is ABSENT or typeof_is(G_ctx_rule, 'Rule'))",
             "no-continue-after-failed-step": "True",
         },
         callsites={"self.captured.reset": "abs:Scenario.captured.reset",
                    "runner.step_registry.find_match": "abs:find_match"},
         loops=[
             # 0: before_tag hooks
             Loop(modifies=HOOKMOD, invariant={
                 "capture": CAP, "context": CTX, "hook-flags": HFLAGS,
                 "visible-counters": "implies(runner.hook_failures > old(runner.hook_failures), G_bad > old(G_bad)) and "
                                     "implies(len(runner._undefined_steps) > old(len(runner._undefined_steps)), G_bad > old(G_bad)) and "
                                     "implies(G_ctx_aborted and not old(G_ctx_aborted), G_bad > old(G_bad)) and G_bad >= old(G_bad)",
                 "hook-failure-is-a-bad-event": "G_bad >= old(G_bad) and self.hook_failed == (G_bad > old(G_bad)) "
                                                "and runner.hook_failures >= old(runner.hook_failures)",
                 "hooks-only-if-selected": "not runner.config.dry_run",
             }),
             Loop(broadcast=("abs:fmt.scenario", "scenario")),
             # 2: announce steps
             Loop(modifies=["G_nev", "G_ev_kind", "G_ev_arg", "G_ev_status"], invariant={
                 "one-step-event-per-step": "G_nev == pre(G_nev) + _i and forall(lambda k: implies(0 <= k < _i, "
                                            "G_ev_kind(pre(G_nev) + k) == 'step' and G_ev_arg(pre(G_nev) + k) is _at(k)))",
                 "earlier-events-kept": "forall(lambda k: implies(k < pre(G_nev), G_ev_kind(k) == pre(G_ev_kind(k)) "
                                        "and G_ev_arg(k) == pre(G_ev_arg(k))))",
             }),
             Loop(broadcast=("abs:fmt.step", "step")),
             # 4: the step loop; ghost j = number of steps handed to Step.run so far
             Loop(modifies=STEPMOD, ghost={"j": ("0", "j + (1 if at_start(run_steps) else 0)")}, invariant={
                 "capture": CAP, "context": CTX, "hook-flags": HFLAGS,
                 "visible-counters": "implies(runner.hook_failures > old(runner.hook_failures), G_bad > old(G_bad)) and "
                                     "implies(len(runner._undefined_steps) > old(len(runner._undefined_steps)), G_bad > old(G_bad)) and "
                                     "implies(G_ctx_aborted and not old(G_ctx_aborted), G_bad > old(G_bad)) and G_bad >= old(G_bad)",
                 "bad-monotone": "G_bad >= old(G_bad) and len(runner._undefined_steps) >= " + UNDEF0 +
                                 " and runner.hook_failures >= old(runner.hook_failures)",
                 "running-only-outside-dry-run": "implies(run_steps, not runner.config.dry_run) and "
                                                 "implies(dry_run_scenario, runner.config.dry_run)",
                 "failed-means-bad-event": "implies(failed, G_bad > old(G_bad))",
                 "bad-event-means-failed-or-undefined-found":
                     "implies(G_bad > old(G_bad), failed or len(runner._undefined_steps) > " + UNDEF0 + ")",
                 "own-hook-flag": "self.hook_failed == pre(self.hook_failed)",
                 "running-means-all-earlier-passed-unless-continue-after-failed-step-is-on":
                     "implies(run_steps and not self.continue_after_failed_step, not failed and not self.should_skip and "
                     "forall(lambda k: implies(0 <= k < _i, _at(k).status in %s)))" % PASSED,
                 "executed-count": "0 <= j <= _i and implies(run_steps, j == _i) and G_ncalls - pre(G_ncalls) <= j",
                 "steps-not-executed-have-no-executed-status":
                     "forall(lambda k: implies(j <= k < _i, _at(k).status not in (Status.passed, Status.pending_warn, "
                     "Status.failed, Status.error, Status.hook_error, Status.pending)))",
                 "steps-not-executed-are-skipped-or-undefined":
                     "implies(not runner.config.dry_run, forall(lambda k: implies(j <= k < _i, "
                     "_at(k).status in (Status.skipped, Status.undefined))))",
                 "stopped-by-a-non-passing-step":
                     "implies(not run_steps and j > 0 and not runner.config.dry_run, j >= 1)",
                 "no-call-once-stopped": "implies(not pre(run_steps), not run_steps and G_ncalls == pre(G_ncalls) and G_nhooks == pre(G_nhooks) and failed == pre(failed))",
                 "not-selected-all-skipped":
                     "implies(not pre(run_steps) and not failed and not dry_run_scenario, "
                     "G_nhooks == pre(G_nhooks) and forall(lambda k: implies(0 <= k < _i, _at(k).status == Status.skipped)))",
                 "steps": "_seq is all_steps_of(self) and forall(lambda k: implies(0 <= k < _n, step_rank(_at(k)) == k))",
             }),
             Loop(broadcast=[("abs:fmt.match", "match"), ("abs:fmt.result", "result")]),  # dry-run: undefined step
             Loop(broadcast=[("abs:fmt.match", "match"), ("abs:fmt.result", "result")]),  # dry-run emulation
             # 7: after_tag hooks
             Loop(modifies=HOOKMOD, invariant={
                 "capture": CAP, "context": CTX, "hook-flags": HFLAGS,
                 "visible-counters": "implies(runner.hook_failures > old(runner.hook_failures), G_bad > old(G_bad)) and "
                                     "implies(len(runner._undefined_steps) > old(len(runner._undefined_steps)), G_bad > old(G_bad)) and "
                                     "implies(G_ctx_aborted and not old(G_ctx_aborted), G_bad > old(G_bad)) and G_bad >= old(G_bad)",
                 "hook-failure-is-a-bad-event": "G_bad >= pre(G_bad) and self.hook_failed == (pre(self.hook_failed) or G_bad > pre(G_bad)) "
                                                "and runner.hook_failures >= pre(runner.hook_failures)",
             }),
         ],
         assume={"step-list-is-not-the-runners-undefined-list": "all_steps_of(self) is not runner._undefined_steps",
                 "steps-of-a-scenario-are-distinct-objects":
                 "forall(lambda k: implies(0 <= k < len(%s), step_rank(%s[k]) == k))" % (STEPS, STEPS)},
         modifies=["G_bad", "G_nhooks", "G_hook_name", "G_hook_arg", "G_hook_out", "G_hook_err", "G_ncalls", "G_calls", "G_nev", "G_ev_kind",
                   "G_ev_arg", "G_ev_status", "G_ctx_aborted", "G_ctx_scenario", "G_ctx_depth", "G_ctx_saved_scenario", "G_ctx_rule", "G_ctx_saved_rule",
                   "G_npops", "G_ncleanup_runs", "G_log_installed", "G_ctx_writes",
                   "*.status", "*.hook_failed", "*.duration", "*.exception",
                   "*.exc_traceback", "*.error_message", "*.captured", "*.should_skip", "*.skip_reason",
                   "*._cached_status", "*._background_steps", "*.was_dry_run", "runner.hook_failures",
                   "list(runner._undefined_steps)",
                   "runner.capture_controller.old_stdout", "runner.capture_controller.old_stderr",
                   "runner.capture_controller.stdout_capture", "runner.capture_controller.stderr_capture",
                   "runner.capture_controller.log_capture", "sys.stdout", "sys.stderr"],
         ensures={
             # ---- C13 -------------------------------------------------------------------------
             "scope-balanced": "G_ctx_depth == old(G_ctx_depth) and G_ctx_scenario == old(G_ctx_scenario) and G_ctx_rule == old(G_ctx_rule)",
             "raising-cleanup-fails-the-scenario":
                 "implies(pop_raises(old(G_npops)), result == True and self._cached_status == Status.error)",
             # ---- C03 / C17: an own hook failure is the scenario's final status, whatever was read before -----
             "own-hook-failure-is-the-final-status":
                 "implies(self.hook_failed and not pop_raises(old(G_npops)), self._cached_status == Status.hook_error)",
             # ---- C01 -------------------------------------------------------------------------
             "no-false-red": "implies(result, G_bad > old(G_bad))",
             "no-false-green": "implies(G_bad > old(G_bad), result or len(runner._undefined_steps) > %s)" % UNDEF0,
             "bad-events-never-decrease": "G_bad >= old(G_bad)",
             "counters-never-decrease": "len(runner._undefined_steps) >= %s and runner.hook_failures >= old(runner.hook_failures)" % UNDEF0,
             "context-feature-stays-a-feature": "is_none(G_ctx_feature) or typeof_is(G_ctx_feature, 'Feature')",
             "context-kept": "not is_none(runner.context)",
             "hook-failures-grow-only-with-a-bad-event": "implies(runner.hook_failures > old(runner.hook_failures), G_bad > old(G_bad))",
             "undefined-steps-found-are-bad-events": "implies(len(runner._undefined_steps) > old(len(runner._undefined_steps)), G_bad > old(G_bad))",
             "abort-only-with-a-bad-event": "implies(G_ctx_aborted and not old(G_ctx_aborted), G_bad > old(G_bad))",

             "hook-flags-set-only-with-a-bad-event":
                 "forall(lambda r: implies(field_of(r, 'hook_failed', 'Step') and not old(field_of(r, 'hook_failed', 'Step')), G_bad > old(G_bad)))",
             "outer-saved-scopes-kept":
                 "forall(lambda k: implies(k < old(G_ctx_depth), G_ctx_saved_scenario(k) == old(G_ctx_saved_scenario(k)) and G_ctx_saved_rule(k) == old(G_ctx_saved_rule(k))))",
             # ---- C09 / C12 ---------------------------------------------------------------------
             "not-selected-scenario-runs-no-hook":
                 "implies(not %s and not old(G_ctx_aborted), G_nhooks == old(G_nhooks))" % SEL0,
             "not-selected-scenario-calls-no-step-function":
                 "implies(not %s and not old(G_ctx_aborted), G_ncalls == old(G_ncalls))" % SEL0,
             "not-selected-scenario-does-not-fail":
                 "implies(not %s and not old(G_ctx_aborted) and not pop_raises(old(G_npops)), result == False)" % SEL0,
             "not-selected-scenario-has-all-steps-skipped":
                 "implies(not %s and not old(G_ctx_aborted), forall(lambda k: implies(0 <= k < len(%s), %s[k].status == Status.skipped)))"
                 % (SEL0, STEPS, STEPS),
             "no-hooks-in-dry-run": "implies(runner.config.dry_run, G_nhooks == old(G_nhooks))",
             # ---- C03: statuses depend only on the latest run -----------------------------------------
             "a-scenario-whose-own-hook-failed-reports-failure-to-its-container":
                 "implies(self.hook_failed, result == True)",
             "own-hook-flag-reflects-this-run-only (not an earlier attempt)":
                 "implies(self.hook_failed, G_bad > old(G_bad))",
             # ---- C02 ---------------------------------------------------------------------------
             "dry-run-calls-no-step-function": "implies(runner.config.dry_run, G_ncalls == old(G_ncalls))",
             "no-more-step-functions-than-steps": "G_ncalls - old(G_ncalls) <= len(%s)" % STEPS,
             # ---- C18 -----------------------------------------------------------------------------
             "real-streams-restored": "sys.stdout is old(sys.stdout) and sys.stderr is old(sys.stderr)",
             "capture-invariant-kept": "cinv(runner.capture_controller, sys) and is_none(runner.capture_controller.old_stdout) "
                                       "and is_none(runner.capture_controller.old_stderr)",
             "log-capture-torn-down": "G_log_installed == old(G_log_installed)",
         },
         doc="no `raises`: nothing escapes Scenario.run under A-user/A-hook (KeyboardInterrupt is turned into an error step)")


