# -*- coding: utf-8 -*-
"""C15 -- formatters mirror the model: the bookkeeping of the plain formatter under contract.

PlainFormatter pairs a result with the oldest announced step of its queue: the queue must be empty when a new
feature / rule / background / scenario starts, or results of the next scenario are printed against steps left over
from the previous one (announced but never executed).  The text that is written is bounded (b_c15.py).
"""
from pyvc.contracts import contract, oracle, Loop, shape, macro, global_const
from contracts import prop

PL = "behave.formatter.plain:"
P = ["C15"]
shape("PlainFormatter", steps="seq:ref:Step", current_rule="any", stream="any", indent_size="int", show_timings="bool",
      show_multiline="bool", show_aligned_keywords="bool", show_tags="bool", config="any")
contract("abs:PlainFormatter.write_entity", trusted=True, params={"self": "ref:PlainFormatter"},
         pos_params=["self", "entity", "indent", "has_tags"], defaults={"indent": "", "has_tags": True}, pure=True,
         doc="writes '<keyword>: <name>' (text: bounded)")
contract("abs:make_indentation", trusted=True, pos_params=["n"], pure=True, result="str")
global_const("make_indentation", ("contract", "abs:make_indentation"))
contract("abs:plain.stream.write", trusted=True, pos_params=["self", "text"], pure=True)
contract(PL + "PlainFormatter.reset_steps", props=P, params={"self": "ref:PlainFormatter"}, self_classes=["PlainFormatter"],
         modifies=["self.steps"], ensures={"queue-emptied": "len(self.steps) == 0 and is_fresh(self.steps)"})
for _m, _arg in (("feature", "feature"), ("rule", "rule"), ("background", "background"), ("scenario", "scenario")):
    contract(PL + "PlainFormatter.%s" % _m, props=P,
             params={"self": "ref:PlainFormatter", _arg: "any"}, self_classes=["PlainFormatter"],
             callsites={"self.stream.write": "abs:plain.stream.write"},
             modifies=["self.steps", "self.current_rule"],
             ensures={"no-announced-step-of-an-earlier-element-is-left-in-the-queue": "len(self.steps) == 0"})
contract(PL + "PlainFormatter.step", props=P, params={"self": "ref:PlainFormatter", "step": "ref:Step"},
         self_classes=["PlainFormatter"], modifies=["list(self.steps)"],
         ensures={"announced-step-queued-last": "len(self.steps) == old(len(self.steps)) + 1 and self.steps[len(self.steps) - 1] is step and "
                                                "forall(lambda k: implies(0 <= k < old(len(self.steps)), self.steps[k] is old(self.steps[k])))"})

# -- JSON formatter: the report is one JSON list: header once, features separated, footer once ----------------------
JS = "behave.formatter.json:"
from pyvc.contracts import ghost
ghost("js_n", "int")          # number of protocol tokens written so far
ghost("js_tok", "array")      # the tokens: 'header', 'feature', 'separator', 'footer'
shape("JSONFormatter", feature_count="int", current_feature_data="any", current_feature="any", current_scenario="any",
      _step_index="int", stream="any")


def _tok(name):
    contract("abs:JSONFormatter.write_json_%s" % name, trusted=True, params={"self": "ref:JSONFormatter"},
             pos_params=["self"] + (["feature_data"] if name == "feature" else []), modifies=["G_js_n"],
             ghost_stores=[("js_tok", "G_js_n", "'%s'" % name)], ensures={"written": "G_js_n == old(G_js_n) + 1"},
             doc="writes the JSON %s text to the stream (text: bounded)" % name)


for _t in ("header", "footer", "feature", "feature_separator"):
    _tok(_t)
contract("abs:JSONFormatter.close_stream", trusted=True, params={"self": "ref:JSONFormatter"}, pos_params=["self"], pure=True)
from pyvc.contracts import ghost as _ghost15
_ghost15("jsf_n", "int")        # finish_current_scenario() calls
_ghost15("jsf_for", "val")      # self.current_scenario at the last such call
contract("abs:JSONFormatter.finish_current_scenario", trusted=True, params={"self": "ref:JSONFormatter"}, pos_params=["self"],
         modifies=["dicts", "lists", "G_jsf_n", "G_jsf_for"],
         ensures={"recorded": "G_jsf_n == old(G_jsf_n) + 1 and G_jsf_for == self.current_scenario"},
         doc="stores the status of self.current_scenario in that scenario's element (fix 4fff01a; content: bounded); "
             "ghost: for which scenario it was called")
contract("abs:JSONFormatter.add_feature_element", trusted=True, params={"self": "ref:JSONFormatter"}, pos_params=["self", "element"],
         modifies=["dicts", "lists"], result="dict", ensures={"same-element": "result is element"},
         doc="appends the element to the current feature's element list (content: bounded)")
contract("abs:JSONFormatter.step", trusted=True, params={"self": "ref:JSONFormatter"}, pos_params=["self", "step"],
         modifies=["dicts", "lists", "self._step_index"], doc="adds a step entry to the current element (content: bounded)")
contract("lib:six.text_type", trusted=True, pos_params=["x"], pure=True, result="str")
shape("Background", name="any", keyword="any", location="any", steps="seq:ref:Step")
for _fn, _arg, _cur in (("background", "background", "None"), ("scenario", "scenario", "scenario")):
    contract(JS + "JSONFormatter.%s" % _fn, props=P,
             params={"self": "ref:JSONFormatter", _arg: "ref:Background" if _fn == "background" else "ref:Scenario"},
             self_classes=["JSONFormatter"],
             callsites={"self.finish_current_scenario": "abs:JSONFormatter.finish_current_scenario",
                        "self.add_feature_element": "abs:JSONFormatter.add_feature_element", "self.step": "abs:JSONFormatter.step",
                        "six.text_type": "lib:six.text_type"},
             modifies=["dicts", "lists", "G_jsf_n", "G_jsf_for", "self.current_scenario", "self._step_index"],
             loops=[Loop(modifies=["dicts", "lists", "self._step_index"],
                         invariant={"cursor": "G_jsf_n == old(G_jsf_n) + 1 and G_jsf_for == old(self.current_scenario)"})] if _fn == "background" else [],
             ensures={"the-status-of-the-preceding-scenario-is-stored-before-the-cursor-moves":
                      "G_jsf_n == old(G_jsf_n) + 1 and G_jsf_for == old(self.current_scenario)",
                      "the-cursor-moves": "self.current_scenario is %s" % _cur if _cur != "None" else "is_none(self.current_scenario)"},
             doc="a scenario's element gets its status when the next scenario or a (rule) background starts")

contract("abs:JSONFormatter.update_status_data", trusted=True, params={"self": "ref:JSONFormatter"}, pos_params=["self"],
         modifies=["dicts"], doc="stores the feature status (content: bounded)")
contract(JS + "JSONFormatter.reset", inline=True)
N0 = "old(G_js_n)"
contract(JS + "JSONFormatter.close", props=P, params={"self": "ref:JSONFormatter"}, self_classes=["JSONFormatter"],
         modifies=["G_js_n", "G_js_tok"],
         ensures={"an-empty-report-still-opens-the-list":
                  "implies(self.feature_count == 0, G_js_n == %s + 2 and G_js_tok(%s) == 'header' and G_js_tok(%s + 1) == 'footer')" % (N0, N0, N0),
                  "otherwise-only-the-footer": "implies(self.feature_count != 0, G_js_n == %s + 1 and G_js_tok(%s) == 'footer')" % (N0, N0)})
contract(JS + "JSONFormatter.eof", props=P, params={"self": "ref:JSONFormatter"}, self_classes=["JSONFormatter"],
         modifies=["G_js_n", "G_js_tok", "G_jsf_n", "G_jsf_for", "self.feature_count", "self.current_feature", "self.current_feature_data",
                   "self.current_scenario", "self._step_index", "dicts", "lists"],
         ensures={"nothing-written-without-feature-data":
                  "implies(not old(truthy(self.current_feature_data)), G_js_n == %s and self.feature_count == old(self.feature_count))" % N0,
                  "first-feature-opens-the-list-later-ones-are-separated":
                  "implies(old(truthy(self.current_feature_data)), G_js_n == %s + 2 and "
                  "G_js_tok(%s) == ('header' if old(self.feature_count) == 0 else 'feature_separator') and G_js_tok(%s + 1) == 'feature' "
                  "and self.feature_count == old(self.feature_count) + 1)" % (N0, N0, N0)})

# -- progress3: problem steps are reported with their scenario, once --------------------------------------------
PG = "behave.formatter.progress:"
shape("ScenarioStepProgressFormatter", steps="seq:ref:Step", failed_steps="seq:ref:Step", error_steps="seq:ref:Step",
      current_feature="any", current_rule="any", current_scenario="any", stream="any", show_timings="bool")
for _m in ("report_scenario_progress", "report_scenario_duration", "report_failures"):
    contract("abs:ScenarioStepProgressFormatter.%s" % _m, trusted=True, params={"self": "ref:ScenarioStepProgressFormatter"},
             pos_params=["self"], pure=True, doc="writes to the stream only (the text is bounded: b_c15 progress)")
contract(PG + "ScenarioStepProgressFormatter.report_scenario_completed", props=P,
         params={"self": "ref:ScenarioStepProgressFormatter"}, self_classes=["ScenarioStepProgressFormatter"],
         callsites={"self.report_scenario_progress": "abs:ScenarioStepProgressFormatter.report_scenario_progress",
                    "self.report_scenario_duration": "abs:ScenarioStepProgressFormatter.report_scenario_duration",
                    "self.report_failures": "abs:ScenarioStepProgressFormatter.report_failures"},
         modifies=["self.failed_steps", "self.error_steps"],
         ensures={"no-problem-step-of-this-scenario-is-carried-over-to-the-next-one (it would be reported again)":
                  "len(self.failed_steps) == 0 and len(self.error_steps) == 0 and is_fresh(self.failed_steps) "
                  "and is_fresh(self.error_steps) and self.failed_steps is not self.error_steps"},
         doc="each processed step is shown exactly once: the failure/error queues are per scenario")

# -- StreamOpener.close: only streams this opener opened are closed and forgotten --------------------------------
FB = "behave.formatter.base:"
shape("StreamOpener", name="any", stream="any", encoding="any", should_close_stream="bool")
contract("abs:stream.close", trusted=True, pos_params=["self"], pure=True, doc="file.close()")
contract(FB + "StreamOpener.close", props=P, params={"self": "ref:StreamOpener"}, self_classes=["StreamOpener"],
         result="any", callsites={"self.stream.close": "abs:stream.close"}, modifies=["self.stream"],
         exprs={"getattr(self.stream, 'closed', False)": ("fresh", "bool")},
         ensures={"a-pre-opened-stream (stdout, a caller's stream) stays-attached: later formatters still write to it":
                  "implies(not self.should_close_stream, self.stream is old(self.stream) and not truthy(result))",
                  "an-own-stream-is-forgotten-once-closed": "implies(self.should_close_stream and truthy(old(self.stream)), is_none(self.stream))"},
         doc="close() on an opener for sys.stdout or a caller's stream must be a no-op: the same opener object is used again "
             "by the next formatter close / the next run (C15 'a single close' per formatter, not per shared stream)")
