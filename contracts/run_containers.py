# -*- coding: utf-8 -*-
"""ScenarioOutline.run, ScenarioContainer.run (Feature, Rule) and ModelRunner.run_model under contract:
the verdict chain of C01 (no false green / no false red), hook bracket (C12), scope balance (C13)."""
from pyvc.contracts import contract, oracle, ghost, Loop, Raises, shape, trusted_note, macro
from contracts.runs_common import R, M
from contracts.run_scenario import SYS, CAP as _CAP_SCN, HOOKMOD
from contracts import prop

P = ["C01", "C12", "C13", "C15"]
oracle("container_selected", ["val", "ref"], "bool")

RUN_REQUIRES = {
    "runner-has-context": "not is_none(runner.context)",
    "capture-controller-invariant": "cinv(runner.capture_controller, sys)",
    "not-capturing-at-entry": "is_none(runner.capture_controller.old_stdout) and is_none(runner.capture_controller.old_stderr)",
    "context-attributes-are-model-elements":
        "(G_ctx_scenario is ABSENT or typeof_is(G_ctx_scenario, 'Scenario')) and "
        "(is_none(G_ctx_feature) or typeof_is(G_ctx_feature, 'Feature')) and (G_ctx_rule is ABSENT or typeof_is(G_ctx_rule, 'Rule'))",
}
RUN_MODIFIES = ["G_bad", "G_nhooks", "G_hook_name", "G_hook_arg", "G_hook_out", "G_hook_err", "G_ncalls", "G_calls", "G_nev", "G_ev_kind",
                "G_ev_arg", "G_ev_status", "G_ctx_aborted", "G_ctx_scenario", "G_ctx_feature", "G_ctx_depth", "G_ctx_saved_scenario", "G_ctx_rule", "G_ctx_saved_rule",
                "G_npops", "G_ncleanup_runs", "G_log_installed", "G_ctx_writes",
                "*.status", "*.hook_failed", "*.duration", "*.exception", "*.exc_traceback", "*.error_message",
                "*.captured", "*.should_skip", "*.skip_reason", "*._cached_status", "*._background_steps",
                "*.was_dry_run", "*.run_starttime", "*.run_endtime", "*._scenarios", "*.index", "*.id", "*.modified",
                "runner.hook_failures", "list(runner._undefined_steps)",
                "runner.capture_controller.old_stdout", "runner.capture_controller.old_stderr",
                "runner.capture_controller.stdout_capture", "runner.capture_controller.stderr_capture",
                "runner.capture_controller.log_capture", "sys.stdout", "sys.stderr"]
RUN_MODIFIES_SELF = [m.replace("runner.", "self.") for m in RUN_MODIFIES]
UNDEF0 = "old(len(runner._undefined_steps))"
HF0 = "old(runner.hook_failures)"
# what every run() of a run item guarantees to its container (each override is proved against it)
RUN_ENSURES = {
    "scope-balanced": "G_ctx_depth == old(G_ctx_depth) and G_ctx_scenario == old(G_ctx_scenario) and G_ctx_rule == old(G_ctx_rule)",
    "context-feature-stays-a-feature": "is_none(G_ctx_feature) or typeof_is(G_ctx_feature, 'Feature')",
    "no-false-red": "implies(result, G_bad > old(G_bad))",
    "no-false-green": "implies(G_bad > old(G_bad), result or len(runner._undefined_steps) > %s "
                      "or runner.hook_failures > %s)" % (UNDEF0, HF0),
    "counters-never-decrease": "G_bad >= old(G_bad) and len(runner._undefined_steps) >= %s "
                               "and runner.hook_failures >= %s" % (UNDEF0, HF0),
    "real-streams-restored": "sys.stdout is old(sys.stdout) and sys.stderr is old(sys.stderr)",
    "capture-invariant-kept": "cinv(runner.capture_controller, sys) and is_none(runner.capture_controller.old_stdout) "
                              "and is_none(runner.capture_controller.old_stderr) and not is_none(runner.context)",
    "log-capture-torn-down": "G_log_installed == old(G_log_installed)",
    "hook-flags-set-only-with-a-bad-event":
        "forall(lambda r: implies(field_of(r, 'hook_failed', 'Step') and not old(field_of(r, 'hook_failed', 'Step')), G_bad > old(G_bad)))",
    "outer-saved-scopes-kept":
        "forall(lambda k: implies(k < old(G_ctx_depth), G_ctx_saved_scenario(k) == old(G_ctx_saved_scenario(k)) and G_ctx_saved_rule(k) == old(G_ctx_saved_rule(k))))",
    "hook-failures-grow-only-with-a-bad-event": "implies(runner.hook_failures > old(runner.hook_failures), G_bad > old(G_bad))",
    "undefined-steps-found-are-bad-events": "implies(len(runner._undefined_steps) > old(len(runner._undefined_steps)), G_bad > old(G_bad))",
    "abort-only-with-a-bad-event": "implies(G_ctx_aborted and not old(G_ctx_aborted), G_bad > old(G_bad))",
    "no-hooks-in-dry-run": "implies(runner.config.dry_run, G_nhooks == old(G_nhooks))",
    "dry-run-calls-no-step-function": "implies(runner.config.dry_run, G_ncalls == old(G_ncalls))",
}
for _cls in ("RunItem", "Scenario"):
    contract("abs:%s.run" % _cls, trusted=False, params={"self": "ref:%s" % _cls, "runner": "ref:ModelRunner"},
             pos_params=["self", "runner"], globals=SYS, result="bool",
             requires=RUN_REQUIRES, modifies=RUN_MODIFIES, ensures=RUN_ENSURES,
             doc="dynamic dispatch target of run_item.run(runner): Scenario.run, ScenarioOutline.run and "
                 "ScenarioContainer.run are each proved against these clauses (behavioural subtyping)")

CAPI = ("cinv(runner.capture_controller, sys) and is_none(runner.capture_controller.old_stdout) "
        "and is_none(runner.capture_controller.old_stderr) and not is_none(runner.context) "
        "and sys.stdout is old(sys.stdout) and sys.stderr is old(sys.stderr) and G_log_installed == old(G_log_installed)")
CTXI = ("(G_ctx_scenario is ABSENT or typeof_is(G_ctx_scenario, 'Scenario')) and "
        "(is_none(G_ctx_feature) or typeof_is(G_ctx_feature, 'Feature')) and (G_ctx_rule is ABSENT or typeof_is(G_ctx_rule, 'Rule'))")
ACC = {
    "capture": CAPI, "context": CTXI,
    "hook-flags": "forall(lambda r: implies(field_of(r, 'hook_failed', 'Step') and not old(field_of(r, 'hook_failed', 'Step')), G_bad > old(G_bad)))",
    "counters-never-decrease": "G_bad >= old(G_bad) and len(runner._undefined_steps) >= %s and runner.hook_failures >= %s "
                               "and failed_count >= 0" % (UNDEF0, HF0),
    "counted-failure-means-bad-event": "implies(failed_count > 0, G_bad > old(G_bad))",
    "bad-event-is-counted-or-visible-to-the-runner":
        "implies(G_bad > old(G_bad), failed_count > 0 or len(runner._undefined_steps) > %s or runner.hook_failures > %s)"
        % (UNDEF0, HF0),
    "dry-run-silent": "implies(runner.config.dry_run, G_nhooks == old(G_nhooks) and G_ncalls == old(G_ncalls))",
    "visible-counters-grow-only-with-bad-events":
        "implies(runner.hook_failures > old(runner.hook_failures), G_bad > old(G_bad)) and "
        "implies(len(runner._undefined_steps) > old(len(runner._undefined_steps)), G_bad > old(G_bad)) and "
        "implies(G_ctx_aborted and not old(G_ctx_aborted), G_bad > old(G_bad))",
}

# abs:ScenarioOutline.scenarios: see contracts/c10_location.py
contract(M + "ScenarioOutline.run", props=P + ["C03"], params={"self": "ref:ScenarioOutline", "runner": "ref:ModelRunner"},
         self_classes=["ScenarioOutline"], globals=SYS, result="bool",
         requires=RUN_REQUIRES, modifies=RUN_MODIFIES,
         loops=[Loop(modifies=RUN_MODIFIES, invariant=dict(ACC, **{
             "scope": "G_ctx_depth == old(G_ctx_depth) and G_ctx_scenario == old(G_ctx_scenario) and G_ctx_rule == old(G_ctx_rule) and "
                      "forall(lambda k: implies(k < old(G_ctx_depth), G_ctx_saved_scenario(k) == old(G_ctx_saved_scenario(k)) and G_ctx_saved_rule(k) == old(G_ctx_saved_rule(k))))",
             "hook-flags": "forall(lambda r: implies(field_of(r, 'hook_failed', 'Step') and not old(field_of(r, 'hook_failed', 'Step')), G_bad > old(G_bad)))",
             "with-stop-no-row-runs-after-a-failed-one": "implies(runner.config.stop, failed_count == 0)"}))],
         ensures=dict(RUN_ENSURES, **{
             "status-cache-is-empty-after-the-rows-ran":
                 "self._cached_status == Status.untested",
         }),
         doc="C03: the row runs may leave any value in the outline's status cache (a hook that reads outline.status between two "
             "rows caches a status computed from rows that have not run yet); the cache must be empty again when run() returns, "
             "so that the status reported afterwards is compute_status() of the final row statuses")

# -- Feature / Rule --------------------------------------------------------------------------------
contract(M + "ScenarioContainer.should_run", inline=True)
contract("abs:ScenarioContainer.should_run_with_tags", trusted=True, params={"self": "ref:ScenarioContainer"},
         pos_params=["self", "tag_expression"], pure=True, result="bool",
         ensures={"value": "result == container_selected(tag_expression, self)"},
         doc="own effective tags match or some run item matches (proved under C09)")
contract(M + "Feature._setup_context_for_run", inline=True)
contract(M + "Rule._setup_context_for_run", inline=True)
contract(M + "ScenarioContainer._setup_context_for_run", inline=True)
contract("abs:name_select_cb", trusted=True, pos_params=["config"], pure=True, result="bool",
         doc="run_item.should_run_with_name_select(config) (C10)")
contract("abs:RunItem.mark_skipped", trusted=True, params={"self": "ref:RunItem"}, pos_params=["self"],
         modifies=["*.status", "*.should_skip", "*.skip_reason", "*._cached_status", "*._background_steps",
                   "*._scenarios", "*.index", "*.id", "*.modified"],
         doc="marks the item and everything in it skipped (C10); no hook, no step function, no bad event")

CONT_LOOPMOD = RUN_MODIFIES
contract(M + "ScenarioContainer.run", props=P + ["C03"], params={"self": "ref:ScenarioContainer", "runner": "ref:ModelRunner"},
         self_classes=["Feature", "Rule"], globals=SYS, result="bool",
         requires=dict(RUN_REQUIRES, **{"no-scenario-scope-open": "G_ctx_scenario is ABSENT"}),
         modifies=RUN_MODIFIES,
         exprs={"getattr(run_item, 'should_run_with_name_select', None)": ("fresh", "any")},
         callsites={"should_run_with_name": "abs:name_select_cb"},
         loops=[
             Loop(modifies=HOOKMOD, invariant={                                   # 0: before_tag hooks
                 "capture": CAPI, "context": CTXI + " and G_ctx_scenario is ABSENT and G_ctx_depth == old(G_ctx_depth) + 1",
                 "hook-flags": "forall(lambda r: implies(field_of(r, 'hook_failed', 'Step') and not old(field_of(r, 'hook_failed', 'Step')), G_bad > old(G_bad)))",
                 "counters": "G_bad >= old(G_bad) and runner.hook_failures >= %s "
                             "and ((G_bad > old(G_bad)) == (runner.hook_failures > %s))" % (HF0, HF0),
                 "own-flag-only-with-bad-event": "implies(self.hook_failed, G_bad > old(G_bad))",
                 "visible": "len(runner._undefined_steps) == old(len(runner._undefined_steps)) and "
                            "implies(G_ctx_aborted and not old(G_ctx_aborted), G_bad > old(G_bad))",
                 "not-dry": "not runner.config.dry_run",
             }),
             Loop(broadcast=("abs:fmt.entity", None)),                            # 1: feature()/rule() callback
             Loop(broadcast=("abs:fmt.background", "background")),               # 2
             Loop(modifies=CONT_LOOPMOD, invariant=dict(ACC, **{                  # 3: run items
                 "scope": "G_ctx_depth == old(G_ctx_depth) + 1 and G_ctx_scenario is ABSENT "
                          "and G_ctx_saved_scenario(old(G_ctx_depth)) is ABSENT and G_ctx_saved_rule(old(G_ctx_depth)) == old(G_ctx_rule) "
                          "and forall(lambda k: implies(k < old(G_ctx_depth), G_ctx_saved_scenario(k) == old(G_ctx_saved_scenario(k)) and G_ctx_saved_rule(k) == old(G_ctx_saved_rule(k))))",
                 "own-flag-only-with-bad-event": "implies(self.hook_failed, G_bad > old(G_bad))",
                 "with-stop-no-item-runs-after-a-failed-one": "implies(runner.config.stop, failed_count == 0)",
             })),
             Loop(modifies=HOOKMOD, invariant={                                   # 4: after_tag hooks
                 "capture": CAPI, "context": CTXI + " and G_ctx_scenario is ABSENT and G_ctx_depth == old(G_ctx_depth) + 1",
                 "hook-flags": "forall(lambda r: implies(field_of(r, 'hook_failed', 'Step') and not old(field_of(r, 'hook_failed', 'Step')), G_bad > old(G_bad)))",
                 "counters": "G_bad >= pre(G_bad) and runner.hook_failures >= pre(runner.hook_failures) "
                             "and ((G_bad > pre(G_bad)) == (runner.hook_failures > pre(runner.hook_failures)))",
                 "own-flag-only-with-bad-event": "implies(self.hook_failed, G_bad > old(G_bad))",
                 "visible": "len(runner._undefined_steps) == pre(len(runner._undefined_steps)) and "
                            "implies(G_ctx_aborted and not old(G_ctx_aborted), G_bad > old(G_bad)) and G_bad >= old(G_bad)",
             }),
             Loop(broadcast=("abs:fmt.entity_finished", None)),                   # 5: eof()/rule_finished()
         ],
         ensures=dict(RUN_ENSURES, **{
             "raising-cleanup-fails-the-element":
                 "implies(pop_raises(G_npops - 1), result == True and self._cached_status == Status.error)",
             "an-element-whose-own-hook-failed-reports-failure-to-its-container-so-that-stop-stops-there":
                 "implies(self.hook_failed and not runner.config.dry_run and not old(self.should_skip) and "
                 "container_selected(runner.config.tag_expression, self), result == True and "
                 "self._cached_status in (Status.hook_error, Status.error))",
             "status-cache-holds-nothing-computed-while-the-items-ran":
                 "self._cached_status in (Status.untested, Status.skipped, Status.hook_error, Status.error)",
         }))

# -- ModelRunner.run_model: the verdict (C01 top level) --------------------------------------------------
ghost("nreported", "int")     # reporter.feature(...) broadcasts (C14: every feature is reported, run or not)
oracle("root_cleanup_raises", ["int"], "bool")
from pyvc.contracts import global_const
global_const("the_step_registry", ("sentinel", 11))
contract("abs:ScenarioContainer.run", params={"self": "ref:ScenarioContainer", "runner": "ref:ModelRunner"},
         pos_params=["self", "runner"], globals=SYS, result="bool",
         requires=dict(RUN_REQUIRES, **{"no-scenario-scope-open": "G_ctx_scenario is ABSENT"}),
         modifies=RUN_MODIFIES, ensures=RUN_ENSURES,
         doc="feature.run(runner) as seen by run_model (ScenarioContainer.run is proved against these clauses)")
contract("abs:BasicStatement.filename", trusted=True, params={"self": "ref:BasicStatement"}, pure=True, result="str",
         doc="location.filename")
contract("abs:reporter.feature", trusted=True, pos_params=["feature"], modifies=["G_nreported"],
         ensures={"counted": "G_nreported == old(G_nreported) + 1"},
         doc="reporter.feature(feature) broadcast to all reporters (A-fmt)")
contract("abs:reporter.end", trusted=True, pos_params=[], pure=True, doc="reporter.end() broadcast")
contract("abs:Context._do_cleanups", trusted=True, params={"self": "ref:Context"}, pos_params=["self"],
         modifies=["G_bad", "G_ncleanup_runs"],
         raises=[Raises("Exception", when="root_cleanup_raises(G_ncleanup_runs)",
                        ensures={"bad": "G_bad == old(G_bad) + 1"})],
         ensures={"ok": "G_bad == old(G_bad)"},
         doc="runs the root-scope cleanups (LIFO, exactly once: C13); raises iff one of them raised")

contract(R + "ModelRunner.run_model", props=["C01", "C12", "C14"],
         params={"self": "ref:ModelRunner", "features": "opt:seq:ref:Feature"},
         self_classes=["ModelRunner"], globals=SYS, result="bool",
         requires={
             "runner-has-context": "not is_none(self.context)",
             "not-aborted-at-start": "G_ctx_aborted == False and G_ctx_scenario is ABSENT and G_ctx_rule is ABSENT and is_none(G_ctx_feature)",
             "capture-controller-invariant": "cinv(self.capture_controller, sys)",
             "not-capturing-at-entry": "is_none(self.capture_controller.old_stdout) and is_none(self.capture_controller.old_stderr)",
         },
         loops=[
             Loop(modifies=RUN_MODIFIES_SELF + ["self.feature", "G_nreported"], invariant={
                 "capture": CAPI.replace("runner.", "self.").replace(" and G_log_installed == old(G_log_installed)", ""),
                 "context": CTXI + " and G_ctx_scenario is ABSENT",
                 "counters": "G_bad >= old(G_bad) and failed_count >= 0 and self.hook_failures >= 0 "
                             "and len(self._undefined_steps) >= undefined_steps_initial_size "
                             "and undefined_steps_initial_size == old(len(self._undefined_steps))",
                 "counted-failure-means-bad-event": "implies(failed_count > 0, G_bad > old(G_bad))",
                 "visible-counters-grow-only-with-bad-events":
                     "implies(self.hook_failures > 0, G_bad > old(G_bad)) and "
                     "implies(len(self._undefined_steps) > undefined_steps_initial_size, G_bad > old(G_bad)) and "
                     "implies(G_ctx_aborted, G_bad > old(G_bad))",
                 "bad-event-is-visible":
                     "implies(G_bad > old(G_bad), failed_count > 0 or self.hook_failures > 0 or "
                     "len(self._undefined_steps) > undefined_steps_initial_size)",
                 "every-feature-reported-so-far": "G_nreported == pre(G_nreported) + _i",
                 "a-run-aborted-before-the-first-feature-runs-no-feature":
                     "implies(pre(G_ctx_aborted), not run_feature and G_nhooks == pre(G_nhooks) and G_ncalls == pre(G_ncalls))",
             }),
             Loop(broadcast=("abs:fmt.uri", "uri")),
             Loop(broadcast=("abs:reporter.feature", "feature")),
             Loop(broadcast=("abs:fmt.close", "close")),
             Loop(broadcast=("abs:reporter.end", "end")),
         ],
         assume={"feature-list-is-not-the-undefined-steps-list":
                 "self.features is not self._undefined_steps and (is_none(features) or features is not self._undefined_steps)"},
         modifies=RUN_MODIFIES_SELF + ["self.context", "self.step_registry", "self.feature", "G_nreported"],
         ensures={
             "verdict-iff-something-went-wrong": "result == (G_bad > old(G_bad))",
             "every-feature-is-reported-run-or-not":
                 "implies(not is_none(features), G_nreported == old(G_nreported) + len(features)) and "
                 "implies(is_none(features), G_nreported == old(G_nreported) + len(old(self.features)))",
             "real-streams-restored": "sys.stdout is old(sys.stdout) and sys.stderr is old(sys.stderr)",
             "a-failing-before_all-hook-aborts-the-run-before-any-feature-is-entered":
                 "implies(not self.config.dry_run and has_key(self.hooks, 'before_all') and hook_raises(old(G_nhooks)), "
                 "G_ncalls == old(G_ncalls) and G_nhooks == old(G_nhooks) + 1 + (1 if has_key(self.hooks, 'after_all') else 0))",
         })


_RUN_NOTES = ["A-user / A-hook: step functions and hooks behave per the outcome alphabet / hook_raises oracle; hooks do not "
              "modify the model", "Context scope operations are abstracted to a depth counter and the values of "
              "context.scenario/feature/aborted (their own semantics: C13)",
              "formatter/reporter calls are summarised as broadcast events after a structural check of each emission loop (A-fmt)"]
prop("C01", level="proof", bounded=[],
     explanation="verdict chain proved modularly with a ghost bad-event counter: run_model returns failed iff a bad event "
                 "(failing/undefined/pending step, raising hook or cleanup, KeyboardInterrupt) happened; every run() override "
                 "(Scenario, ScenarioOutline, Feature/Rule) proved against the abstract run contract (no false red, no false green)",
     notes=_RUN_NOTES + ["process exit code (run_behave) is covered by the bounded stand-in only"])
prop("C12", level="proof", bounded=[],
     explanation="run_hook containment and attribution proved (an exception in a hook never escapes, is counted, marks the "
                 "element concerned, *_all hooks abort); before/after step hooks bracket the step; no hook in dry-run or for "
                 "de-selected scenarios; a failing before_all hook aborts the run before any feature is entered (only after_all "
                 "follows); a feature or rule whose own hook failed reports failure to its caller (so --stop stops there); with "
                 "--stop no run item (row, scenario, rule) is started after a failed one; "
                 "strict nesting of the whole hook log is bounded",
     notes=_RUN_NOTES)
prop("C15", level="other", bounded=[],
     explanation="event emission proved: Step.run emits exactly one match and one result unless quiet; Scenario.run announces every "
                 "step once in order; every emission site is a loop over all formatters (structural check); the result event "
                 "carries the step's final status; plain formatter: the queue of announced steps is empty whenever a feature, "
                 "rule, background or scenario starts; JSON formatter: header once (also for an empty report), features "
                 "separated, footer once; a scenario's status is stored in its own element before the cursor moves to the next "
                 "scenario or (rule) background. JSON/plain/progress text content and JSON read-back are bounded", notes=_RUN_NOTES)
prop("C09", level="other", bounded=[],
     explanation="proved: a not-selected scenario runs no hook, calls no step function, does not fail and ends with all steps "
                 "skipped (Scenario.run); effective_tags (generic and outline override) return exactly own plus inherited tags "
                 "(recursive definition over the parent chain); should_run_with_tags of scenarios, outlines, rules and features "
                 "is own match or some child selected; a container's status is skipped only if every run item is skipped "
                 "(ScenarioContainer / ScenarioOutline.compute_status, shared with C03). Bounded: the expression evaluation "
                 "itself (C07/C08), final statuses of containers over whole runs",
     notes=_RUN_NOTES + ["tag_check(expr, element) is defined as expr.check on any set holding exactly the element's effective "
                         "tags: check() is assumed to depend only on set membership"])
