# -*- coding: utf-8 -*-
"""Shared callee contracts (DESIGN.md 4.3): tiny helpers that are inlined at
call sites (their real bodies are executed in place), abstract contracts for
dynamic dispatch targets, oracles."""
from pyvc.contracts import contract, oracle, Raises, Loop, trusted_note

M = "behave.model:"
MC = "behave.model_core:"

# -- Status predicates: proved against the documented table in c03_status and
#    *inlined* wherever real code calls them (loop-free one-liners).
for name in ("has_failed", "is_passed", "is_failure", "is_error", "is_untested",
             "is_pending", "is_undefined", "is_final"):
    contract(MC + "Status." + name, inline=True, pure=True, params={"self": "Status"})

# -- status cache helpers (exact field effects are visible through inlining)
contract(MC + "TagAndStatusStatement.clear_status", inline=True)
contract(MC + "TagAndStatusStatement.set_status", inline=True,
         params={"value": "Status"})   # string form (Status.from_name) is not used by the run methods
contract(M + "Step.set_status", inline=True)
contract(M + "Step.has_failed", inline=True)

# -- what a status read of a child returns.  `child_status` names the value the
#    `.status` getter yields for an element during one roll-up; the getter's own
#    contract (cache semantics) is proved separately in c03_status.
oracle("child_status", ["ref"], "val:Status")
COMMON = "(Status.untested, Status.skipped, Status.passed, Status.failed, Status.error, Status.hook_error)"
contract("abs:TagAndStatusStatement.status", trusted=True,
         params={"self": "ref:TagAndStatusStatement"}, result="Status",
         modifies=["self._cached_status"],
         ensures={"value": "result == child_status(self)",
                  "final-is-sticky": "implies(old(self._cached_status).is_final(), result == old(self._cached_status) "
                                     "and self._cached_status == old(self._cached_status))",
                  "reachable-set": "result in " + COMMON},
         doc="status read of a child element: a value of the reachable (common) status set; "
             "caches into _cached_status only")
trusted_note("abs:TagAndStatusStatement.status",
             "child .status read abstracted to child_status(child) in the common status set "
             "(each compute_status is proved to return a member of that set; cache semantics "
             "of the getter proved separately)")

# -- the step sequence of a scenario (background copies + own steps); the
#    concatenation itself is proved in c02 on iter_steps/background_steps.
oracle("all_steps_of", ["ref"], "val")
contract("abs:Scenario.all_steps", trusted=True, params={"self": "ref:Scenario"},
         result="seq:ref:Step", modifies=["self._background_steps"],
         ensures={"value": "result is all_steps_of(self)"},
         doc="the scenario's step sequence (inherited background steps first)")
trusted_note("abs:Scenario.all_steps",
             "Scenario.all_steps abstracted to a stable sequence all_steps_of(scenario) of Step objects")

contract(MC + "BasicStatement.store_exception_context", inline=True)
contract(MC + "BasicStatement.reset", inline=True,
         callsites={"self.captured.reset": "abs:Captured.reset"})
contract("abs:Captured.reset", trusted=True, pos_params=["self"], pure=True, doc="clears captured output (no tracked state)")
contract(M + "Step.reset", props=["C02", "C03"], params={"self": "ref:Step"}, self_classes=["Step"],
         modifies=["self.status", "self.hook_failed", "self.duration", "self.exception", "self.exc_traceback",
                   "self.error_message", "self.captured"],
         ensures={"nothing-of-an-earlier-run-survives":
                  "self.status == Status.untested and self.hook_failed == False and is_none(self.exception) and "
                  "is_none(self.exc_traceback) and is_none(self.error_message)"},
         doc="Step.reset(): every run of a step starts from here (Step.run calls it first; reset_steps for copies). "
             "C03: statuses depend on the latest run only -- a hook failure or error text of an earlier attempt must not survive")
