# -*- coding: utf-8 -*-
"""C20 -- configuration precedence and user data: the small deciding functions under contract.

Strings are uninterpreted: strip / unquote / split are functions of their arguments, so a contract here pins *which*
operations are applied in *which* order (padding stripped, then the quote pair), not what the characters are -- that
part, configparser, argparse and the option table are covered by the bounded stand-in (every option x
{absent, file, command line, both}).
"""
from pyvc.contracts import contract, oracle, Loop, Raises, shape, macro, global_const
from contracts import prop

U = "behave.userdata:"
C = "behave.configuration:"
P = ["C20"]

# -- -D name=value ------------------------------------------------------------------------------------------------
oracle("unquoted", ["val"], "val:str")                 # unqote(text)
QUOTED = '''((text.startswith('"') and text.endswith('"')) or (text.startswith("'") and text.endswith("'")))'''
contract(U + "unqote", props=P, params={"text": "str"}, result="str", pure=True,
         ensures={"a-surrounding-pair-of-equal-quotes-is-removed": "implies(%s, result == text[1:-1])" % QUOTED,
                  "anything-else-is-kept": "implies(not %s, result == text)" % QUOTED})
contract("abs:unqote", trusted=True, pos_params=["text"], pure=True, result="str",
         ensures={"value": "result == unquoted(text)"},
         doc="call-site view of unqote inside parse_user_define (unqote itself is proved above)")
oracle("eq_head", ["val"], "val:str")          # text.split('=', 1)[0]
oracle("eq_tail", ["val"], "val:str")          # text.split('=', 1)[1]
contract("abs:str.split_eq", trusted=True, pos_params=["self", "sep", "maxsplit"], pure=True, result="tuple:str",
         ensures={"two-parts": "len(result) == 2 and result[0] == eq_head(self) and result[1] == eq_tail(self)"},
         doc="text.split('=', 1) of a text containing '=' (A-lib)")
STRIPPED = "text.strip()"
contract(U + "parse_user_define", props=P, params={"text": "str"}, result="tuple:str",
         callsites={"unqote": "abs:unqote", "text.split": "abs:str.split_eq"},
         ensures={
             "a-bare-name-means-true":
                 "implies(not str_in('=', %s), result[0] == %s and result[1] == 'true')" % (STRIPPED, STRIPPED),
             "name-is-the-stripped-text-before-the-first-equals-sign-of-the-unquoted-definition":
                 "implies(str_in('=', %s), result[0] == eq_head(unquoted(%s)).strip())" % (STRIPPED, STRIPPED),
             "value-has-padding-stripped-first-and-then-its-quote-pair":
                 "implies(str_in('=', %s), result[1] == unquoted(eq_tail(unquoted(%s)).strip()))" % (STRIPPED, STRIPPED),
         })

# -- relative paths / outfiles of a configuration file are resolved against that file's directory --------------------
oracle("resolved", ["val", "val"], "val:str")      # os.path.normpath(os.path.join(config_dir, p))
contract("lib:os.path.normpath", trusted=True, pos_params=["p"], pure=True, result="str", ensures={"value": "result == normed(p)"})
contract("lib:os.path.join", trusted=True, pos_params=["a", "b"], pure=True, result="str", ensures={"value": "result == joined(a, b)"})
oracle("normed", ["val"], "val:str")
oracle("joined", ["val", "val"], "val:str")
for _name in ("paths", "outfiles"):
    pass
PATHS_OK = ("implies(old(has_key(config_data, '%(n)s')), has_key(config_data, '%(n)s') and "
            "len(as_list(dict_value(config_data, '%(n)s'), 'str')) == old(len(as_list(dict_value(config_data, '%(n)s'), 'str'))) and "
            "forall(lambda k: implies(0 <= k < len(as_list(dict_value(config_data, '%(n)s'), 'str')), "
            "as_list(dict_value(config_data, '%(n)s'), 'str')[k] == normed(joined(config_dir, old(as_list(dict_value(config_data, '%(n)s'), 'str')[k]))))))")
contract(C + "format_outfiles_coupling", props=P,
         params={"config_data": "dict:format=seq:str;outfiles=seq:str;paths=seq:str;*=any", "config_dir": "str"},
         requires={"no-format-option (the format/outfiles coupling is bounded)": "not has_key(config_data, 'format')"},
         modifies=["dict(config_data)", "lists"],
         ensures={"relative-paths-are-resolved-against-the-configuration-file-directory-in-order": PATHS_OK % {"n": "paths"},
                  "relative-outfiles-are-resolved-against-the-configuration-file-directory-in-order": PATHS_OK % {"n": "outfiles"}})

# -- defaults are never edited in place: every Configuration starts from a fresh copy ---------------------------------
global_const("Configuration.defaults", ("singleton", "dict"))
KEYS = "as_list(uf_keys(kwargs), 'any')"
contract(C + "Configuration.make_defaults", props=P, params={"kwargs": "dict"}, result="dict",
         assume={"keyword-arguments-are-not-the-class-defaults": "kwargs is not Configuration.defaults",
                 "every-key-of-kwargs-is-enumerated":
                 "forall_val(lambda x: implies(has_key(kwargs, x), exists(lambda j: 0 <= j < len(%s) and %s[j] == x))) and "
                 "forall(lambda j: implies(0 <= j < len(%s), has_key(kwargs, %s[j])))" % (KEYS, KEYS, KEYS, KEYS)},
         loops=[Loop(invariant={
             "overrides-so-far-applied-defaults-otherwise":
                 "forall_val(lambda x: (has_key(data, x) == (has_key(Configuration.defaults, x) or "
                 "exists(lambda j: 0 <= j < _i and %(k)s[j] == x))) and "
                 "implies(exists(lambda j: 0 <= j < _i and %(k)s[j] == x), dict_value(data, x) == dict_value(kwargs, x)) and "
                 "implies(has_key(data, x) and not exists(lambda j: 0 <= j < _i and %(k)s[j] == x), "
                 "dict_value(data, x) == dict_value(Configuration.defaults, x)))" % {"k": KEYS},
             "still-a-private-copy": "data is not Configuration.defaults and data is not kwargs"})],
         ensures={"a-new-dictionary-never-the-shared-class-level-defaults": "is_fresh(result)",
                  "overrides-win": "forall_val(lambda x: implies(has_key(kwargs, x), has_key(result, x) and dict_value(result, x) == dict_value(kwargs, x)))",
                  "everything-else-keeps-its-default":
                  "forall_val(lambda x: implies(not has_key(kwargs, x), has_key(result, x) == has_key(Configuration.defaults, x) and "
                  "implies(has_key(result, x), dict_value(result, x) == dict_value(Configuration.defaults, x))))"})

# -- -D definitions override user data from configuration files -------------------------------------------------------
shape("Configuration", userdata="dict", userdata_defines="opt:dict")
contract("new:UserData", trusted=True, pos_params=["data"], defaults={"data": None}, fresh_result="dict",
         ensures={"same-content": "forall_val(lambda x: has_key(result, x) == has_key(as_ref(data, 'dict'), x) and "
                                  "implies(has_key(result, x), dict_value(result, x) == dict_value(as_ref(data, 'dict'), x)))"},
         doc="UserData(dict): a dict subclass holding the same items (A: dict constructor)")
DEFS = "as_ref(self.userdata_defines, 'dict')"
contract(C + "Configuration.update_userdata", props=P, params={"self": "ref:Configuration", "data": "dict"},
         self_classes=["Configuration"],
         requires={"userdata-is-a-dictionary-of-its-own": "self.userdata is not data and self.userdata is not self.userdata_defines",
                   "defines-are-a-dictionary-or-nothing": "is_none(self.userdata_defines) or has_kind(self.userdata_defines, 'dict')"},
         modifies=["dict(self.userdata)"],
         ensures={
             "command-line-defines-win-over-everything":
                 "implies(truthy(self.userdata_defines), forall_val(lambda x: implies(has_key(%s, x), "
                 "has_key(self.userdata, x) and dict_value(self.userdata, x) == dict_value(%s, x))))" % (DEFS, DEFS),
             "new-data-wins-over-old-user-data-where-no-define-exists":
                 "forall_val(lambda x: implies(has_key(data, x) and not (truthy(self.userdata_defines) and has_key(%s, x)), "
                 "has_key(self.userdata, x) and dict_value(self.userdata, x) == dict_value(data, x)))" % DEFS,
             "everything-else-is-kept":
                 "forall_val(lambda x: implies(not has_key(data, x) and not (truthy(self.userdata_defines) and has_key(%s, x)), "
                 "has_key(self.userdata, x) == old(has_key(self.userdata, x)) and "
                 "implies(has_key(self.userdata, x), dict_value(self.userdata, x) == old(dict_value(self.userdata, x)))))" % DEFS,
         })

# -- setup_userdata (end of Configuration.__init__): file user data first, -D definitions on top ---------------------------------
contract(C + "Configuration.setup_userdata", props=P, params={"self": "ref:Configuration"}, self_classes=["Configuration"],
         callsites={"UserData": "new:UserData", "isinstance": "abs:isinstance_dyn"}, globals={"UserData": ("sentinel", 35)},
         requires={"userdata-is-a-dictionary-of-its-own": "self.userdata is not self.userdata_defines",
                   "defines-are-a-dictionary-or-nothing": "is_none(self.userdata_defines) or has_kind(self.userdata_defines, 'dict')"},
         modifies=["self.userdata", "dict(self.userdata)"],
         ensures={
             "command-line-defines-win-over-file-user-data":
                 "implies(truthy(self.userdata_defines), forall_val(lambda x: implies(has_key(%s, x), "
                 "has_key(self.userdata, x) and dict_value(self.userdata, x) == dict_value(%s, x))))" % (DEFS, DEFS),
             "file-user-data-without-a-define-is-kept-and-nothing-else-appears":
                 "forall_val(lambda x: implies(not (truthy(self.userdata_defines) and has_key(%s, x)), "
                 "has_key(self.userdata, x) == old(has_key(self.userdata, x)) and "
                 "implies(has_key(self.userdata, x), dict_value(self.userdata, x) == old(dict_value(self.userdata, x)))))" % DEFS,
         })

# -- userdata.getas: a present value is converted or kept, only a missing name yields the default ------------------------
global_const("Unknown", ("sentinel", 1))
oracle("ud_has", ["ref", "val"], "bool")           # name in userdata
oracle("ud_value", ["ref", "val"], "val")          # userdata[name]
oracle("conv_result", ["val", "val"], "val")       # convert(value) when it returns
oracle("conv_fails", ["val", "val"], "bool")       # convert(value) raises ValueError
oracle("is_a", ["val", "val"], "bool")             # isinstance(value, valuetype)
contract("abs:UserData.get", trusted=True, pos_params=["self", "name", "default"], defaults={"default": None}, pure=True, result="any",
         ensures={"dict.get": "result == ite(ud_has(self, name), ud_value(self, name), default)",
                  "the-placeholder-is-never-a-stored-value": "implies(ud_has(self, name), ud_value(self, name) is not Unknown)"},
         doc="dict.get of the UserData dictionary (A-lib); user data never holds the Unknown placeholder class")
contract("user:convert", trusted=True, pos_params=["callee", "value"], pure=True, result="any",
         raises=[Raises("ValueError", when="conv_fails(callee, value)")],
         ensures={"value": "result == conv_result(callee, value)"},
         doc="the converter (int, float, parse_bool, a user function): a function of its argument, may raise ValueError")
contract("abs:isinstance_dyn", trusted=True, pos_params=["value", "valuetype"], pure=True, result="bool",
         ensures={"value": "result == is_a(value, valuetype)"}, doc="isinstance(value, valuetype) for a run-time type argument")
contract(U + "UserData.getas", props=P, params={"self": "ref:UserData", "convert": "any", "name": "any", "default": "any", "valuetype": "any"},
         self_classes=["UserData"], result="any",
         callsites={"self.get": "abs:UserData.get", "convert": "user:convert", "isinstance": "abs:isinstance_dyn"},
         requires={"the-converter-is-callable": "uf_bool('is_callable', convert)"},
         raises=[Raises("ValueError", when="ud_has(self, name) and not is_a(ud_value(self, name), (convert if valuetype is None else valuetype)) "
                                           "and conv_fails(convert, ud_value(self, name))", label="conversion-of-a-present-value-fails")],
         ensures={
             "only-a-missing-name-yields-the-default": "implies(not ud_has(self, name), result == default)",
             "a-present-value-of-the-wanted-type-is-kept":
                 "implies(ud_has(self, name) and is_a(ud_value(self, name), (convert if valuetype is None else valuetype)), "
                 "result == ud_value(self, name))",
             "any-other-present-value-is-converted-also-a-falsy-one":
                 "implies(ud_has(self, name) and not is_a(ud_value(self, name), (convert if valuetype is None else valuetype)), "
                 "result == conv_result(convert, ud_value(self, name)))",
         })

# -- the typed getters are getas with a fixed converter: checked against the getas contract, not its body -----------------
TYPES = {"int": ("sentinel", 31), "float": ("sentinel", 32), "parse_bool": ("sentinel", 33), "bool": ("sentinel", 34)}
PRESENT = "ud_has(self, name)"
VALUE = "ud_value(self, name)"
for _getter, _conv, _vtype in (("getint", "int", "int"), ("getfloat", "float", "float"), ("getbool", "parse_bool", "bool")):
    contract(U + "UserData." + _getter, props=P, params={"self": "ref:UserData", "name": "any", "default": "any"},
             self_classes=["UserData"], result="any", globals=TYPES,
             assume={"the-converter-is-a-function": "uf_bool('is_callable', %s)" % _conv},
             raises=[Raises("ValueError", when="%s and not is_a(%s, %s) and conv_fails(%s, %s)" % (PRESENT, VALUE, _vtype, _conv, VALUE),
                            label="unconvertible-text-of-a-present-name")],
             ensures={
                 "a-missing-name-yields-the-given-default": "implies(not %s, result == default)" % PRESENT,
                 "a-present-value-of-the-getter-type-is-kept":
                     "implies(%s and is_a(%s, %s), result == %s)" % (PRESENT, VALUE, _vtype, VALUE),
                 "any-other-present-value-is-converted-by-the-getter-converter":
                     "implies(%s and not is_a(%s, %s), result == conv_result(%s, %s))" % (PRESENT, VALUE, _vtype, _conv, VALUE),
             })

# -- the namespace view delegates to the same getters under the scoped name ("<namespace>.<name>", the bare name without one) -----
shape("UserDataNamespace", namespace="str", data="ref:UserData")
contract(U + "UserDataNamespace.make_scoped", props=P, params={"namespace": "str", "name": "str"}, result="str", pure=True,
         ensures={"namespace-dot-name-or-the-bare-name": "result == (name if not namespace else '%s.%s' % (namespace, name))"})
NSNAME = "(name if not self.namespace else '%s.%s' % (self.namespace, name))"
NPRESENT = "ud_has(self.data, %s)" % NSNAME
NVALUE = "ud_value(self.data, %s)" % NSNAME
for _getter, _conv, _vtype in (("getint", "int", "int"), ("getfloat", "float", "float"), ("getbool", "parse_bool", "bool")):
    contract(U + "UserDataNamespace." + _getter, props=P, params={"self": "ref:UserDataNamespace", "name": "str", "default": "any"},
             self_classes=["UserDataNamespace"], result="any", globals=TYPES,
             raises=[Raises("ValueError", when="%s and not is_a(%s, %s) and conv_fails(%s, %s)" % (NPRESENT, NVALUE, _vtype, _conv, NVALUE),
                            label="unconvertible-text-of-a-present-scoped-name")],
             ensures={
                 "a-missing-scoped-name-yields-the-given-default": "implies(not %s, result == default)" % NPRESENT,
                 "a-present-value-of-the-getter-type-is-kept":
                     "implies(%s and is_a(%s, %s), result == %s)" % (NPRESENT, NVALUE, _vtype, NVALUE),
                 "any-other-present-value-is-converted-by-the-getter-converter":
                     "implies(%s and not is_a(%s, %s), result == conv_result(%s, %s))" % (NPRESENT, NVALUE, _vtype, _conv, NVALUE),
             })

WANTED = "(convert if valuetype is None else valuetype)"
contract(U + "UserDataNamespace.getas", props=P,
         params={"self": "ref:UserDataNamespace", "convert": "any", "name": "str", "default": "any", "valuetype": "any"},
         self_classes=["UserDataNamespace"], result="any",
         requires={"the-converter-is-callable": "uf_bool('is_callable', convert)"},
         raises=[Raises("ValueError", when="%s and not is_a(%s, %s) and conv_fails(convert, %s)" % (NPRESENT, NVALUE, WANTED, NVALUE),
                        label="unconvertible-text-of-a-present-scoped-name")],
         ensures={
             "a-missing-scoped-name-yields-the-given-default": "implies(not %s, result == default)" % NPRESENT,
             "a-present-value-of-the-wanted-type-is-kept": "implies(%s and is_a(%s, %s), result == %s)" % (NPRESENT, NVALUE, WANTED, NVALUE),
             "any-other-present-value-is-converted":
                 "implies(%s and not is_a(%s, %s), result == conv_result(convert, %s))" % (NPRESENT, NVALUE, WANTED, NVALUE),
         })
contract(U + "UserDataNamespace.get", props=P, params={"self": "ref:UserDataNamespace", "name": "str", "default": "any"},
         self_classes=["UserDataNamespace"], result="any", pure=True, callsites={"self.data.get": "abs:UserData.get"},
         ensures={"value-under-the-scoped-name-else-the-default": "result == ite(%s, %s, default)" % (NPRESENT, NVALUE)})

# -- pyproject.toml reader: which key each file option is stored under --------------------------------------------------
oracle("toml_data", ["val"], "val")
contract("abs:file.enter", trusted=True, pos_params=[], pure=True, doc="open(path, 'rb').__enter__")
contract("abs:file.exit", trusted=True, pos_params=[], pure=True, doc="file.__exit__")
contract("abs:configfile_options_iter", trusted=True, pos_params=["config"], pure=True, result="seq:tuple:any",
         ensures={"triples": "forall(lambda k: implies(0 <= k < len(result), len(as_tuple(result[k], 'any')) == 3))",
                  "dest-is-text": "forall(lambda k: implies(0 <= k < len(result), has_kind(as_tuple(result[k], 'any')[0], 'str')))",
                  "action-is-text": "forall(lambda k: implies(0 <= k < len(result), has_kind(as_tuple(result[k], 'any')[1], 'str')))",
                  "type-is-none-or-a-function":
                      "forall(lambda k: implies(0 <= k < len(result), is_none(as_tuple(result[k], 'any')[2]) or "
                      "typeof_is(as_tuple(result[k], 'any')[2], 'function')))"},
         doc="(dest, action, type) of every OPTIONS entry that the file mentions (option table: bounded)")
contract("abs:format_outfiles_coupling", trusted=True, pos_params=["config_data", "config_dir"], modifies=["dict(config_data)", "lists"],
         ensures={"adds-no-key": "forall_val(lambda x: has_key(config_data, x) == old(has_key(config_data, x)))",
                  "edits-only-paths-outfiles-format": "forall_val(lambda x: implies(x != 'paths' and x != 'outfiles' and x != 'format', "
                                                      "dict_value(config_data, x) == old(dict_value(config_data, x))))"},
         doc="call-site view of format_outfiles_coupling (path part proved above; format/outfiles coupling bounded)")
contract("abs:_values_to_str", trusted=True, pos_params=["data"], fresh_result="dict", doc="JSON round trip turning numbers into text (A-lib)")
contract("lib:os.path.dirname", trusted=True, pos_params=["p"], pure=True, result="str")
contract("new:ConfigParamTypeError", trusted=True, pos_params=["message"], fresh_result="ConfigParamTypeError")
from pyvc.contracts import external_exception
external_exception("ConfigParamTypeError", "Exception")
OPT = "as_tuple(_seq[%s], 'any')"
contract("lib:tomllib.load", trusted=True, pos_params=["f"], pure=True, result="any", doc="tomllib.load(file) (A-lib)")
contract("lib:json.dumps", trusted=True, pos_params=["x"], pure=True, result="str", doc="json.dumps (A-lib)")
contract("lib:json.loads.tables", trusted=True, pos_params=["s"], pure=True, result="dict:tool=dict;*=any",
         ensures={"toml-tables-are-dictionaries":
                  "implies(has_key(result, 'tool') and has_key(as_ref(dict_value(result, 'tool'), 'dict'), 'behave'), "
                  "has_kind(dict_value(as_ref(dict_value(result, 'tool'), 'dict'), 'behave'), 'dict'))"},
         doc="json.loads(json.dumps(toml data)): plain dictionaries; [tool] and [tool.behave] are TOML tables (A-lib; a scalar "
             "`tool = 3` is outside the contract)")
contract(C + "read_toml_config", props=P, params={"path": "str"}, result="dict", lookup_raises=True,
         with_items={"open(path, 'rb')": ("abs:file.enter", "abs:file.exit")},
         modifies=["lists"],
         callsites={"json.loads": "lib:json.loads.tables", "json.dumps": "lib:json.dumps", "tomllib.load": "lib:tomllib.load",
                    "configfile_options_iter": "abs:configfile_options_iter", "format_outfiles_coupling": "abs:format_outfiles_coupling",
                    "_values_to_str": "abs:_values_to_str", "os.path.dirname": "lib:os.path.dirname",
                    "ConfigParamTypeError": "new:ConfigParamTypeError"},
         locals={"dest": "str", "action": "str", "section_name": "str", "data_name": "str"},
         raises=[Raises("ConfigParamTypeError", when=None, label="append-option-that-is-not-a-list"),
                 Raises("ValueError", when=None, label="unknown-action"), Raises("KeyError", when=None, label="no-behave-table")],
         loops=[Loop(invariant={
                    "file-tags-are-kept-apart-from-command-line-tags": "not has_key(this_config, 'tags')",
                    "the-behave-table-stays-a-dictionary": "implies(has_key(config_tool, 'behave'), has_kind(dict_value(config_tool, 'behave'), 'dict'))",
                    "a-private-result": "is_fresh(this_config)"}, modifies=["dict(this_config)"]),
                Loop(invariant={"file-tags-are-kept-apart-from-command-line-tags": "not has_key(this_config, 'tags')",
                                "the-behave-table-stays-a-dictionary": "implies(has_key(config_tool, 'behave'), has_kind(dict_value(config_tool, 'behave'), 'dict'))",
                                "a-private-result": "is_fresh(this_config)"}, modifies=["dict(this_config)"])],
         ensures={"file-tags-are-stored-as-config_tags-never-as-tags (so that --tags on the command line wins)":
                  "not has_key(result, 'tags')",
                  "a-new-dictionary": "is_fresh(result)"})

# -- ini reader: the same key discipline, list-valued options keep the order of their lines --------------------------------
from pyvc.contracts import virtual_class
virtual_class("IniParser", bases=[], members=[])
shape("IniParser", optionxform="any")
oracle("ini_get", ["ref", "val"], "val:str")          # config.get("behave", dest)
oracle("ini_lines", ["val"], "val")                    # text.splitlines() as a list
contract("new:ConfigParser", trusted=True, pos_params=[], fresh_result="IniParser", doc="configparser.ConfigParser() (A-lib)")
contract("abs:IniParser.read", trusted=True, params={"self": "ref:IniParser"}, pos_params=["self", "path"], pure=True,
         doc="config.read(path): loads the file (A-lib; the content is what ini_get / has_section / items return)")
contract("abs:IniParser.get", trusted=True, params={"self": "ref:IniParser"}, pos_params=["self", "section", "option"], kwarg="kw",
         pure=True, result="str", ensures={"value": "result == ini_get(self, option)"}, doc="config.get('behave', option) (A-lib)")
contract("abs:IniParser.getboolean", trusted=True, params={"self": "ref:IniParser"}, pos_params=["self", "section", "option"],
         pure=True, result="bool", doc="config.getboolean (A-lib)")
contract("abs:IniParser.has_section", trusted=True, params={"self": "ref:IniParser"}, pos_params=["self", "section"],
         pure=True, result="bool", doc="config.has_section (A-lib)")
contract("abs:IniParser.items", trusted=True, params={"self": "ref:IniParser"}, pos_params=["self", "section"],
         fresh_result="dict", doc="config.items(section) (A-lib; modelled as a dictionary of the section)")
contract("abs:str.splitlines", trusted=True, pos_params=["self"], pure=True, result="seq:str",
         ensures={"value": "result is ini_lines(self)"}, doc="text.splitlines(): a function of the text (A-lib)")
contract(C + "read_configparser", props=P, params={"path": "str"}, result="dict",
         callsites={"ConfigParser": "new:ConfigParser", "config.read": "abs:IniParser.read", "config.get": "abs:IniParser.get",
                    "config.getboolean": "abs:IniParser.getboolean", "config.has_section": "abs:IniParser.has_section",
                    "config.items": "abs:IniParser.items", "config.get('behave', dest).splitlines": "abs:str.splitlines",
                    "configfile_options_iter": "abs:configfile_options_iter", "format_outfiles_coupling": "abs:format_outfiles_coupling",
                    "os.path.dirname": "lib:os.path.dirname", "value_type": "user:convert"},
         locals={"dest": "str", "action": "str", "section_name": "str", "data_name": "str"},
         exprs={"this_config[data_name].update(config.items(section_name))": ("const", None)},
         modifies=["lists", "dicts"],
         raises=[Raises("ValueError", when=None, label="conversion-or-unknown-action")],
         loops=[Loop(invariant={"file-tags-are-kept-apart-from-command-line-tags": "not has_key(this_config, 'tags')",
                                "a-private-result": "is_fresh(this_config)"}, modifies=["dict(this_config)", "alloc"]),
                Loop(invariant={"file-tags-are-kept-apart-from-command-line-tags": "not has_key(this_config, 'tags')",
                                "a-private-result": "is_fresh(this_config)"}, modifies=["dict(this_config)", "alloc"])],
         ensures={"file-tags-are-stored-as-config_tags-never-as-tags": "not has_key(result, 'tags')",
                  "a-new-dictionary": "is_fresh(result)"})

prop("C20", level="other", bounded=[],
     explanation="proved: -D definitions are parsed as padding-stripped text, bare name = true, name = stripped text before the "
                 "first '=' of the unquoted definition, value = padding stripped first and then its quote pair (unqote removes "
                 "exactly one surrounding pair of equal quotes); setup_userdata (end of Configuration.__init__): -D definitions win over file user data, "
                 "file user data without a define is kept, nothing else appears, whether or not userdata already is a UserData; "
                 "update_userdata: command-line defines win over new data which "
                 "wins over old user data, everything else kept; make_defaults returns a new dictionary (never the shared class "
                 "level defaults) in which overrides win and everything else keeps its default; relative paths / outfiles of a "
                 "configuration file are resolved against that file's directory, in order, whether or not a format option is "
                 "present; UserData.getas returns the default only for a missing name, keeps a present value of the wanted type "
                 "and converts any other present value (also a falsy one), raising ValueError iff that conversion fails; "
                 "the typed getters getint / getfloat / getbool are checked as callers of that contract (converter int / float / "
                 "parse_bool, wanted type int / float / bool, the caller's default passed through); "
                 "UserDataNamespace.make_scoped gives '<namespace>.<name>' (the bare name without a namespace) and the namespace "
                 "getters (get, getas, getint, getfloat, getbool) are the same getters of the underlying user data under that scoped name; "
                 "read_configparser and read_toml_config never store file tags under 'tags' (they go to config_tags, so --tags "
                 "on the command line wins) and return a new dictionary. Bounded: the option table itself (every option x {absent, file, command "
                 "line, both}), configparser / argparse, the values read_toml_config stores, format/outfiles coupling",
     technique="contract-based deductive verification (own VC generator over the real ASTs, z3/cvc5) of the deciding helper "
               "functions; bounded run-time contract stand-in for the option table",
     notes=["userdata_defines is modelled as a dictionary (argparse delivers a list of (name, value) pairs; dict.update treats both alike, A-lib)",
            "the converters int, float, parse_bool are callable (assumed in the typed getters; the objects themselves are opaque tokens)",
            "string primitives (strip, split('=', 1), slicing, startswith/endswith) are uninterpreted functions of their arguments",
            "Configuration.defaults is modelled as one process-wide dictionary object",
            "Configuration.__init__ / load_configuration / read_configuration are not under contract"])
