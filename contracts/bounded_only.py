# -*- coding: utf-8 -*-
"""Properties whose check currently consists of the bounded stand-in only (no function of theirs is
under contract yet): claimed at level "other", never as proof.  P contracts replace these entries as
they are written (see DESIGN.md section 5 for the planned clauses)."""
from contracts import prop, PROPERTIES

_BOUNDED_ONLY = {
    "C04": "Gherkin parsing faithfulness: bounded stand-in (independent Gherkin writer with line-number oracle, all 80 "
           "languages and every keyword alias, cell splitting and doc-string de-indentation against spec functions)",
    "C05": "parser error discipline: bounded stand-in (line soups, single-line mutations of valid documents, fault "
           "injection at every position where it is a fault, all entry points)",
    "C06": "scenario outline expansion: bounded stand-in (outlines written by an independent writer, simultaneous "
           "substitution oracle, template/row independence, table API histories)",
    "C07": "tag expressions v2: bounded stand-in (complete truth tables over a 7-tag universe for enumerated trees and "
           "renderings, print/re-parse, config placeholder)",
    "C08": "tag expressions v1 / auto-detection: bounded stand-in (CNF formulas, complete truth tables, mixed texts rejected)",
    "C14": "summary conservation: bounded stand-in (census of the model vs reporter text and collector counts over real runs, "
           "all line formats)",
    "C16": "JUnit reports: bounded stand-in (independent XML parser on reports of real runs with hostile alphabets; "
           "all code points through the invalid-character filter)",
    "C20": "configuration precedence / userdata: bounded stand-in (every option x {absent,file,cmdline,both}, define parsing, getters)",
}
for _p, _t in _BOUNDED_ONLY.items():
    if _p not in PROPERTIES:
        prop(_p, level="other", bounded=[], explanation=_t + ". NOT a proof: no obligation is generated for this property yet.",
             technique="bounded run-time contract stand-in only (contract-based deductive part not built yet for this property)",
             notes=["bounded only"])
